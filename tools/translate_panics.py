#!/usr/bin/env python3
"""Translator T(panic-site inventory): scans the three crates' non-test sources for explicit
panic sites (unwrap / expect / panic! / unreachable! / unimplemented! / todo! / assert! /
assert_eq! / assert_ne!; debug_assert* excluded) and emits coq/Gen/PanicSites.v: a sorted list of
(file, enclosing fn, kind, count).  Line numbers are deliberately not part of the key.

`--baseline` writes coq/Model/PanicBaseline.v instead (done once on the reviewed tree, committed).
"""
import re, os, sys

CRATES = ['rsjsonnet-lang/src', 'rsjsonnet-front/src', 'rsjsonnet/src']
KINDS = [
    ('unwrap', re.compile(r'\.unwrap\(\)')),
    ('expect', re.compile(r'\.expect\(')),
    ('panic', re.compile(r'(?<![\w_])panic!\s*\(')),
    ('unreachable', re.compile(r'(?<![\w_])unreachable!\s*\(')),
    ('unimplemented', re.compile(r'(?<![\w_])unimplemented!\s*\(')),
    ('todo', re.compile(r'(?<![\w_])todo!\s*\(')),
    ('assert', re.compile(r'(?<![\w_])assert!\s*\(')),
    ('assert_eq', re.compile(r'(?<![\w_])assert_eq!\s*\(')),
    ('assert_ne', re.compile(r'(?<![\w_])assert_ne!\s*\(')),
]


def strip_rust(text):
    """remove comments, string and char literals (keeping newlines) so braces and macros can be counted"""
    out = []
    i, n = 0, len(text)
    while i < n:
        c = text[i]
        if text.startswith('//', i):
            j = text.find('\n', i)
            i = n if j < 0 else j
        elif text.startswith('/*', i):
            depth, i = 1, i + 2
            while i < n and depth:
                if text.startswith('/*', i):
                    depth += 1; i += 2
                elif text.startswith('*/', i):
                    depth -= 1; i += 2
                else:
                    if text[i] == '\n':
                        out.append('\n')
                    i += 1
        elif c == '"' or (c == 'b' and text.startswith('b"', i)):
            i += 2 if c == 'b' else 1
            while i < n and text[i] != '"':
                if text[i] == '\\':
                    i += 1
                if i < n and text[i] == '\n':
                    out.append('\n')
                i += 1
            i += 1
            out.append('""')
        elif c == 'r' and re.match(r'r#*"', text[i:]):
            m = re.match(r'r(#*)"', text[i:])
            close = '"' + m.group(1)
            j = text.find(close, i + len(m.group(0)))
            seg = text[i:(j + len(close)) if j >= 0 else n]
            out.append('\n' * seg.count('\n'))
            i += len(seg)
            out.append('""')
        elif c == "'" or (c == 'b' and text.startswith("b'", i)):
            m = re.match(r"b?'(\\.[^']*|[^'\\])'", text[i:])
            if m:
                out.append("' '")
                i += len(m.group(0))
            else:
                out.append(c)   # a lifetime
                i += 1
        else:
            out.append(c)
            i += 1
    return ''.join(out)


def scan_file(path):
    text = strip_rust(open(path, encoding='utf-8').read())
    sites = {}
    stack = []          # (fn name, depth at which its body opened)
    depth = 0
    pending_fn = None
    in_test_mod_depth = None
    for line in text.split('\n'):
        if re.search(r'#\[cfg\(test\)\]', line):
            pending_test = True
        m = re.search(r'\bfn\s+([A-Za-z_]\w*)', line)
        if m:
            pending_fn = m.group(1)
        cur = stack[-1][0] if stack else '<top>'
        for kind, rx in KINDS:
            k = len(rx.findall(line))
            if k:
                name = pending_fn if (pending_fn and not stack) else cur
                key = (name, kind)
                sites[key] = sites.get(key, 0) + k
        for ch in line:
            if ch == '{':
                depth += 1
                if pending_fn is not None:
                    stack.append((pending_fn, depth))
                    pending_fn = None
            elif ch == '}':
                if stack and stack[-1][1] == depth:
                    stack.pop()
                depth -= 1
            elif ch == ';' and pending_fn is not None and not stack:
                pending_fn = None   # a trait method declaration without body
    return sites


def inventory(repo):
    inv = []
    for c in CRATES:
        root = os.path.join(repo, c)
        if not os.path.isdir(root):
            raise ValueError('crate source dir missing: ' + c)
        for d, _, fs in sorted(os.walk(root)):
            for f in sorted(fs):
                if not f.endswith('.rs') or f == 'tests.rs' or f.startswith('verif_'):   # verif_*.rs: hook modules, compiled only under cfg(rsjsonnet_verif)
                    continue
                p = os.path.join(d, f)
                rel = os.path.relpath(p, repo)
                for (fn, kind), n in sorted(scan_file(p).items()):
                    inv.append((rel, fn, kind, n))
    if len(inv) < 50:
        raise ValueError('panic inventory suspiciously small (%d entries): source shape not understood' % len(inv))
    return inv


def render(inv, name, header):
    lines = ['(* %s *)' % header,
             'From Coq Require Import String List NArith.', 'Import ListNotations.',
             'Local Open Scope string_scope.', 'Local Open Scope N_scope.',
             'Definition %s : list (string * string * string * N) := [' % name]
    body = ['  ("%s", "%s", "%s", %d)' % (f, fn, k, n) for f, fn, k, n in inv]
    lines.append(';\n'.join(body))
    lines.append('].')
    return '\n'.join(lines) + '\n'


def main(repo, out, baseline=False):
    inv = inventory(repo)
    if baseline:
        text = render(inv, 'panic_baseline', 'REVIEWED baseline of explicit panic sites (tools/translate_panics.py --baseline on the reviewed tree); see notes/C01.md for the per-file justification')
    else:
        text = render(inv, 'panic_sites_src', 'GENERATED by tools/translate_panics.py from the current source — do not edit')
    old = open(out).read() if os.path.exists(out) else None
    if old != text:
        open(out, 'w').write(text)
    return inv


if __name__ == '__main__':
    args = [a for a in sys.argv[1:] if a != '--baseline']
    inv = main(args[0], args[1], '--baseline' in sys.argv)
    print(len(inv), 'entries,', sum(x[3] for x in inv), 'sites')
