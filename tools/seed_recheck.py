#!/usr/bin/env python3
"""seed_recheck.py <name> [<Cxx>...] — re-run our check(s) against an already confirmed seeded change
(/verif/seeded/<name>/patch.diff) in a fresh scratch copy, after a check was strengthened; appends the
outcome to seeded/<name>/meta.json under "rechecks"."""
import sys, os, json, subprocess, time

def sh(cmd, cwd=None, timeout=7200, env=None):
    e = dict(os.environ); e['CARGO_NET_OFFLINE'] = 'true'
    if env: e.update(env)
    try:
        p = subprocess.run(cmd, shell=True, cwd=cwd, stdout=subprocess.PIPE, stderr=subprocess.STDOUT, timeout=timeout, env=e, text=True, errors='replace')
        return p.returncode, p.stdout
    except subprocess.TimeoutExpired:
        return -9, ''

name = sys.argv[1]
dest = '/verif/seeded/' + name
meta = json.load(open(dest + '/meta.json'))
props = sys.argv[2:] or [meta['breaks_property']]
sname = 'recheck-' + name
sh('/verif/tools/scratch.sh rm ' + sname)
sh('/verif/tools/scratch.sh new ' + sname)
root = '/tmp/rsjv-' + sname
out = {}
try:
    rc, o = sh('git apply --whitespace=nowarn %s/patch.diff' % dest, cwd=root + '/repo')
    if rc != 0:
        rc, o = sh('git apply --3way --whitespace=nowarn %s/patch.diff' % dest, cwd=root + '/repo')
    if rc != 0:
        out = {'error': 'patch no longer applies: ' + o[-300:]}
    else:
        for c in props:
            t0 = time.time()
            rc, o = sh('%s/verif/check %s quick' % (root, c), timeout=3600, env={'VERIF_REPO': root + '/repo'})
            lines = [l for l in o.split('\n') if l.startswith('VIOLATION')]
            out[c] = {'rc': rc, 'caught': rc == 1 and bool(lines), 'wall_s': round(time.time() - t0), 'lines': lines[:3],
                      'detail': [l.strip() for l in o.split('\n') if l.startswith('  ')][:3]}
finally:
    sh('/verif/tools/scratch.sh rm ' + sname)
meta.setdefault('rechecks', []).append({'when': time.strftime('%Y-%m-%d %H:%M:%S'),
                                        'verif_head': sh('git -C /verif rev-parse --short HEAD')[1].strip(),
                                        'repo_head': sh('git -C /repo rev-parse --short HEAD')[1].strip(), 'result': out})
json.dump(meta, open(dest + '/meta.json', 'w'), indent=1)
print(json.dumps(out, indent=1)[:1500])
