#!/usr/bin/env python3
"""gen_c04_lazyfacts.py — (re)generate corpus/c04_lazyfacts.txt: laziness facts of the standard library.

Run BY HAND on the unchanged tree (never by the check):   python3 tools/gen_c04_lazyfacts.py

For every function found in the running `std` (names and arities discovered through
std.objectFieldsAll / std.length), canonical small calls are tried (arrays of length 0..3, nested
arrays, objects with 0..2 fields, unary/binary/key/predicate functions, scalars).  For every call that
succeeds, ONE part — a whole argument, an array element (also of a nested array), an object field value,
an added default parameter of a function argument, or the body of a function argument — is replaced by
`error "never"`, and the call is put under shallow observers (the bare call, std.length, std.type,
std.isArray, an element / field of the result, std.objectHas).  Every (call, part, observer) triple
that SUCCEEDS is a fact: "the result does not depend on this part, and the part is not evaluated".
One fact per line:   <function> TAB <program> TAB <manifested value>
The check (tools/props/c04.py) requires every fact to still succeed with the same value.
What a builtin MAY force is specified by the model of the property that owns it (e.g. std.sort: C17's
Sort.v, whose length <= 1 shortcut forces nothing); this file only pins the observed behaviour.
"""
import os, sys, json, random, itertools
sys.path.insert(0, os.path.dirname(os.path.abspath(__file__)))
import vlib
from vlib import hxl, uncps

NEVER = 'error "never"'
SKIP = {'extVar', 'native', 'thisFile', 'trace'}
MAX_PER_FUNCTION = 36
TRIES_PER_FUNCTION = 420

# structured canonical arguments
A = lambda *xs: ('arr', list(xs))
POOL = [
    A(), A('1'), A('2', '1'), A('3', '1', '2'), A(A('1'), A('2', '3')), A('"a"', '"b"'), A('"b"'), A(A(), A('1')),
    ('obj', []), ('obj', [('a', '1')]), ('obj', [('a', '1'), ('b', '2')]), ('obj', [('a', A('1')), ('b', ('obj', [('c', '1')]))]),
    ('fun', ['x'], 'x'), ('fun', ['x'], 'x > 1'), ('fun', ['a', 'b'], 'a + b'), ('fun', ['a', 'b'], 'b'), ('fun', ['x'], '[x]'),
    ('fun', ['x'], '-x'), ('fun', ['a', 'b'], 'a < b'),
    ('lit', '0'), ('lit', '1'), ('lit', '2'), ('lit', '"a"'), ('lit', '","'), ('lit', 'true'), ('lit', 'null'),
]


def show(a):
    if isinstance(a, str):
        return a
    k = a[0]
    if k == 'lit':
        return a[1]
    if k == 'arr':
        return '[' + ', '.join(show(x) for x in a[1]) + ']'
    if k == 'obj':
        return '{' + ', '.join('%s: %s' % (f, show(v)) for f, v in a[1]) + '}'
    if k == 'fun':
        return '(function(%s) %s)' % (', '.join(a[1]), a[2])
    raise ValueError(a)


def variants(a):
    """(description, structured arg with one part replaced by NEVER)"""
    out = [('arg', ('lit', NEVER))]
    if isinstance(a, str):
        return out
    k = a[0]
    if k == 'arr':
        for i, x in enumerate(a[1]):
            out.append(('elem%d' % i, ('arr', a[1][:i] + [NEVER] + a[1][i + 1:])))
            if not isinstance(x, str):
                for d, v in variants(x)[1:]:
                    out.append(('elem%d.%s' % (i, d), ('arr', a[1][:i] + [v] + a[1][i + 1:])))
    elif k == 'obj':
        for i, (f, v) in enumerate(a[1]):
            out.append(('field-' + f, ('obj', a[1][:i] + [(f, NEVER)] + a[1][i + 1:])))
            if not isinstance(v, str):
                for d, vv in variants(v)[1:]:
                    out.append(('field-%s.%s' % (f, d), ('obj', a[1][:i] + [(f, vv)] + a[1][i + 1:])))
    elif k == 'fun':
        out.append(('default', ('fun', a[1] + ['unused = ' + NEVER], a[2])))
        out.append(('body', ('fun', a[1], NEVER)))
    return out


MAX_FORMAT = 400


def format_candidates():
    """std.format / the % operator: every conversion x width form x precision form with an array argument
    (a `*` consumes an element), mappings with an object argument, and two-conversion strings; every
    argument position is probed with error "never" under the observers result / std.length(result)."""
    out = []
    val = {'d': '42', 'i': '42', 'u': '42', 'o': '8', 'x': '255', 'X': '255', 'e': '1.5', 'E': '1.5', 'f': '1.5', 'F': '1.5',
           'g': '1.5', 'G': '1.5', 'c': '"x"', 's': '"x"'}
    specs = []
    for conv in 'diuoxXeEfFgGcs%':
        for w in ('', '5', '*'):
            for pr in ('', '.2', '.*'):
                for fl in ('', '-', '0'):
                    if fl and (w == '' or conv == '%'):
                        continue
                    args = []
                    if w == '*':
                        args.append('6')
                    if pr == '.*':
                        args.append('3')
                    if conv != '%':
                        args.append(val[conv])
                    specs.append(('%' + fl + w + pr + conv, args))
    strings = [(f, a) for f, a in specs]
    # two conversions: the second one is %s / %d behind a first of every kind (positions shift with `*`)
    for f, a in specs[::7]:
        strings.append((f + '|%s', a + ['"t"']))
        strings.append(('%s|' + f, ['"t"'] + a))
    for f, a in strings:
        fmt = json.dumps(f)
        for i in range(len(a)):
            arr = '[' + ', '.join(NEVER if j == i else x for j, x in enumerate(a)) + ']'
            part = 'arg%d:fmt=%s' % (i, f)
            out.append(('mod', part, 'bare', '%s %% %s' % (fmt, arr)))
            out.append(('mod', part, 'length', 'std.length(%s %% %s)' % (fmt, arr)))
            out.append(('format', part, 'bare', 'std.format(%s, %s)' % (fmt, arr)))
            out.append(('format', part, 'length', 'std.length(std.format(%s, %s))' % (fmt, arr)))
        # one extra, unused trailing element (too many values is an error: recorded only if the tree accepts it)
        if len(a) == 1:
            out.append(('mod', 'single:fmt=' + f, 'bare', '%s %% %s' % (fmt, a[0])))
    # mappings with an object argument: unused keys, and each used key
    for conv in 'diuoxXeEfFgGcs':
        for w, pr in (('', ''), ('5', ''), ('', '.2'), ('7', '.1')):
            f = '%(a)' + w + pr + conv + '/%(b)s'
            fmt = json.dumps(f)
            fields = [('a', val[conv]), ('b', '"t"'), ('unused', '1'), ('zz', '[1]')]
            for i in range(len(fields)):
                obj = '{' + ', '.join('%s: %s' % (k, NEVER if j == i else v) for j, (k, v) in enumerate(fields)) + '}'
                part = 'field-%s:fmt=%s' % (fields[i][0], f)
                out.append(('mod', part, 'bare', '%s %% %s' % (fmt, obj)))
                out.append(('format', part, 'length', 'std.length(std.format(%s, %s))' % (fmt, obj)))
    # %s of composite values: is an element of a formatted array / object demanded?
    for inner in ('[1, %s]' % NEVER, '{a: 1, b: %s}' % NEVER, '[[%s]]' % NEVER):
        out.append(('mod', 'nested:%s', 'length', 'std.length("%%s" %% [%s])' % inner))
        out.append(('mod', 'nested:%5s', 'bare', '"%%5s" %% [%s]' % inner))
    return out


def run(exe, progs):
    cases = [('q%d' % i, 'eval', ['stack=400', hxl(list(p.encode('utf-8')))]) for i, p in enumerate(progs)]
    res = vlib.run_sharded(exe, [vlib.impl_line(c) for c in cases], timeout=300)
    out = []
    for i in range(len(progs)):
        f = res.get('q%d' % i, 'NOOUTPUT').split('\t')
        out.append(uncps(f[1]) if f[0] == 'OK' else None)
    return out


def main():
    rng = random.Random(20260923)
    exe = vlib.build_harness()
    names = json.loads(run(exe, ['std.objectFieldsAll(std)'])[0])
    info = run(exe, ['[std.type(std[%s]), if std.isFunction(std[%s]) then std.length(std[%s]) else 0]' % ((json.dumps(n),) * 3) for n in names])
    funcs = []
    for n, r in zip(names, info):
        if r is None or n in SKIP:
            continue
        t, ar = json.loads(r)
        if t == 'function' and 1 <= ar <= 4:
            funcs.append((n, ar))
    vlib.log('%d std functions of arity 1..4' % len(funcs))
    # 1. clean calls that succeed
    tries = []
    for n, ar in funcs:
        # all parameters positionally, and fewer arguments (trailing parameters left to their defaults, if any)
        for k in range(ar, max(0, ar - 3), -1):
            budget = TRIES_PER_FUNCTION if k == ar else TRIES_PER_FUNCTION // 3
            combos = list(itertools.product(range(len(POOL)), repeat=k)) if len(POOL) ** k <= budget else \
                [tuple(rng.randrange(len(POOL)) for _ in range(k)) for _ in range(budget)]
            rng.shuffle(combos)
            for c in combos[:budget]:
                tries.append((n, c))
    vals = run(exe, ['std.%s(%s)' % (n, ', '.join(show(POOL[i]) for i in c)) for n, c in tries])
    good = {}
    for (n, c), v in zip(tries, vals):
        if v is None:
            continue
        if not any(POOL[i][0] in ('arr', 'obj', 'fun') for i in c):
            continue
        good.setdefault(n, []).append((c, v))
    # keep a few diverse clean calls per function (by argument kinds and sizes)
    cand = []
    for n in sorted(good):
        seen = set()
        kept = 0
        for c, v in good[n]:
            sig = tuple((POOL[i][0], len(POOL[i][1]) if POOL[i][0] in ('arr', 'obj') else 0) for i in c)
            if sig in seen:
                continue
            seen.add(sig)
            kept += 1
            args = [POOL[i] for i in c]
            try:
                jv = json.loads(v)
            except ValueError:
                jv = None
            for ai, a in enumerate(args):
                for d, va in variants(a):
                    call = 'std.%s(%s)' % (n, ', '.join(show(va) if j == ai else show(x) for j, x in enumerate(args)))
                    obs = [('bare', call), ('length', 'std.length(%s)' % call) if isinstance(jv, (list, dict, str)) else None,
                           ('type', 'std.type(%s)' % call), ('isArray', 'std.isArray(%s)' % call)]
                    if isinstance(jv, list):
                        obs += [('item%d' % k, '%s[%d]' % (call, k)) for k in range(min(len(jv), 3))]
                    if isinstance(jv, dict):
                        for key in list(jv.keys())[:2]:
                            obs += [('has-' + key, 'std.objectHas(%s, %s)' % (call, json.dumps(key))), ('get-' + key, '%s[%s]' % (call, json.dumps(key)))]
                    for o in obs:
                        if o:
                            cand.append((n, 'arg%d:%s' % (ai, d), o[0], o[1]))
            if kept >= 10:
                break
    cand += format_candidates()
    vlib.log('%d candidate (call, part, observer) triples' % len(cand))
    vals = run(exe, [c[3] for c in cand])
    facts = {}
    for (n, part, ob, prog), v in zip(cand, vals):
        if v is not None:
            facts.setdefault(n, []).append((part, ob, prog, v))
    lines = []
    for n in sorted(facts):
        fs = facts[n]
        # prefer the most informative facts: round-robin over (part kind, observer)
        groups = {}
        for f in fs:
            groups.setdefault((f[0].split(':')[1].split('.')[0].rstrip('0123456789'), f[1].rstrip('0123456789')), []).append(f)
        order = []
        keys = sorted(groups)
        cap = MAX_FORMAT if n in ('format', 'mod') else MAX_PER_FUNCTION
        while len(order) < cap and any(groups[k] for k in keys):
            for k in keys:
                if groups[k] and len(order) < cap:
                    order.append(groups[k].pop(0))
        for part, ob, prog, v in order:
            lines.append('%s\t%s\t%s' % (n, prog, v))
    path = os.path.join(vlib.VERIF, 'corpus', 'c04_lazyfacts.txt')
    with open(path, 'w', encoding='utf-8') as f:
        f.write('# laziness facts of the standard library, generated by tools/gen_c04_lazyfacts.py from the unchanged tree;\n')
        f.write('# regenerate only by hand.  <function> TAB <program with one part = error "never"> TAB <value>\n')
        for l in lines:
            f.write(l + '\n')
    vlib.log('%d facts for %d functions -> %s' % (len(lines), len(facts), path))


if __name__ == '__main__':
    main()
