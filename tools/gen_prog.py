"""gen_prog.py — seeded generator of core-language Jsonnet programs (shared; C02 owns it).

API (keep it this small):

    from gen_prog import gen_program
    text, info = gen_program(rng, size=40, errors=False)

  rng     a random.Random (every choice goes through it: same rng state -> same program)
  size    rough budget of AST nodes (programs come out between ~size/3 and ~2*size nodes)
  errors  False: the program is built to evaluate without error (typed generation; a few
                 still fail, e.g. by overflow) — "dead" errors in unused locals, hidden
                 fields, unused arguments and untaken branches are planted on purpose;
          True : at least one deliberate run-time error is planted in a *live* position
                 (wrong operand type, bad arity / unknown / repeated named argument, index
                 out of range, unknown field, `error`, failed `assert` with message,
                 division by zero, non-boolean condition, super without super, ...).
  returns (text, info): the program text, and info = {'nodes': n, 'kinds': {construct: count},
          'planted': [names of planted live errors]}.

    from gen_prog import Gen, pp
    g = Gen(rng, size, errors); ast = g.program(); text = pp(ast, rng)   # the two stages

    from gen_prog import gen_reuse_program, gen_separator_program, SEPARATORS   # targeted scenario streams (see below)
    from gen_prog import gen_shadow_program, BINDERS                           # shadowing: inner binder kind x outer binder kind

  The AST is nested tuples ('kind', ...); `pp` prints it with random redundant parentheses,
  whitespace (spaces, tabs, LF, CRLF), comments (#, //, /* */) and all string literal forms
  ("..", '..', @"..", @'..', ||| blocks).  Binder names come from a 5-name pool and field
  names from a 4-name pool, so shadowing and inheritance collisions are the norm.

Only the core language plus these std functions are used: type length objectHas objectHasAll
objectFields objectFieldsAll map filter foldl foldr range join makeArray toString isNumber
isString trace mod equals primitiveEquals.
"""
import random

VARS = ['a', 'b', 'c', 'x', 'y']
FIELDS = ['f', 'g', 'h', 'k']
STRS = ['', 'a', 'b', 'ab', 'f', 'g', 'x y', 'é', '日本', '𝄞', 'q"t', "it's", 'b\\s', 'l1\nl2\n', '\t']

# types: 'num' 'str' 'bool' 'null' ('arr', elem) ('obj', {field: type}) ('fun', nparams, ret)
SIMPLE = ['num', 'str', 'bool']


def is_arr(t): return isinstance(t, tuple) and t[0] == 'arr'
def is_obj(t): return isinstance(t, tuple) and t[0] == 'obj'
def is_fun(t): return isinstance(t, tuple) and t[0] == 'fun'


class Ctx:
    """lexical context: variables with types; object context for self/super/$"""

    def __init__(self, vars=None, selfobj=None, superobj=None, rank=None, dollar=None, dollar_rank=None, in_fun=False):
        self.vars = dict(vars or {})
        self.selfobj = selfobj      # {field: type} of the object being defined (None outside objects)
        self.superobj = superobj    # {field: type} of the object below (None if none)
        self.rank = rank            # index in FIELDS of the field being defined (self.Y only for Y of lower rank)
        self.dollar = dollar        # fields of the outermost object
        self.dollar_rank = dollar_rank
        self.in_fun = in_fun

    def bind(self, name, ty):
        c = Ctx(self.vars, self.selfobj, self.superobj, self.rank, self.dollar, self.dollar_rank, self.in_fun)
        c.vars[name] = ty
        return c

    def fun(self):
        c = Ctx(self.vars, self.selfobj, self.superobj, self.rank, self.dollar, self.dollar_rank, True)
        return c


class Gen:
    def __init__(self, rng, size=40, errors=False):
        self.r = rng
        self.budget = size
        self.errors = errors
        self.kinds = {}
        self.planted = []
        self.nodes = 0
        self.live_err_p = 0.0

    # ------------------------------------------------------------------ helpers
    def k(self, name):
        self.kinds[name] = self.kinds.get(name, 0) + 1
        self.nodes += 1
        self.budget -= 1

    def small(self):
        return self.budget <= 0

    def pick_type(self, depth=0):
        r = self.r.random()
        if r < 0.35 or depth > 1:
            return self.r.choice(SIMPLE)
        if r < 0.45:
            return 'null'
        if r < 0.7:
            return ('arr', self.pick_type(depth + 1))
        return ('obj', self.obj_shape(depth + 1))

    def obj_shape(self, depth=0):
        n = self.r.choice([0, 1, 2, 2, 3])
        names = self.r.sample(FIELDS, n)
        return {f: self.pick_type(depth + 1) for f in sorted(names)}

    def vars_of(self, ctx, pred):
        return [v for v, t in ctx.vars.items() if pred(t)]

    # ------------------------------------------------------------------ literals
    def num_lit(self):
        r = self.r.random()
        if r < 0.75:
            return ('num', str(self.r.randint(0, 9)))
        if r < 0.85:
            return ('num', self.r.choice(['10', '100', '255', '1e3', '2.0', '1.0e1', '0e5', '12.0E-1'.replace('12.0E-1', '20e-1')]))
        if r < 0.93:
            return ('num', self.r.choice(['0.5', '1.5', '2.25', '1e-3']))
        return ('num', self.r.choice(['9007199254740991', '4294967296', '2147483647', '1e15']))

    def str_lit(self):
        return ('str', self.r.choice(STRS))

    # ------------------------------------------------------------------ planted errors (live)
    def live_error(self, ctx, want):
        """an expression that fails when evaluated"""
        self.k('live_error')
        c = self.r.randrange(16)
        msg = ('str', self.r.choice(['boom', 'é!', 'x y', '']))
        if c == 0:
            self.planted.append('error'); return ('error', msg)
        if c == 1:
            self.planted.append('error_nonstring')
            return ('error', self.r.choice([('num', '42'), ('arr', [('num', '1'), ('str', 'a')]), ('obj', [('field', 'id', 'f', False, ':', None, ('null',))]), ('bool', True)]))
        if c == 2:
            self.planted.append('assert_msg'); return ('assert', ('bool', False), msg, self.gen(ctx, want, 3))
        if c == 3:
            self.planted.append('assert_nomsg'); return ('assert', ('bin', '==', ('num', '1'), ('num', '2')), None, self.gen(ctx, want, 3))
        if c == 4:
            self.planted.append('binop_types')
            return ('bin', self.r.choice(['-', '*', '/', '<', '&', '<<', '&&', '||', '%']), ('num', '1'), self.r.choice([('null',), ('bool', True), ('arr', []), ('obj', [])]))
        if c == 5:
            self.planted.append('index_range'); return ('index', ('arr', [('num', '1'), ('num', '2')]), ('num', self.r.choice(['2', '5', '1.5', '1e30'])))
        if c == 6:
            self.planted.append('index_negative'); return ('index', self.r.choice([('arr', [('num', '1')]), ('str', 'abc')]), ('un', '-', ('num', '1')))
        if c == 7:
            self.planted.append('unknown_field'); return ('field', ('obj', [('field', 'id', 'f', False, ':', None, ('num', '1'))]), 'zz')
        if c == 8:
            self.planted.append('div_zero'); return ('bin', self.r.choice(['/', '%']), ('num', '1'), ('num', self.r.choice(['0', '0.0'])))
        if c == 9:
            self.planted.append('cond_not_bool'); return ('if', self.r.choice([('num', '1'), ('null',), ('str', 'a')]), self.gen(ctx, want, 3), self.gen(ctx, want, 3))
        if c == 10:
            self.planted.append('call_arity')
            f = ('func', [('a', None), ('b', ('num', '1'))], ('var', 'a'))
            bad = self.r.choice([([], []), ([('num', '1'), ('num', '2'), ('num', '3')], []), ([('num', '1')], [('a', ('num', '2'))]),
                                 ([], [('zz', ('num', '1'))]), ([], [('b', ('num', '1'))]), ([], [('a', ('num', '1')), ('a', ('num', '2'))])])
            return ('call', f, bad[0], bad[1], False)
        if c == 11:
            self.planted.append('not_function'); return ('call', self.r.choice([('num', '1'), ('obj', []), ('str', 'f')]), [('num', '1')], [], False)
        if c == 12:
            self.planted.append('field_of_nonobject'); return ('field', self.r.choice([('paren', ('num', '1')), ('str', 'a'), ('arr', [])]), 'f')
        if c == 13:
            self.planted.append('overflow'); return ('bin', '*', ('num', '1e308'), ('num', '10'))
        if c == 14:
            self.planted.append('compare_types'); return ('bin', '<', self.r.choice([('num', '1'), ('null',), ('obj', [])]), self.r.choice([('str', 'a'), ('null',), ('obj', [])]))
        self.planted.append('std_argtype')
        return self.r.choice([('call', ('std', 'length'), [('num', '1')], [], False),
                              ('call', ('std', 'map'), [('num', '1'), ('arr', [])], [], False),
                              ('call', ('std', 'filter'), [('func', [('x', None)], ('num', '1')), ('arr', [('num', '1')])], [], False),
                              ('call', ('std', 'join'), [('str', ','), ('arr', [('num', '1')])], [], False),
                              ('call', ('std', 'objectHas'), [('arr', []), ('str', 'f')], [], False),
                              ('call', ('std', 'range'), [('num', '0.5'), ('num', '3')], [], False),
                              ('call', ('std', 'makeArray'), [('un', '-', ('num', '1')), ('func', [('i', None)], ('var', 'i'))], [], False),
                              ('slice', ('arr', [('num', '1')]), ('str', 'a'), None, None),
                              ('slice', ('num', '1'), ('num', '0'), None, None),
                              ('slice', ('arr', [('num', '1')]), None, None, ('num', '0'))])

    def dead_error(self):
        return self.r.choice([('error', ('str', 'dead')), ('bin', '/', ('num', '1'), ('num', '0')),
                              ('index', ('arr', []), ('num', '0')), ('assert', ('bool', False), None, ('null',)),
                              ('bin', '+', ('num', '1'), ('null',))])

    # ------------------------------------------------------------------ expressions by type
    def gen(self, ctx, ty, depth):
        """expression of type ty (ty may be 'any')"""
        if ty == 'any':
            ty = self.pick_type()
        if self.errors and self.live_err_p > 0 and self.r.random() < self.live_err_p:
            self.live_err_p *= 0.3
            return self.live_error(ctx, ty)
        if depth > 7 or self.small():
            return self.leaf(ctx, ty)
        # wrappers valid at any type
        r = self.r.random()
        if r < 0.10:
            return self.gen_local(ctx, ty, depth)
        if r < 0.17:
            self.k('if')
            c = self.gen(ctx, 'bool', depth + 2)
            if ty == 'null' and self.r.random() < 0.5:
                return ('if', ('bin', '&&', c, ('bool', False)), self.dead_error(), None)
            return ('if', c, self.gen(ctx, ty, depth + 1), self.gen(ctx, ty, depth + 1))
        if r < 0.22:
            return self.gen_call(ctx, ty, depth)
        if r < 0.25:
            self.k('assert')
            return ('assert', self.true_cond(ctx, depth + 2), self.r.choice([None, ('str', 'm'), self.dead_error()]), self.gen(ctx, ty, depth + 1))
        if r < 0.29:
            return self.from_container(ctx, ty, depth)
        if r < 0.31 and ctx.in_fun is not None:
            self.k('trace')
            return ('call', ('std', 'trace'), [('str', self.r.choice(['t1', 't2', 'é'])), self.gen(ctx, ty, depth + 1)], [], False)
        return self.by_type(ctx, ty, depth)

    def leaf(self, ctx, ty):
        self.k('leaf')
        vs = self.vars_of(ctx, lambda t: t == ty)
        if vs and self.r.random() < 0.6:
            return ('var', self.r.choice(vs))
        ref = self.self_ref(ctx, ty)
        if ref is not None and self.r.random() < 0.5:
            return ref
        if ty == 'num':
            return self.num_lit()
        if ty == 'str':
            return self.str_lit()
        if ty == 'bool':
            return ('bool', self.r.random() < 0.5)
        if ty == 'null':
            return ('null',)
        if is_arr(ty):
            return ('arr', [self.leaf(ctx, ty[1]) for _ in range(self.r.choice([0, 1, 2, 3]))])
        if is_obj(ty):
            return ('obj', [('field', 'id', f, False, ':', None, self.leaf(ctx, t)) for f, t in ty[1].items()])
        if is_fun(ty):
            ps = VARS[:ty[1]]
            return ('func', [(p, None) for p in ps], self.leaf(ctx, ty[2]))
        return ('null',)

    def self_ref(self, ctx, ty):
        """self.f / super.f / $.f of the wanted type, respecting the acyclicity discipline"""
        cands = []
        if ctx.selfobj is not None and ctx.rank is not None:
            for f, t in ctx.selfobj.items():
                if t == ty and FIELDS.index(f) < ctx.rank:
                    cands.append(('field', ('self',), f))
                    cands.append(('index', ('self',), ('str', f)))
        if ctx.superobj is not None and ctx.rank is not None:
            for f, t in ctx.superobj.items():
                if t == ty and FIELDS.index(f) <= ctx.rank:
                    cands.append(('superf', f))
                    cands.append(('superi', ('str', f)))
        if ctx.dollar is not None and ctx.dollar_rank is not None:
            for f, t in ctx.dollar.items():
                if t == ty and FIELDS.index(f) < ctx.dollar_rank:
                    cands.append(('field', ('dollar',), f))
        if not cands:
            return None
        self.k('self_super_dollar')
        return self.r.choice(cands)

    def true_cond(self, ctx, depth):
        r = self.r.random()
        if r < 0.4:
            return ('bool', True)
        if r < 0.7:
            e = self.gen(ctx, 'num', depth + 2)
            return ('call', ('std', 'isNumber'), [e], [], False)
        return ('bin', '||', self.gen(ctx, 'bool', depth + 2), ('bool', True))

    def gen_local(self, ctx, ty, depth):
        self.k('local')
        binds = []
        n = self.r.choice([1, 1, 2, 3])
        names = self.r.sample(VARS, n)
        # values are typed in the outer context plus the earlier binds (no forward references, so no cycles);
        # a dead bind (never forced) shadows the outer variable of that name, so the name is hidden afterwards
        cur = Ctx(ctx.vars, ctx.selfobj, ctx.superobj, ctx.rank, ctx.dollar, ctx.dollar_rank, ctx.in_fun)
        for nm in names:
            cur.vars.pop(nm, None)      # every bound name shadows the outer one from the start (recursive scope)
        for nm in names:
            r = self.r.random()
            if r < 0.12:
                binds.append((nm, None, self.dead_error()))
                cur.vars.pop(nm, None)
                self.k('dead_local')
            elif r < 0.4:
                fty = self.fun_type()
                ps = self.params_for(cur, fty, depth)
                body = self.gen_fun_body(cur, fty, ps, depth + 1)
                binds.append((nm, ps, body))
                cur = cur.bind(nm, fty)
            else:
                t = self.pick_type()
                binds.append((nm, None, self.gen(cur, t, depth + 1)))
                cur = cur.bind(nm, t)
        return ('local', binds, self.gen(cur, ty, depth + 1))

    def fun_type(self):
        n = self.r.choice([0, 1, 1, 2, 2, 3])
        return ('fun', n, self.r.choice(SIMPLE + [('arr', 'num')]))

    def params_for(self, ctx, fty, depth):
        """parameter list [(name, default or None)] — defaults may mention earlier and later parameters"""
        names = self.r.sample(VARS, fty[1])
        ps = []
        for i, nm in enumerate(names):
            d = None
            if self.r.random() < 0.35:
                c = ctx
                for other in names[:i]:
                    c = c.bind(other, 'num')
                d = self.gen(c, 'num', depth + 3)
            ps.append((nm, d))
        return ps

    def gen_fun_body(self, ctx, fty, ps, depth):
        c = ctx.fun()
        # every parameter is a number (calls pass numbers); body of the declared return type
        for nm, _ in ps:
            c = c.bind(nm, 'num')
        self.k('function')
        return self.gen(c, fty[2], depth + 1)

    def gen_call(self, ctx, ty, depth):
        """call of a known function variable returning ty, else an immediately applied literal"""
        fs = self.vars_of(ctx, lambda t: is_fun(t) and t[2] == ty)
        self.k('call')
        if fs and self.r.random() < 0.8:
            f = self.r.choice(fs)
            return self.call_with(ctx, ('var', f), ctx.vars[f][1], None, depth)
        fty = ('fun', self.r.choice([0, 1, 2]), ty)
        ps = self.params_for(ctx, fty, depth)
        body = self.gen_fun_body(ctx, fty, ps, depth + 1)
        return self.call_with(ctx, ('func', ps, body), fty[1], ps, depth)

    def call_with(self, ctx, fexpr, nparams, ps, depth):
        """arguments: numbers; when the parameter list is known use named / defaulted forms"""
        ts = self.r.random() < 0.12
        if ps is None:
            pos = [self.gen(ctx, 'num', depth + 2) for _ in range(nparams)]
            return ('call', fexpr, pos, [], ts)
        npos = self.r.randint(0, len(ps))
        pos = [self.gen(ctx, 'num', depth + 2) for _ in range(npos)]
        named = []
        for nm, d in ps[npos:]:
            if d is None or self.r.random() < 0.4:
                named.append((nm, self.gen(ctx, 'num', depth + 2)))
        self.r.shuffle(named)
        if named:
            self.k('named_args')
        return ('call', fexpr, pos, named, ts)

    def from_container(self, ctx, ty, depth):
        """ty obtained by indexing an array literal / selecting an object field / self"""
        r = self.r.random()
        ref = self.self_ref(ctx, ty)
        if ref is not None and r < 0.5:
            return ref
        if r < 0.75:
            self.k('index')
            n = self.r.randint(1, 3)
            items = [self.gen(ctx, ty, depth + 2) for _ in range(n)]
            i = self.r.randrange(n)
            for j in range(n):
                if j != i and self.r.random() < 0.3:
                    items[j] = self.dead_error(); self.k('dead_item')
            return ('index', ('arr', items), ('num', str(i)))
        self.k('field')
        shape = self.obj_shape()
        f = self.r.choice(FIELDS)
        shape[f] = ty
        o = self.gen_obj(ctx, shape, depth + 1, top=ctx.selfobj is None)
        return self.r.choice([('field', o, f), ('index', o, ('str', f))])

    def by_type(self, ctx, ty, depth):
        r = self.r.random()
        d = depth + 1
        if ty == 'num':
            self.k('num_op')
            if r < 0.45:
                op = self.r.choice(['+', '-', '*', '+', '-'])
                return ('bin', op, self.gen(ctx, 'num', d), self.gen(ctx, 'num', d))
            if r < 0.55:
                return ('bin', self.r.choice(['/', '%']), self.gen(ctx, 'num', d), ('num', self.r.choice(['1', '2', '3', '0.5', '7'])))
            if r < 0.65:
                return ('bin', self.r.choice(['&', '|', '^']), self.gen(ctx, 'num', d), self.gen(ctx, 'num', d))
            if r < 0.70:
                return ('bin', self.r.choice(['<<', '>>']), self.gen(ctx, 'num', d), ('num', self.r.choice(['0', '1', '3', '65'])))
            if r < 0.78:
                return ('un', self.r.choice(['-', '+', '~', '-']), self.gen(ctx, 'num', d))
            if r < 0.90:
                t = self.r.choice(['str', ('arr', 'num'), ('obj', self.obj_shape())])
                return ('call', ('std', 'length'), [self.gen(ctx, t, d)], [], False)
            if r < 0.95:
                arr = self.gen(ctx, ('arr', 'num'), d)
                f = ('func', [('a', None), ('b', None)], ('bin', '+', ('var', 'a'), ('var', 'b')))
                fn = self.r.choice(['foldl', 'foldr'])
                return ('call', ('std', fn), [f, arr, self.num_lit()], [], False)
            return ('call', ('std', 'mod'), [self.gen(ctx, 'num', d), ('num', self.r.choice(['2', '3']))], [], False)
        if ty == 'str':
            self.k('str_op')
            if r < 0.35:
                return ('bin', '+', self.gen(ctx, 'str', d), self.gen(ctx, 'str', d))
            if r < 0.55:
                other = self.gen(ctx, self.r.choice(['num', 'bool', 'null', ('arr', 'num'), ('obj', self.obj_shape()), ('arr', 'str')]), d)
                s = self.gen(ctx, 'str', d)
                return ('bin', '+', s, other) if self.r.random() < 0.5 else ('bin', '+', other, s)
            if r < 0.65:
                return ('call', ('std', 'type'), [self.gen(ctx, 'any', d)], [], False)
            if r < 0.72:
                return ('call', ('std', 'toString'), [self.gen(ctx, self.r.choice(['num', 'str', 'bool', ('arr', 'str')]), d)], [], False)
            if r < 0.82:
                return ('call', ('std', 'join'), [self.str_lit(), self.gen(ctx, ('arr', 'str'), d)], [], False)
            if r < 0.92:
                s = ('str', self.r.choice(['hello', 'héllo wörld', 'abc', '日本語テキスト']))
                return ('slice', s, self.opt_idx(), self.opt_idx(), self.r.choice([None, None, ('num', '1'), ('num', '2')]))
            return ('index', ('str', self.r.choice(['abc', 'éa𝄞'])), ('num', self.r.choice(['0', '1', '2'])))
        if ty == 'bool':
            self.k('bool_op')
            if r < 0.2:
                return ('bin', self.r.choice(['<', '<=', '>', '>=']), self.gen(ctx, 'num', d), self.gen(ctx, 'num', d))
            if r < 0.3:
                t = self.r.choice(['str', ('arr', 'num'), ('arr', 'str')])
                return ('bin', self.r.choice(['<', '<=', '>', '>=']), self.gen(ctx, t, d), self.gen(ctx, t, d))
            if r < 0.55:
                t = self.pick_type()
                t2 = t if self.r.random() < 0.8 else self.pick_type()
                return ('bin', self.r.choice(['==', '!=']), self.gen(ctx, t, d), self.gen(ctx, t2, d))
            if r < 0.7:
                op = self.r.choice(['&&', '||'])
                l = self.gen(ctx, 'bool', d)
                if self.r.random() < 0.25:
                    # short circuit hides the right operand
                    self.k('short_circuit')
                    return ('bin', op, ('bool', op == '||'), self.dead_error())
                return ('bin', op, l, self.gen(ctx, 'bool', d))
            if r < 0.78:
                return ('un', '!', self.gen(ctx, 'bool', d))
            if ctx.selfobj is not None and r < 0.84:
                self.k('in_super')
                return ('insuper', ('str', self.r.choice(FIELDS)))
            if r < 0.9:
                o = self.gen(ctx, ('obj', self.obj_shape()), d)
                nm = ('str', self.r.choice(FIELDS))
                c = self.r.random()
                if c < 0.4:
                    return ('bin', 'in', nm, o)
                if c < 0.7:
                    return ('call', ('std', self.r.choice(['objectHas', 'objectHasAll'])), [o, nm], [], False)
                if ctx.selfobj is not None:
                    self.k('in_super')
                    return ('insuper', nm)
                return ('bin', 'in', nm, o)
            return ('call', ('std', self.r.choice(['isNumber', 'isString'])), [self.gen(ctx, 'any', d)], [], False)
        if ty == 'null':
            return ('null',)
        if is_arr(ty):
            self.k('arr_op')
            et = ty[1]
            if r < 0.3:
                return ('arr', [self.gen(ctx, et, d) for _ in range(self.r.choice([0, 1, 2, 2, 3]))])
            if r < 0.5:
                return self.gen_arrcomp(ctx, et, d)
            if r < 0.62:
                return ('bin', '+', self.gen(ctx, ty, d), self.gen(ctx, ty, d))
            if r < 0.72:
                return ('slice', self.gen(ctx, ty, d), self.opt_idx(), self.opt_idx(), self.r.choice([None, None, ('num', '2')]))
            if r < 0.82 and et == 'num':
                c = self.r.random()
                if c < 0.35:
                    return ('call', ('std', 'range'), [('num', self.r.choice(['0', '1', '3'])), ('num', self.r.choice(['0', '2', '4']))], [], False)
                if c < 0.7:
                    body = self.gen(ctx.fun().bind('x', 'num'), 'num', d + 1)
                    return ('call', ('std', 'map'), [('func', [('x', None)], body), self.gen(ctx, ty, d)], [], False)
                body = self.gen(ctx.fun().bind('y', 'num'), 'num', d + 1)
                return ('call', ('std', 'makeArray'), [('num', self.r.choice(['0', '1', '3'])), ('func', [('y', None)], body)], [], False)
            if r < 0.9 and et == 'num':
                body = self.gen(ctx.fun().bind('x', 'num'), 'bool', d + 1)
                return ('call', ('std', 'filter'), [('func', [('x', None)], body), self.gen(ctx, ty, d)], [], False)
            if r < 0.95 and et == 'str':
                o = self.gen(ctx, ('obj', self.obj_shape()), d)
                return ('call', ('std', self.r.choice(['objectFields', 'objectFieldsAll'])), [o], [], False)
            return ('arr', [self.gen(ctx, et, d) for _ in range(self.r.choice([1, 2]))])
        if is_obj(ty):
            return self.gen_obj_expr(ctx, ty[1], d)
        if is_fun(ty):
            ps = self.params_for(ctx, ty, depth)
            return ('func', ps, self.gen_fun_body(ctx, ty, ps, d))
        return ('null',)

    def opt_idx(self):
        return self.r.choice([None, None, ('num', '0'), ('num', '1'), ('num', '2'), ('num', '10'), ('un', '-', ('num', '1')), ('un', '-', ('num', '2'))])

    def gen_arrcomp(self, ctx, et, depth):
        self.k('arrcomp')
        specs = []
        c = ctx
        n = self.r.choice([1, 1, 2, 2, 3])
        names = [self.r.choice(VARS) for _ in range(n)]
        for i, nm in enumerate(names):
            if i > 0 and self.r.random() < 0.35:
                # a later clause rebinds an earlier clause's variable, and its source depends on the earlier value
                prev = names[self.r.randrange(i)]
                nm = prev if self.r.random() < 0.7 else nm
                names[i] = nm
                src = self.r.choice([('arr', [('bin', '*', ('var', prev), ('num', '10'))]),
                                     ('arr', [('var', prev), ('bin', '+', ('var', prev), ('num', '1'))]),
                                     ('call', ('std', 'range'), [('var', prev), ('bin', '+', ('var', prev), ('num', '1'))], [], False)])
                self.k('comp_rebinds_earlier_clause' if nm == prev else 'comp_source_uses_earlier_clause')
            else:
                src = self.gen(c, ('arr', 'num'), depth + 2)
            specs.append(('for', nm, src))
            c = c.bind(nm, 'num')
            if self.r.random() < 0.4:
                specs.append(('ifspec', self.gen(c, 'bool', depth + 2)))
        return ('arrcomp', self.gen(c, et, depth + 1), specs)

    # ------------------------------------------------------------------ objects
    def gen_obj_expr(self, ctx, shape, depth):
        r = self.r.random()
        top = ctx.selfobj is None
        if r < 0.45 or self.small():
            return self.gen_obj(ctx, shape, depth, top)
        if r < 0.85:
            # inheritance: base + extension (or base { ... }); the result has exactly `shape`
            self.k('inherit')
            names = list(shape)
            base_names = [f for f in names if self.r.random() < 0.7]
            base_shape = {f: shape[f] for f in base_names}
            extra = [f for f in FIELDS if f not in shape and self.r.random() < 0.3]
            # fields only in the base must be hidden there or they would show up in the result
            hidden_extra = {f: self.r.choice(SIMPLE) for f in extra}
            base = self.gen_obj(ctx, dict(base_shape, **hidden_extra), depth + 1, top, force_hidden=set(extra))
            ext_names = [f for f in names if f not in base_names or self.r.random() < 0.6]
            ext_shape = {f: shape[f] for f in ext_names}
            sup = dict(base_shape, **hidden_extra)
            ext = self.gen_obj(ctx, ext_shape, depth + 1, top, superobj=sup, whole=dict(sup, **ext_shape))
            if self.r.random() < 0.3 and base[0] != 'obj':
                return ('bin', '+', base, ext)
            if self.r.random() < 0.4:
                return ('objext', base, ext[1])
            # three layers sometimes
            if self.r.random() < 0.3:
                ext2 = self.gen_obj(ctx, {f: shape[f] for f in names if self.r.random() < 0.4}, depth + 2, top, superobj=dict(sup, **ext_shape), whole=dict(sup, **ext_shape))
                if self.r.random() < 0.5:
                    return ('bin', '+', ('bin', '+', base, ext), ext2)
                return ('bin', '+', base, ('bin', '+', ext, ext2))
            return ('bin', '+', base, ext)
        if shape and len(set(map(repr, shape.values()))) == 1:
            # object comprehension: all fields of one type
            self.k('objcomp')
            ft = list(shape.values())[0]
            keys = ('arr', [('str', f) for f in shape])
            var = self.r.choice(VARS)
            c2 = Ctx(ctx.vars, {}, None, None, ctx.dollar if not top else {}, ctx.dollar_rank if not top else None, ctx.in_fun).bind(var, 'str')
            specs = [('for', var, keys)]
            if self.r.random() < 0.3:
                specs.append(('ifspec', ('bool', True)))
            name = ('var', var) if self.r.random() < 0.7 else ('bin', '+', ('var', var), ('str', ''))
            plus = (ft in ('num', 'str') or is_arr(ft)) and self.r.random() < 0.3
            if plus:
                self.k('objcomp_plus')
            return ('objcomp', [], name, plus, self.gen(c2, ft, depth + 2), specs)
        return self.gen_obj(ctx, shape, depth, top)

    def gen_obj(self, ctx, shape, depth, top, superobj=None, whole=None, force_hidden=()):
        """object literal whose visible+hidden fields are exactly `shape` (hidden ones chosen here)"""
        self.k('object')
        whole = whole if whole is not None else shape
        members = []
        vars_ = dict(ctx.vars)
        # object locals (visible in every field; they do not use self, except through rank-0-safe refs)
        nloc = self.r.choice([0, 0, 1, 2])
        base_ctx = Ctx(vars_, whole, superobj, None, whole if top else ctx.dollar, None, ctx.in_fun)
        for nm in self.r.sample(VARS, nloc):
            t = self.r.choice(SIMPLE)
            if self.r.random() < 0.2:
                members.append(('local', nm, None, self.dead_error()))
                vars_.pop(nm, None)
                continue
            members.append(('local', nm, None, self.gen(Ctx(vars_, None, None, None, None, None, ctx.in_fun), t, depth + 2)))
            vars_[nm] = t
            self.k('object_local')
        if self.r.random() < 0.15:
            # object local in function sugar, used by nobody or by a method field
            fty = self.fun_type()
            lctx = Ctx(vars_, None, None, None, None, None, ctx.in_fun)
            ps = self.params_for(lctx, fty, depth)
            used_l = [m[1] for m in members if m[0] == 'local']
            cand = [v for v in VARS if v not in used_l]
            lname = self.r.choice(cand) if cand else None
            if lname is not None:
                members.append(('local', lname, ps, self.gen_fun_body(lctx, fty, ps, depth + 2)))
                vars_[lname] = fty
                self.k('object_local_function')
        if self.r.random() < 0.12:
            free = [f for f in FIELDS if f not in whole]
            if free:
                fty = self.fun_type()
                lctx = Ctx(vars_, None, None, None, None, None, ctx.in_fun)
                ps = self.params_for(lctx, fty, depth)
                mname = self.r.choice(free)
                members.append(('field', self.r.choice(['id', 'str']), mname, False, '::', ps, self.gen_fun_body(lctx, fty, ps, depth + 2)))
                whole = dict(whole)
                whole[mname] = fty          # the name is taken (nobody reads it: its type is a function type)
                self.k('method_field')
        order = list(shape)
        self.r.shuffle(order)
        for f in order:
            t = shape[f]
            rank = FIELDS.index(f) if f in FIELDS else 0
            fctx = Ctx(vars_, whole, superobj, rank, whole if top else ctx.dollar, rank if top else ctx.dollar_rank, ctx.in_fun)
            plus = False
            if superobj is not None and f in superobj and superobj[f] == t and (t in ('num', 'str') or is_arr(t) or is_obj(t)) and self.r.random() < 0.45:
                plus = True
                self.k('field_plus')
            elif superobj is None and self.r.random() < 0.06 and (t in ('num', 'str') or is_arr(t)):
                plus = True       # +: without a super field is just the field
            vis = ':'
            if f in force_hidden:
                vis = '::'
            else:
                rv = self.r.random()
                if rv < 0.2:
                    vis = ':::'
                elif rv < 0.32:
                    vis = '::'
            self.k('sep_' + ('+' if plus else '') + vis)
            if is_obj(t):
                # nested object: self is the inner object there; $ stays the outermost one
                val = self.gen_nested(fctx, t, depth + 2)
            else:
                val = self.gen(fctx, t, depth + 2)
            nk = self.r.random()
            if nk < 0.6:
                members.append(('field', 'id', f, plus, vis, None, val))
            elif nk < 0.8:
                members.append(('field', 'str', f, plus, vis, None, val))
            else:
                self.k('computed_name')
                nctx = Ctx(ctx.vars, ctx.selfobj, ctx.superobj, None, ctx.dollar, None, ctx.in_fun)
                ne = ('str', f) if self.r.random() < 0.5 else ('bin', '+', ('str', f[:1]), ('str', f[1:]))
                members.append(('field', 'expr', ne, plus, vis, None, val))
        # hidden extras with dead errors, null-named computed fields, asserts
        if self.r.random() < 0.15:
            free = [f for f in FIELDS if f not in whole]
            if free:
                members.append(('field', 'id', self.r.choice(free), False, '::', None, self.dead_error()))
                self.k('dead_hidden_field')
        if self.r.random() < 0.08:
            members.append(('field', 'expr', ('null',), False, ':', None, self.dead_error()))
            self.k('null_name')
        if self.r.random() < 0.2:
            actx = Ctx(vars_, whole, superobj, len(FIELDS), whole if top else ctx.dollar, None, ctx.in_fun)
            members.append(('assert', self.true_cond(actx, depth + 2), self.r.choice([None, ('str', 'am')])))
            self.k('object_assert')
        if self.errors and self.live_err_p > 0 and self.r.random() < 0.15:
            members.append(('assert', ('bin', '==', ('num', '1'), ('num', '2')), self.r.choice([None, ('str', 'obj assert'), ('num', '7')])))
            self.planted.append('object_assert'); self.live_err_p *= 0.3
        self.r.shuffle(members)
        return ('obj', members)

    def gen_nested(self, ictx, t, depth):
        """a nested object value: inside it, self/super refer to the inner object"""
        inner = Ctx(ictx.vars, None, None, None, ictx.dollar, ictx.dollar_rank, ictx.in_fun)
        inner.selfobj = {}     # mark "inside an object" (so the nested literal is not treated as outermost)
        return self.gen_obj_expr(inner, t[1], depth)

    # ------------------------------------------------------------------ whole program
    def program(self):
        ctx = Ctx()
        ty = self.pick_type()
        if self.r.random() < 0.5:
            ty = ('obj', self.obj_shape())
        if self.errors:
            self.live_err_p = 0.08
        e = self.gen(ctx, ty, 0)
        if self.errors and not self.planted:
            # make sure something fails: wrap the result
            self.live_err_p = 1.0
            bad = self.live_error(ctx, 'num')
            e = self.r.choice([('arr', [e, bad]), ('local', [('a', None, bad)], ('arr', [('var', 'a'), e])),
                               ('obj', [('field', 'id', 'f', False, ':', None, e), ('field', 'id', 'g', False, ':', None, bad)])])
        return e


# ---------------------------------------------------------------------- printing

PREC = {'*': 13, '/': 13, '%': 13, '+': 12, '-': 12, '<<': 11, '>>': 11, '<': 10, '>': 10, '<=': 10, '>=': 10, 'in': 10,
        '==': 9, '!=': 9, '&': 8, '^': 7, '|': 6, '&&': 5, '||': 4}


class Printer:
    def __init__(self, rng, plain=False):
        self.r = rng
        self.plain = plain

    def ws(self, must=False):
        """separator between tokens"""
        if self.plain:
            return ' ' if must else ''
        r = self.r.random()
        if r < 0.55:
            return ' '
        if r < 0.65:
            return '' if not must else ' '
        if r < 0.72:
            return '\n'
        if r < 0.76:
            return '\r\n'
        if r < 0.80:
            return '\t'
        if r < 0.84:
            return '  '
        if r < 0.89:
            return ' /* c */ '
        if r < 0.92:
            return ' /* m\n * l */'
        if r < 0.96:
            return ' // c\n'
        return ' # c\r\n'

    def string(self, s):
        forms = ['dq', 'sq']
        if not self.plain:
            if '"' not in s or "'" not in s:
                forms += ['vdq', 'vsq']
            if s.endswith('\n') and s != '\n' and not s.startswith((' ', '\t', '\n')) and '\r' not in s and '\n\n' not in s:
                forms += ['block', 'block']
            if all(ord(c) < 0x10000 for c in s):
                forms.append('uni')
        f = self.r.choice(forms)
        if f == 'block':
            ind = self.r.choice(['  ', '\t', ' '])
            body = ''.join(ind + l + '\n' for l in s[:-1].split('\n'))
            return '|||\n' + body + ('' if len(ind) == 1 else self.r.choice(['', ' '])) + '|||'
        if f == 'vdq':
            return '@"' + s.replace('"', '""') + '"'
        if f == 'vsq':
            return "@'" + s.replace("'", "''") + "'"
        q = '"' if f in ('dq', 'uni') else "'"
        out = []
        for ch in s:
            if ch == q or ch == '\\':
                out.append('\\' + ch)
            elif ch == '\n':
                out.append('\\n')
            elif ch == '\t':
                out.append('\\t')
            elif ch == '\r':
                out.append('\\r')
            elif f == 'uni' and (ord(ch) > 126 or self.r.random() < 0.1):
                out.append('\\u%04x' % ord(ch))
            elif ch == '/' and self.r.random() < 0.3:
                out.append('\\/')
            else:
                out.append(ch)
        return q + ''.join(out) + q

    @staticmethod
    def sp(s):
        """keep two operator tokens apart"""
        return ' ' + s if s[:1] in '-+!~' else s

    def paren(self, s):
        return '(' + self.ws() + s + self.ws() + ')'

    def maybe(self, s, p=0.08):
        if not self.plain and self.r.random() < p:
            return self.paren(s)
        return s

    def params(self, ps):
        parts = []
        for nm, d in ps:
            parts.append(nm if d is None else nm + self.ws() + '=' + self.ws() + self.sp(self.e(d, 0)))
        tail = ',' if parts and not self.plain and self.r.random() < 0.15 else ''
        return '(' + (',' + self.ws()).join(parts) + tail + ')'

    def bind(self, b):
        nm, ps, e = b
        return nm + (self.params(ps) if ps is not None else '') + self.ws() + '=' + self.ws() + self.sp(self.e(e, 0))

    def members(self, ms):
        parts = []
        for m in ms:
            if m[0] == 'local':
                parts.append('local ' + self.bind((m[1], m[2], m[3])))
            elif m[0] == 'assert':
                parts.append('assert ' + self.e(m[1], 0) + ('' if m[2] is None else self.ws() + ':' + self.ws() + self.sp(self.e(m[2], 0))))
            else:
                _, nk, name, plus, vis, ps, val = m
                if nk == 'id':
                    n = name
                elif nk == 'str':
                    n = self.string(name)
                else:
                    n = '[' + self.e(name, 0) + ']'
                parts.append(n + (self.params(ps) if ps is not None else '') + ('+' if plus else '') + vis + self.ws() + self.sp(self.e(val, 0)))
        tail = ',' if parts and not self.plain and self.r.random() < 0.2 else ''
        return '{' + self.ws() + (',' + self.ws()).join(parts) + tail + self.ws() + '}'

    def specs(self, specs):
        out = []
        for s in specs:
            if s[0] == 'for':
                out.append('for ' + s[1] + ' in ' + self.e(s[2], 0))
            else:
                out.append('if ' + self.e(s[1], 0))
        return (self.ws(True)).join(out)

    def e(self, n, ctx):
        """print node n in a context requiring precedence >= ctx"""
        k = n[0]
        if k == 'null':
            return self.maybe('null')
        if k == 'bool':
            return self.maybe('true' if n[1] else 'false')
        if k == 'num':
            return self.maybe(n[1])
        if k == 'str':
            return self.maybe(self.string(n[1]))
        if k == 'self':
            return 'self'
        if k == 'dollar':
            return '$'
        if k == 'var':
            return self.maybe(n[1])
        if k == 'std':
            return 'std.' + n[1]
        if k == 'paren':
            return self.paren(self.e(n[1], 0))
        if k == 'obj':
            return self.maybe(self.members(n[1]), 0.04)
        if k == 'objcomp':
            _, locs, name, plus, body, specs = n
            return '{' + self.ws() + '[' + self.e(name, 0) + ']' + ('+' if plus else '') + ':' + self.ws() + self.sp(self.e(body, 0)) + self.ws(True) + self.specs(specs) + self.ws() + '}'
        if k == 'arr':
            tail = ',' if n[1] and not self.plain and self.r.random() < 0.15 else ''
            return self.maybe('[' + (',' + self.ws()).join(self.e(x, 0) for x in n[1]) + tail + ']', 0.04)
        if k == 'arrcomp':
            return '[' + self.e(n[1], 0) + self.ws(True) + self.specs(n[2]) + self.ws() + ']'
        if k == 'field':
            return self.base(n[1]) + '.' + n[2]
        if k == 'index':
            return self.base(n[1]) + '[' + self.e(n[2], 0) + ']'
        if k == 'slice':
            a, b, c = n[2], n[3], n[4]
            s = (self.e(a, 0) if a else '') + ':' + (self.sp(self.e(b, 0)) if b else '')
            if c is not None:
                s += ':' + self.sp(self.e(c, 0))
            elif not self.plain and self.r.random() < 0.2:
                s += ':'
            return self.base(n[1]) + '[' + s + ']'
        if k == 'superf':
            return 'super.' + n[1]
        if k == 'superi':
            return 'super[' + self.e(n[1], 0) + ']'
        if k == 'call':
            _, f, pos, named, ts = n
            args = [self.e(a, 0) for a in pos] + [nm + self.ws() + '=' + self.ws() + self.sp(self.e(a, 0)) for nm, a in named]
            return self.base(f) + '(' + (',' + self.ws()).join(args) + ')' + (' tailstrict' if ts else '')
        if k == 'objext':
            return self.base(n[1]) + self.ws() + self.members(n[2])
        # prefix / binary forms
        if k == 'un':
            inner = self.paren(self.e(n[2], 0)) if n[2][0] == 'un' else self.e(n[2], 15)
            return self.wrap(n[1] + self.sp(inner).lstrip(' ') if inner[:1] not in '-+!~' else n[1] + ' ' + inner, 14, ctx)
        if k == 'bin':
            p = PREC[n[1]]
            s = self.e(n[2], p) + self.ws(n[1] == 'in') + n[1] + self.ws(n[1] == 'in') + self.sp(self.e(n[3], p + 1))
            return self.wrap(s, p, ctx)
        if k == 'insuper':
            s = self.e(n[1], 11) + ' in super'
            return self.wrap(s, 10, ctx)
        if k == 'local':
            s = 'local ' + (',' + self.ws()).join(self.bind(b) for b in n[1]) + self.ws() + ';' + self.ws() + self.e(n[2], 0)
            return self.wrap(s, 0, ctx)
        if k == 'if':
            s = 'if ' + self.e(n[1], 0) + ' then ' + self.e(n[2], 0) + ('' if n[3] is None else ' else ' + self.e(n[3], 0))
            return self.wrap(s, 0, ctx)
        if k == 'func':
            s = 'function' + self.params(n[1]) + self.ws(True) + self.e(n[2], 0)
            return self.wrap(s, 0, ctx)
        if k == 'error':
            s = 'error ' + self.e(n[1], 0)
            return self.wrap(s, 0, ctx)
        if k == 'assert':
            s = 'assert ' + self.e(n[1], 0) + ('' if n[2] is None else self.ws() + ':' + self.ws() + self.sp(self.e(n[2], 0))) + self.ws() + ';' + self.ws() + self.e(n[3], 0)
            return self.wrap(s, 0, ctx)
        raise ValueError('unknown node ' + repr(k))

    def wrap(self, s, prec, ctx):
        if prec < ctx:
            return self.paren(s)
        return self.maybe(s, 0.06)

    def base(self, n):
        """operand of a postfix form"""
        if n[0] in ('var', 'self', 'dollar', 'std', 'field', 'index', 'call', 'superf', 'superi', 'slice', 'paren', 'obj', 'arr', 'str', 'arrcomp', 'objcomp', 'objext'):
            return self.e(n, 15)
        return self.paren(self.e(n, 0))


def pp(ast, rng, plain=False):
    return Printer(rng, plain).e(ast, 0)


def gen_program(rng, size=40, errors=False, plain=False):
    g = Gen(rng, size, errors)
    ast = g.program()
    text = pp(ast, rng, plain)
    return text, {'nodes': g.nodes, 'kinds': dict(g.kinds), 'planted': list(g.planted)}


# ---------------------------------------------------------------------- scenario streams
# Two targeted streams, still random in every detail (names, values, orders, spellings):
#   gen_reuse_program     the SAME object value (bound to a local, returned by a function, taken from an array) is
#                         observed, extended on either side (repeatedly), and observed again, in shuffled order
#   gen_separator_program every field separator  : :: ::: +: +:: +:::  x {inherited from a left layer, not inherited}
#                         x {value, error in the inherited body}, on identifier / string / computed names, method sugar
#                         and object comprehensions
SEPARATORS = [':', '::', ':::', '+:', '+::', '+:::']


def _ws(r):
    return r.choice(['', ' ', ' ', '  ', '\n', ' /* c */ ', '\t'])


def _lit(r, ty):
    if ty == 'num':
        return r.choice(['1', '2', '3', '10', '0.5', '7'])
    if ty == 'str':
        return r.choice(['"a"', "'b'", '@"c"', '"é"', '""'])
    if ty == 'arr':
        return r.choice(['[1]', '[]', '[1, 2]', '["x"]'])
    return r.choice(['{p: 1}', '{}', '{q:: 2}', '{p: 1, q: 2}'])


def gen_reuse_program(rng):
    """-> (text, info).  info['kinds'] counts the reuse patterns used."""
    r = rng
    kinds = {}
    def k(n):
        kinds[n] = kinds.get(n, 0) + 1
    names = r.sample(['n', 'm', 't', 'u', 'w'], 5)
    n, m, t, u, w = names
    c1, c2 = r.choice(['1', '2', '5']), r.choice(['10', '100', '3'])
    members = ['%s: %s' % (n, c1)]
    deriv = r.choice(['self.%s + %s' % (n, c2), '$.%s * %s' % (n, c2), 'L + %s' % c2, '[self.%s, %s]' % (n, c2), '"v" + self.%s' % n,
                      '{ v: $.%s, z: %s }' % (n, c2), 'std.length(std.objectFields(self)) + self.%s' % n])
    if deriv.startswith('L'):
        members.append(r.choice(['local L = self.%s' % n, 'local L = $.%s' % n, 'local L = self["%s"]' % n]))
        k('object_local_over_self')
    members.append('%s%s %s' % (t, r.choice([':', ':', '::', ':::']), deriv))
    if r.random() < 0.5:
        members.append('%s%s self.%s' % (m, r.choice([':', '::']), n)); has_m = True
    else:
        has_m = False
    if r.random() < 0.4:
        members.append('%s(x):: self.%s + x' % (u, n)); has_u = True; k('method_over_self')
    else:
        has_u = False
    if r.random() < 0.3:
        members.append(r.choice(['assert self.%s > -1000 : "as"' % n, 'assert std.isNumber(self.%s)' % n])); k('object_assert')
    r.shuffle(members)
    obj = '{ ' + ', '.join(members) + ' }'
    how = r.randrange(4)
    if how == 0:
        bind = 'local b = %s;' % obj; k('bound_literal')
    elif how == 1:
        bind = 'local mk() = %s; local b = mk();' % obj; k('bound_function_result')
    elif how == 2:
        bind = 'local arr = [%s, { %s: 0 }]; local b = arr[0];' % (obj, n); k('bound_array_item')
    else:
        bind = 'local b = { } + %s;' % obj; k('bound_sum')
    exts = ['{ %s: %s }' % (n, r.choice(['2', '20', '-1'])), '{ %s+: 1 }' % n, '{ %s+: %s }' % (t, '1' if not deriv.startswith(('[', '"', '{')) else ('[0]' if deriv.startswith('[') else ('"!"' if deriv.startswith('"') else '{ z: 0 }'))),
            '{ %s:: 7 }' % n, '{ %s::: 8 }' % n, '{ %s: super.%s + self.%s }' % (w, n, n), '{ local q = super.%s, %s: q + 1 }' % (n, n), '{ }',
            '{ %s: ["%s" in super, "zz" in super, super["%s"]] }' % (w, n, n)]
    e1, e2 = r.sample(exts, 2)
    obs = ['b.%s' % t, 'b.%s' % n, '(b + %s).%s' % (e1, t), '(b + %s + %s).%s' % (e1, e2, t), '(b + (%s + %s)).%s' % (e1, e2, t),
           'b %s.%s' % (e1, t), '(%s + b).%s' % ('{ %s: 99 }' % n, t), 'b + %s' % e1, 'std.objectFields(b + %s)' % e2,
           'b == b + { }', '(b + %s) == (b + %s)' % (e1, e1)]
    if has_m:
        obs.append('(b + %s).%s' % (e1, m))
    if has_u:
        obs += ['b.%s(1)' % u, '(b + %s).%s(1)' % (e1, u)]
    chosen = r.sample(obs, r.randint(3, min(7, len(obs))))
    # always: observe first / extend / observe again on the same value, in one of several orders
    core = [['b.%s' % t, '(b + %s).%s' % (e1, t)], ['(b + %s).%s' % (e1, t), 'b.%s' % t], ['b.%s' % t, '(b + %s).%s' % (e1, t), 'b.%s' % t],
            ['c.%s' % t, 'b.%s' % t, '(c + %s).%s' % (e2, t), 'c.%s' % t]]
    pick = r.randrange(len(core))
    items = core[pick] + chosen
    if r.random() < 0.5:
        head, tail = items[:len(core[pick])], items[len(core[pick]):]
        r.shuffle(tail)
        items = head + tail
    pre = bind + (' local c = b + %s;' % e1)
    k('observe_extend_order_%d' % pick)
    text = pre + _ws(r) + '[' + (',' + _ws(r)).join(items) + ']'
    return text, {'nodes': 40, 'kinds': kinds, 'planted': []}


def gen_separator_program(rng, sep=None, inherited=None, body=None, form=None):
    """-> (text, info).  One extension field with separator `sep` whose name is (or is not) defined in the
    left layer, whose inherited body is a value or an error; info['cell'] = (sep, inherited, body)."""
    r = rng
    sep = sep or r.choice(SEPARATORS)
    inherited = r.random() < 0.6 if inherited is None else inherited
    body = body or r.choice(['value', 'value', 'error'])
    plus = sep.startswith('+')
    ty = r.choice(['num', 'str', 'arr', 'obj'])
    fname = r.choice(['a', 'f', 'k'])
    other = r.choice(['b', 'g'])
    basev = 'error "inh"' if body == 'error' else _lit(r, ty)
    basesep = r.choice([':', ':', '::', ':::'])
    if body == 'error' and not inherited:
        basesep = '::'          # keep the unrelated failing field lazy
    basefield = '%s%s %s' % (fname if inherited else other, basesep, basev)
    extra = r.choice(['', ', z: 0', ', %s: 1' % ('zz')])
    base = '{ %s%s }' % (basefield, extra)
    if r.random() < 0.25:
        base = '{ y:: 1 } + ' + base          # the inherited field sits two layers down
    forms = ['id', 'str', 'computed', 'computed_expr', 'objcomp'] + ([] if plus else ['method'])
    form = form or r.choice(forms)
    v = _lit(r, ty)
    if form == 'id':
        ext = '{ %s%s %s }' % (fname, sep, v)
    elif form == 'str':
        ext = '{ %s%s %s }' % (r.choice(['"%s"', "'%s'", '@"%s"']) % fname, sep, v)
    elif form == 'computed':
        ext = '{ ["%s"]%s %s }' % (fname, sep, v)
    elif form == 'computed_expr':
        ext = '{ local q = 1, [std.toString("%s") + ""]%s %s }' % (fname, sep, v)
    elif form == 'method':
        ext = '{ %s(x)%s %s }' % (fname, sep, v)
    else:
        # object comprehensions only allow `:` / `+:`; keep the plus, observe hiddenness through the base
        ext = '{ [k]%s: %s for k in ["%s"] }' % ('+' if plus else '', v, fname)
    join = r.choice([' + ', ' + ', ' '])
    if join == ' ' and form == 'objcomp':
        join = ' + '
    third = r.choice(['', '', ' + { %s+: %s }' % (fname, _lit(r, ty))]) if form != 'method' else ''
    o = '(%s%s%s%s)' % (base, join, ext, third)
    obs = ['o', 'std.objectFields(o)', 'std.objectFieldsAll(o)', 'std.objectHas(o, "%s")' % fname, 'std.objectHasAll(o, "%s")' % fname]
    if form == 'method':
        obs.append('o.%s(1)' % fname)
    else:
        obs.append(r.choice(['o.%s', 'o["%s"]']) % fname)
    r.shuffle(obs)
    text = 'local o = %s;%s[%s]' % (o, _ws(r), (',' + _ws(r)).join(obs[:r.randint(3, len(obs))] + ([('o.%s' % fname) if form != 'method' else ('o.%s(2)' % fname)])))
    cell = (sep, 'inherited' if inherited else 'fresh', body)
    return text, {'nodes': 20, 'kinds': {'separator_form_' + form: 1}, 'planted': ['inherited_error'] if body == 'error' else [], 'cell': cell}


BINDERS = ['local', 'param', 'default_param', 'objlocal', 'comp', 'objcomp']


def gen_shadow_program(rng, inner=None, outer=None):
    """-> (text, info).  An OUTER binder of kind `outer` binds a name, an INNER binder of kind `inner` rebinds the
    same name (its value depends on the outer one wherever the language evaluates it in the outer scope); the program
    returns what is seen inside the inner binder, between the two, and after.  info['pair'] = (inner, outer).
    Kinds: local, param, default_param, objlocal, comp (array comprehension clause), objcomp (object comprehension clause).
    inner == outer == 'comp'/'objcomp' is the SAME comprehension rebinding an earlier clause's variable."""
    r = rng
    inner = inner or r.choice(BINDERS)
    outer = outer or r.choice(BINDERS)
    v = r.choice(VARS)
    u = r.choice([n for n in VARS if n != v])
    a, b = r.choice(['1', '2', '3']), r.choice(['4', '5', '7'])
    k10 = r.choice(['10', '100'])
    see = r.choice([v, '%s + 0' % v, '[%s][0]' % v, '{ q: %s }.q' % v, '(function() %s)()' % v])

    def inner_form(body):
        """rebinds v; where the binder's value is evaluated in the enclosing scope it uses the outer v"""
        if inner == 'local':
            return r.choice(['local %s = %s * %s; local %s = %s; %s' % (u, v, k10, v, u, body),
                             'local %s = %s; %s' % (v, b, body)])
        if inner == 'param':
            return '(function(%s) %s)(%s * %s)' % (v, body, v, k10)
        if inner == 'default_param':
            return '(function(%s, %s = %s * %s) (local %s = %s; %s))(%s)' % (u, v, u, k10, u, b, body, v)
        if inner == 'objlocal':
            return r.choice(['local %s = %s * %s; { local %s = %s, r: %s }.r' % (u, v, k10, v, u, body),
                             '{ local %s = %s, r: %s }.r' % (v, b, body)])
        if inner == 'comp':
            return r.choice(['[%s for %s in [%s * %s]]' % (body, v, v, k10),
                             '[%s for %s in [%s, %s + 1] if %s > 0]' % (body, v, v, v, v),
                             '[%s for %s in [%s] for %s in [%s * %s]]' % (body, v, v, v, v, k10)])
        return '{ [std.toString(%s)]: %s for %s in [%s * %s] }' % (v, body, v, v, k10)

    if inner == outer and inner in ('comp', 'objcomp'):
        # one comprehension, a later clause reuses the earlier clause's variable
        tail = r.choice(['', ' if %s > %s' % (v, a), ' for %s in [%s]' % (u, v), ' if %s > 0 for %s in [%s + 1]' % (v, v, v)])
        src2 = r.choice(['[%s * %s]' % (v, k10), '[%s, %s * %s]' % (v, v, k10), 'std.range(%s, %s + 1)' % (v, v)])
        if inner == 'comp':
            text = '[%s for %s in [%s, %s] for %s in %s%s]' % (see, v, a, b, v, src2, tail)
        else:
            text = '{ ["k" + %s]: %s for %s in [%s, %s] for %s in [%s * %s]%s }' % (v, see, v, a, b, v, v, k10, tail if ' for %s in' % v not in tail else '')
        return text, {'nodes': 15, 'kinds': {}, 'planted': [], 'pair': (inner + ' later clause', outer + ' earlier clause')}

    mid = '[%s, %s, %s]' % (see, inner_form(see), v)      # before, inside, after the inner binder
    if outer == 'local':
        text = 'local %s = %s; %s' % (v, a, mid)
    elif outer == 'param':
        text = '(function(%s) %s)(%s)' % (v, mid, a)
    elif outer == 'default_param':
        text = '(function(%s = %s) %s)()' % (v, a, mid)
    elif outer == 'objlocal':
        text = '{ local %s = %s, r: %s }.r' % (v, a, mid)
    elif outer == 'comp':
        text = '[%s for %s in [%s, %s]]' % (mid, v, a, b)
    else:
        text = '{ ["k" + %s]: %s for %s in [%s, %s] }' % (v, mid, v, a, b)
    if r.random() < 0.3:
        text = 'local %s = 1000; %s' % (v, text)          # a third, outermost binding of the same name
    return text, {'nodes': 20, 'kinds': {}, 'planted': [], 'pair': (inner, outer)}


if __name__ == '__main__':
    import sys
    seed = int(sys.argv[1]) if len(sys.argv) > 1 else 1
    n = int(sys.argv[2]) if len(sys.argv) > 2 else 5
    rng = random.Random(seed)
    for i in range(n):
        t, info = gen_program(rng, rng.choice([15, 30, 60]), errors=(i % 3 == 2))
        print('----', info['nodes'], info['planted'])
        print(t)
