#!/usr/bin/env python3
"""Translator T(precedence table): reads `fn parse_expr` in
rsjsonnet-lang/src/parser/expr.rs of the CURRENT working tree and writes
coq/Gen/PrecTable.v:

  * the chain of binary levels  (`BinOpKind::next_state`, `init_state`),
  * per level the ORDERED list of (token, operator) attempts of the
    `let op = match kind {…}` in `State::BinaryRhs` (the `In` arm must have the
    exact `in super` look-ahead shape),
  * the ordered unary attempts of the `State::Unary` arm.

Blocks are isolated by brace matching (never by line numbers).  Any shape that
is not one of the understood ones raises (the translator never guesses)."""
import re, sys, os

KNOWN_LEVELS = ['LogicOr', 'LogicAnd', 'BitwiseOr', 'BitwiseXor', 'BitwiseAnd',
                'EqCmp', 'OrdCmp', 'Shift', 'Add', 'Mul']
KEYWORDS = {'Assert', 'Else', 'Error', 'False', 'For', 'Function', 'If', 'Import', 'Importstr',
            'Importbin', 'In', 'Local', 'Null', 'Tailstrict', 'Then', 'Self_', 'Super', 'True'}
KNOWN_BINOPS = {'Add', 'Sub', 'Mul', 'Div', 'Rem', 'Shl', 'Shr', 'Lt', 'Le', 'Gt', 'Ge', 'Eq', 'Ne', 'In',
                'BitwiseAnd', 'BitwiseOr', 'BitwiseXor', 'LogicAnd', 'LogicOr'}
KNOWN_UNOPS = {'Minus', 'Plus', 'BitwiseNot', 'LogicNot'}


class Shape(Exception):
    pass


def strip_comments(src):
    """remove // and /* */ comments (expr.rs has no string literal containing them)"""
    src = re.sub(r'/\*.*?\*/', ' ', src, flags=re.S)
    return re.sub(r'//[^\n]*', '', src)


def match_brace(s, i):
    """s[i] == '{' -> index just after the matching '}'"""
    if s[i] != '{':
        raise Shape('internal: match_brace not at a brace')
    depth = 0
    for j in range(i, len(s)):
        c = s[j]
        if c == '{':
            depth += 1
        elif c == '}':
            depth -= 1
            if depth == 0:
                return j + 1
    raise Shape('unbalanced braces')


def block_after(s, pat, what, start=0):
    """text between the braces of the first block whose header matches regex `pat` (which must end just
    before the opening brace); returns (inner text, index after the block)"""
    m = re.compile(pat).search(s, start)
    if not m:
        raise Shape('%s not found' % what)
    i = m.end()
    while i < len(s) and s[i].isspace():
        i += 1
    if i >= len(s) or s[i] != '{':
        raise Shape('%s: no block follows' % what)
    j = match_brace(s, i)
    return s[i + 1:j - 1], j


def norm(s):
    """whitespace-normalised text: no whitespace at all except one blank between two word characters"""
    s = re.sub(r'\s+', ' ', s.strip())
    s = re.sub(r'(?<![A-Za-z0-9_]) | (?![A-Za-z0-9_])', '', s)
    return s


def split_arms(body):
    """split a `match` body into (pattern, expression text) pairs at top level.  An arm's expression is
    either a braced block or runs to the next top-level comma."""
    arms = []
    i, n = 0, len(body)
    while True:
        while i < n and (body[i].isspace() or body[i] == ','):
            i += 1
        if i >= n:
            break
        j = body.find('=>', i)
        if j < 0:
            raise Shape('match arm without => near %r' % body[i:i + 40])
        pat = body[i:j].strip()
        k = j + 2
        while k < n and body[k].isspace():
            k += 1
        if k < n and body[k] == '{':
            e = match_brace(body, k)
            arms.append((pat, body[k:e]))
            i = e
        else:
            depth = 0
            e = k
            while e < n:
                c = body[e]
                if c in '({[':
                    depth += 1
                elif c in ')}]':
                    depth -= 1
                elif c == ',' and depth == 0:
                    break
                e += 1
            arms.append((pat, body[k:e]))
            i = e
    return arms


EAT = r'self\.eat_simple\(STokenKind::(\w+),(\w+)\)'


def parse_chain(text, what):
    """`{if self.eat_simple(STokenKind::T,false).is_some(){Some(ast::BinaryOp::O)}else if … else{None}}`
    (normalised) -> ordered [(T, O | ('BLOCK', text))]"""
    t = text
    if not (t.startswith('{') and t.endswith('}')):
        raise Shape('%s: arm is not a block' % what)
    t = t[1:-1]
    out = []
    pos = 0
    while True:
        m = re.compile(r'if ?' + EAT + r'\.is_some\(\)').match(t, pos)
        if not m:
            raise Shape('%s: expected `if self.eat_simple(STokenKind::…, false).is_some()` at %r' % (what, t[pos:pos + 60]))
        if m.group(2) != 'false':
            raise Shape('%s: eat_simple(%s, %s): second argument must be false' % (what, m.group(1), m.group(2)))
        b = m.end()
        if t[b] != '{':
            raise Shape('%s: no block after the condition' % what)
        e = match_brace(t, b)
        out.append((m.group(1), t[b:e]))
        pos = e
        if t.startswith('else if', pos):
            pos += len('else ')
            continue
        if t[pos:] == 'else{None}':
            break
        raise Shape('%s: chain must end with `else { None }`, found %r' % (what, t[pos:pos + 60]))
    return out


IN_SUPER_COND = ('self.peek_simple(STokenKind::Super,0)&&!self.peek_simple(STokenKind::Dot,1)'
                 '&&!self.peek_simple(STokenKind::LeftBracket,1)')


def check_in_block(blk, what):
    """the block taken after `in` was eaten: exactly the `in super` look-ahead and `Some(BinaryOp::In)`"""
    if not (blk.startswith('{if ' + IN_SUPER_COND + '{') or blk.startswith('{if' + IN_SUPER_COND + '{')):
        raise Shape('%s: `in` arm does not start with the three-peek `in super` look-ahead: %r' % (what, blk[:200]))
    peeks = re.findall(r'!?self\.peek_simple\(STokenKind::\w+,\d+\)', blk)
    want = ['self.peek_simple(STokenKind::Super,0)', '!self.peek_simple(STokenKind::Dot,1)',
            '!self.peek_simple(STokenKind::LeftBracket,1)']
    if peeks != want:
        raise Shape('%s: `in` arm peeks are %r, expected exactly %r' % (what, peeks, want))
    i = blk.index(IN_SUPER_COND) + len(IN_SUPER_COND)
    e = match_brace(blk, i)
    then_blk = blk[i:e]
    rest = blk[e:]
    if rest != 'else{Some(ast::BinaryOp::In)}}':
        raise Shape('%s: `in` arm else branch must be `Some(ast::BinaryOp::In)`: %r' % (what, rest[:120]))
    if then_blk.count('ast::ExprKind::InSuper(') != 1:
        raise Shape('%s: `in super` branch does not build exactly one ast::ExprKind::InSuper' % what)
    if not then_blk.endswith('continue;}'):
        raise Shape('%s: `in super` branch must end with `continue;`' % what)
    if then_blk.count('continue;') != 1:
        raise Shape('%s: `in super` branch: more than one continue' % what)
    if 'self.eat_simple(STokenKind::Super,true).unwrap()' not in then_blk:
        raise Shape('%s: `in super` branch must consume the `super` token' % what)
    if 'state=State::BinaryRhs(kind,' not in then_blk:
        raise Shape('%s: `in super` branch must stay at the same level (State::BinaryRhs(kind, …))' % what)
    if 'eat_simple' in then_blk.replace('self.eat_simple(STokenKind::Super,true).unwrap()', '', 1):
        raise Shape('%s: `in super` branch eats something else' % what)


def read_table(repo):
    path = os.path.join(repo, 'rsjsonnet-lang/src/parser/expr.rs')
    src = strip_comments(open(path).read())
    body, _ = block_after(src, r'fn\s+parse_expr\s*\(\s*&mut\s+self\s*\)\s*->\s*Result<[^{]*>', 'fn parse_expr')
    # --- the level enum
    enum_body, _ = block_after(body, r'enum\s+BinOpKind', 'enum BinOpKind')
    levels = [x.strip() for x in enum_body.split(',') if x.strip()]
    for l in levels:
        if not re.fullmatch(r'\w+', l):
            raise Shape('enum BinOpKind: variant %r is not a plain name' % l)
        if l not in KNOWN_LEVELS:
            raise Shape('enum BinOpKind: unknown variant %s (the Coq level type is fixed to %s)' % (l, KNOWN_LEVELS))
    if len(set(levels)) != len(levels):
        raise Shape('enum BinOpKind: repeated variant')
    if set(levels) != set(KNOWN_LEVELS):
        raise Shape('enum BinOpKind: variants %s missing' % sorted(set(KNOWN_LEVELS) - set(levels)))
    # --- next_state
    ns_body, _ = block_after(body, r'fn\s+next_state\s*<[^>]*>\s*\(\s*self\s*\)\s*->\s*State<[^>]*>', 'fn next_state')
    m_body, end = block_after(ns_body, r'match\s+self', 'next_state: match self')
    if ns_body[end:].strip() or not ns_body[:ns_body.index('match')].strip() == '':
        raise Shape('next_state: body is not a single match')
    nxt = {}
    for pat, e in split_arms(m_body):
        mp = re.fullmatch(r'BinOpKind::(\w+)', pat)
        if not mp:
            raise Shape('next_state: arm pattern %r' % pat)
        k = mp.group(1)
        if k in nxt:
            raise Shape('next_state: repeated arm %s' % k)
        e = norm(e)
        me = re.fullmatch(r'State::Binary\(BinOpKind::(\w+)\)', e)
        if me:
            if me.group(1) not in levels:
                raise Shape('next_state: %s -> unknown level %s' % (k, me.group(1)))
            nxt[k] = me.group(1)
        elif e == 'State::Unary':
            nxt[k] = None
        else:
            raise Shape('next_state: arm %s has unknown right-hand side %r' % (k, e))
    for l in levels:
        if l not in nxt:
            raise Shape('next_state: no arm for %s' % l)
    if set(nxt) - set(levels):
        raise Shape('next_state: arm for unknown level %s' % sorted(set(nxt) - set(levels)))
    if sum(1 for v in nxt.values() if v is None) != 1:
        raise Shape('next_state: exactly one level must continue with State::Unary')
    # --- init_state
    is_body, _ = block_after(body, r'fn\s+init_state\s*<[^>]*>\s*\(\s*\)\s*->\s*State<[^>]*>', 'fn init_state')
    mi = re.fullmatch(r'State::Binary\(BinOpKind::(\w+)\)', norm(is_body))
    if not mi or mi.group(1) not in levels:
        raise Shape('init_state: body %r is not State::Binary(BinOpKind::X)' % norm(is_body))
    init = mi.group(1)
    # --- the big state machine: `match state { … }`
    st_body, _ = block_after(body, r'match\s+state', 'match state')
    arms = split_arms(st_body)
    by = {}
    for pat, e in arms:
        p = norm(pat)
        if p in by:
            raise Shape('match state: repeated arm %s' % p)
        by[p] = e
    # BinaryRhs
    key = [p for p in by if p.startswith('State::BinaryRhs(')]
    if key != ['State::BinaryRhs(kind,lhs)']:
        raise Shape('match state: BinaryRhs arm pattern %r' % key)
    rhs = by[key[0]]
    op_body, after = block_after(rhs, r'let\s+op\s*=\s*match\s+kind', 'BinaryRhs: let op = match kind')
    tail = norm(rhs[after:])
    want_tail = ('; if let Some(op)=op{stack.push(StackItem::BinaryRhs(kind,self.ast_arena.alloc(lhs),op));'
                 'state=kind.next_state();}else{self.expected_things.push(ExpectedToken::BinaryOp);'
                 'state=State::Parsed(lhs);}}')
    if tail.replace(' ', '') != want_tail.replace(' ', ''):
        raise Shape('BinaryRhs: the code after `let op = match kind {…}` changed: %r' % tail[:300])
    ops = {}
    for pat, e in split_arms(op_body):
        mp = re.fullmatch(r'BinOpKind::(\w+)', norm(pat))
        if not mp:
            raise Shape('BinaryRhs: arm pattern %r' % pat)
        k = mp.group(1)
        if k in ops:
            raise Shape('BinaryRhs: repeated arm %s' % k)
        e = norm(e)
        what = 'BinaryRhs arm %s' % k
        m1 = re.fullmatch(EAT + r'\.map\(\|_\|ast::BinaryOp::(\w+)\)', e)
        lst = []
        if m1:
            if m1.group(2) != 'false':
                raise Shape('%s: eat_simple second argument must be false' % what)
            lst.append((m1.group(1), m1.group(3)))
        else:
            for tok, blk in parse_chain(e, what):
                mb = re.fullmatch(r'\{Some\(ast::BinaryOp::(\w+)\)\}', blk)
                if mb:
                    lst.append((tok, mb.group(1)))
                elif tok == 'In':
                    check_in_block(blk, what)
                    lst.append(('In', 'In'))
                else:
                    raise Shape('%s: block after eating %s is not `Some(ast::BinaryOp::X)`: %r' % (what, tok, blk[:120]))
        if len(re.findall(r'eat_simple', e)) != len(lst) + (1 if ('In', 'In') in lst and 'InSuper' in e else 0):
            raise Shape('%s: unexpected extra eat_simple' % what)
        for tok, o in lst:
            if o not in KNOWN_BINOPS:
                raise Shape('%s: unknown ast::BinaryOp::%s' % (what, o))
        ops[k] = lst
    for l in levels:
        if l not in ops:
            raise Shape('BinaryRhs: no operator arm for level %s' % l)
    if set(ops) - set(levels):
        raise Shape('BinaryRhs: arm for unknown level')
    # Unary
    if 'State::Unary' not in by:
        raise Shape('match state: no State::Unary arm')
    un = norm(by['State::Unary'])
    if not (un.startswith('{') and un.endswith('}')):
        raise Shape('State::Unary arm is not a block')
    t = un[1:-1]
    unary = []
    pos = 0
    while True:
        m = re.compile(r'if let Some\(op_span\)=' + EAT).match(t, pos)
        if not m:
            raise Shape('State::Unary: expected `if let Some(op_span) = self.eat_simple(…)` at %r' % t[pos:pos + 80])
        if m.group(2) != 'false':
            raise Shape('State::Unary: eat_simple(%s, %s): second argument must be false' % (m.group(1), m.group(2)))
        b = m.end()
        e = match_brace(t, b)
        mb = re.fullmatch(r'\{stack\.push\(StackItem::Unary\(ast::UnaryOp::(\w+),op_span\)\);\}', t[b:e])
        if not mb:
            raise Shape('State::Unary: block after eating %s: %r' % (m.group(1), t[b:e][:120]))
        if mb.group(1) not in KNOWN_UNOPS:
            raise Shape('State::Unary: unknown ast::UnaryOp::%s' % mb.group(1))
        unary.append((m.group(1), mb.group(1)))
        pos = e
        if t.startswith('else if', pos):
            pos += len('else ')
            continue
        if t[pos:] == 'else{stack.push(StackItem::Suffix);state=State::Primary;}':
            break
        raise Shape('State::Unary: chain must end with the Suffix/Primary fallback, found %r' % t[pos:pos + 100])
    # Binary(kind) arm: push lhs marker and descend
    if norm(by.get('State::Binary(kind)', '')) != '{stack.push(StackItem::BinaryLhs(kind));state=kind.next_state();}':
        raise Shape('match state: State::Binary(kind) arm changed: %r' % norm(by.get('State::Binary(kind)', ''))[:200])
    # chain order from init
    chain = []
    k = init
    while k is not None:
        if k in chain:
            raise Shape('next_state: cycle at %s' % k)
        chain.append(k)
        k = nxt[k]
    return {'levels': levels, 'init': init, 'next': nxt, 'ops': ops, 'unary': unary, 'chain': chain}


def tok_name(t):
    if t in KEYWORDS:
        return 'KSelf' if t == 'Self_' else 'K' + t
    return 'S' + t


def render(tab):
    L = ['(* GENERATED by tools/translate_parser.py from rsjsonnet-lang/src/parser/expr.rs — do not edit *)',
         'From RJ Require Import Base.Outcome Model.Token Model.Ast Model.Parser.',
         'Definition src_prec : prec_table :=',
         '  {| pt_init := Lv%s;' % tab['init'],
         '     pt_next := fun k => match k with']
    for l in tab['levels']:
        n = tab['next'][l]
        L.append('       | Lv%s => %s' % (l, 'None' if n is None else 'Some Lv' + n))
    L.append('       end;')
    L.append('     pt_ops := fun k => match k with')
    for l in tab['levels']:
        L.append('       | Lv%s => [%s]' % (l, '; '.join('(%s, B%s)' % (tok_name(t), o) for t, o in tab['ops'][l])))
    L.append('       end;')
    L.append('     pt_unary := [%s] |}.' % '; '.join('(%s, U%s)' % (tok_name(t), o) for t, o in tab['unary']))
    return '\n'.join(L) + '\n'


def main(repo, out):
    tab = read_table(repo)
    text = render(tab)
    old = open(out).read() if os.path.exists(out) else None
    if old != text:
        os.makedirs(os.path.dirname(out), exist_ok=True)
        open(out, 'w').write(text)
    return tab


if __name__ == '__main__':
    if len(sys.argv) == 2:
        print(render(read_table(sys.argv[1])))
    else:
        print(main(sys.argv[1], sys.argv[2]))
