#!/usr/bin/env python3
"""vlib.py — shared machinery of the /verif checks.

Pipeline pieces: translators -> Coq proof obligations -> build of the
implementation harness (from /repo's working tree) and of the extracted model
drivers -> run both on the same cases -> compare / apply property oracles ->
decide -> evidence.
"""
import os, sys, re, json, time, glob, hashlib, subprocess, random, shutil, tempfile, signal
from concurrent.futures import ThreadPoolExecutor

VERIF = os.path.dirname(os.path.dirname(os.path.abspath(__file__)))
REPO = os.environ.get('VERIF_REPO', '/repo')
COQ = os.path.join(VERIF, 'coq')
OCAML = os.path.join(VERIF, 'ocaml')
HARNESS = os.path.join(VERIF, 'harness')
EVID = os.environ.get('VERIF_EVID_DIR') or os.path.join(VERIF, 'evidence')   # VERIF_EVID_DIR: side runs (thorough sweeps) that must not overwrite the registered evidence
REPLAY = os.path.join(EVID, 'replay')
GUARD = 'rsjsonnet_verif'
NCPU = os.cpu_count() or 4

TRUSTED_BASE = [
    "Coq 8.16.1 kernel (coqc, full .vo build; vm_compute used; no native_compute, no primitive floats/ints)",
    "axioms: none declared by this development; per-theorem Print Assumptions output is checked against an allow-list on every run",
    "extraction: Extraction with ExtrOcamlBasic directives only (bool/option/list/prod/unit/sumbool mapped to OCaml's; nat/positive/N/Z/string stay Coq inductives), OCaml 4.13.1 ocamlfind ocamlopt, ocaml/wire.ml, ocaml/main.ml and the per-component ocaml/comp_*.ml glue",
    "correspondence harness: harness/src (Rust, built against /repo's working tree with --cfg rsjsonnet_verif), tools/*.py generators, comparison and oracles",
    "translators tools/translate_*.py (regex/bracket readers of specific Rust items; fail loudly on an unknown shape)",
    "Rust core/alloc/std, external crates and the OS are modelled (assumed behaviour), not verified",
]


def log(msg):
    sys.stderr.write(msg + '\n')
    sys.stderr.flush()


def sh(cmd, timeout=600, cwd=None, env=None, stdin=None):
    """run a command; returns (rc, stdout+stderr text). rc = -9 on timeout."""
    e = dict(os.environ)
    e.setdefault('CARGO_NET_OFFLINE', 'true')
    if env:
        e.update(env)
    try:
        p = subprocess.run(cmd, shell=isinstance(cmd, str), cwd=cwd, env=e, input=stdin,
                           stdout=subprocess.PIPE, stderr=subprocess.STDOUT, timeout=timeout,
                           text=True, errors='replace')
        return p.returncode, p.stdout
    except subprocess.TimeoutExpired as ex:
        out = ex.stdout or ''
        if isinstance(out, bytes):
            out = out.decode('utf-8', 'replace')
        return -9, out + '\n[timeout after %ss]' % timeout


# ---------------------------------------------------------------------------
# Coq side

def coq_files():
    fs = []
    for d in ('Base', 'Model', 'Proofs', 'Gen', 'Props', 'Extract'):
        fs += sorted(glob.glob(os.path.join(COQ, d, '*.v')))
    return [os.path.relpath(f, COQ) for f in fs]


def coq_project():
    """(re)generate _CoqProject and Makefile when the file list changed"""
    want = '-Q . RJ\n' + '\n'.join(coq_files()) + '\n'
    p = os.path.join(COQ, '_CoqProject')
    have = open(p).read() if os.path.exists(p) else None
    if have != want or not os.path.exists(os.path.join(COQ, 'Makefile')):
        open(p, 'w').write(want)
        rc, out = sh('coq_makefile -f _CoqProject -o Makefile', cwd=COQ, timeout=120)
        if rc != 0:
            raise RuntimeError('coq_makefile failed:\n' + out)


def coq_make(targets, timeout=3000, jobs=NCPU):
    coq_project()
    cmd = ['make', '-j%d' % jobs] + list(targets)
    return sh(cmd, cwd=COQ, timeout=timeout)


FORBIDDEN = re.compile(r'\b(Admitted|admit|Axiom|Axioms|Parameter|Parameters|Conjecture|Conjectures)\b|Unset\s+Guard|bypass_check|Admit\s+Obligations|-type-in-type|Unset\s+Universe\s+Checking|Unset\s+Positivity')


def strip_comments(text):
    out = []
    depth = 0
    i = 0
    n = len(text)
    while i < n:
        if text.startswith('(*', i):
            depth += 1
            i += 2
        elif text.startswith('*)', i) and depth > 0:
            depth -= 1
            i += 2
        else:
            if depth == 0:
                out.append(text[i])
            elif text[i] == '\n':
                out.append('\n')
            i += 1
    return ''.join(out)


def coq_cone(rel):
    """files of this development that coq/<rel> transitively requires (itself included)"""
    seen, todo = [], [rel]
    while todo:
        r = todo.pop()
        if r in seen or not os.path.exists(os.path.join(COQ, r)):
            continue
        seen.append(r)
        txt = strip_comments(open(os.path.join(COQ, r)).read())
        for m in re.finditer(r'Require\s+(?:Import\s+|Export\s+)?([\w.\s]+?)\.(?:\s|$)', txt + '\n'):
            for name in m.group(1).split():
                if name.startswith('RJ.'):
                    name = name[3:]
                parts = name.split('.')
                if len(parts) == 2 and parts[0] in ('Base', 'Model', 'Proofs', 'Gen', 'Props', 'Extract'):
                    todo.append('%s/%s.v' % (parts[0], parts[1]))
    return seen


def hygiene(files=None):
    """scan the given files (default: the whole development) for forbidden constructs;
    returns list of 'file:line: text'"""
    bad = []
    for rel in (files if files is not None else coq_files()):
        txt = strip_comments(open(os.path.join(COQ, rel)).read())
        depth = 0
        for ln, line in enumerate(txt.split('\n'), 1):
            if re.match(r'\s*Section\b', line):
                depth += 1
            if FORBIDDEN.search(line):
                bad.append('%s:%d: %s' % (rel, ln, line.strip()))
            if depth == 0 and re.match(r'\s*(Variable|Variables|Hypothesis|Hypotheses|Context)\b', line):
                bad.append('%s:%d: (outside section) %s' % (rel, ln, line.strip()))
            if re.match(r'\s*End\b', line) and depth > 0:
                depth -= 1
    return bad


def parse_assumptions(out, names):
    """Map the sequence of Print Assumptions blocks to theorem names."""
    blocks = []
    cur = None
    for line in out.split('\n'):
        if line.startswith('Closed under the global context'):
            if cur is not None:
                blocks.append(cur)
                cur = None
            blocks.append([])
        elif line.startswith('Axioms:'):
            if cur is not None:
                blocks.append(cur)
            cur = []
        elif cur is not None:
            # an axiom entry starts at column 0 with its (qualified) name, optionally followed by
            # " : type"; the type may continue on indented lines or start on the next line
            m = re.match(r'^([A-Za-z_][\w.\']*)\s*(:.*)?$', line)
            if m:
                cur.append(m.group(1))
            elif line.strip() != '' and not line[0].isspace():
                # some other output ends the block
                blocks.append(cur)
                cur = None
    if cur is not None:
        blocks.append(cur)
    return dict(zip(names, blocks)), len(blocks)


def prove(prop_id, theorems, allowed_axioms=()):
    """Build Props/<prop_id>.v's cone and re-check the Props file itself, capturing
    Print Assumptions.  Returns dict(ok, obligations, discharged, failed, assumptions, log)"""
    res = {'ok': False, 'obligations': len(theorems), 'discharged': 0, 'failed': [], 'assumptions': {}, 'log': ''}
    props_v = os.path.join(COQ, 'Props', prop_id + '.v')
    if not os.path.exists(props_v):
        res['failed'] = ['Props/%s.v missing' % prop_id]
        return res
    bad = hygiene(coq_cone('Props/%s.v' % prop_id))
    if bad:
        res['failed'] = ['hygiene: ' + b for b in bad[:10]]
        res['log'] = '\n'.join(bad)
        return res
    rc, out = coq_make(['Props/%s.vo' % prop_id])
    res['log'] = out[-6000:]
    if rc != 0:
        # find which file / theorem failed
        m = re.search(r'File "\./([^"]+)", line (\d+)', out)
        where = '%s:%s' % (m.group(1), m.group(2)) if m else 'unknown location'
        thm = None
        if m:
            try:
                lines = open(os.path.join(COQ, m.group(1))).read().split('\n')
                for k in range(int(m.group(2)) - 1, -1, -1):
                    mm = re.match(r'\s*(Theorem|Lemma|Example|Definition|Corollary|Fact|Remark|Instance|Fixpoint)\s+([\w\']+)', lines[k])
                    if mm:
                        thm = mm.group(2)
                        break
            except Exception:
                pass
        res['failed'] = ['proof obligation no longer checks: %s (%s)' % (thm or '?', where)]
        return res
    # re-run the leaf file to capture Print Assumptions
    src = open(props_v).read()
    printed = re.findall(r'^Print Assumptions\s+([\w\']+)\s*\.', strip_comments(src), flags=re.M)
    rc, out = sh(['coqc', '-Q', '.', 'RJ', 'Props/%s.v' % prop_id], cwd=COQ, timeout=900)
    if rc != 0:
        res['failed'] = ['Props/%s.v does not compile' % prop_id]
        res['log'] = out[-6000:]
        return res
    amap, nblocks = parse_assumptions(out, printed)
    if nblocks != len(printed):
        res['failed'] = ['could not parse Print Assumptions output (%d blocks for %d commands)' % (nblocks, len(printed))]
        res['log'] = out[-6000:]
        return res
    stripped = strip_comments(src)
    for t in theorems:
        if not re.search(r'\b(Theorem|Example|Lemma|Corollary)\s+%s\b' % re.escape(t), stripped):
            res['failed'].append('theorem %s not stated in Props/%s.v' % (t, prop_id))
            continue
        if t not in amap:
            res['failed'].append('theorem %s has no Print Assumptions' % t)
            continue
        extra = [a for a in amap[t] if a not in allowed_axioms]
        if extra:
            res['failed'].append('theorem %s depends on non-allow-listed axioms: %s' % (t, ', '.join(extra)))
            continue
        res['discharged'] += 1
    res['assumptions'] = {t: amap.get(t, []) for t in theorems}
    res['ok'] = (res['discharged'] == res['obligations'] and not res['failed'])
    res['props_sha256'] = hashlib.sha256(src.encode()).hexdigest()
    return res


# ---------------------------------------------------------------------------
# building the two sides

def build_model(comp):
    """compile ocaml/gen/<comp>_model.ml + wire + comp glue -> ocaml/build/<comp>/model_<comp>"""
    gen_ml = os.path.join(OCAML, 'gen', comp + '_model.ml')
    os.makedirs(os.path.join(OCAML, 'gen'), exist_ok=True)
    # make re-extracts when a Model/Base source changed (no-op otherwise)
    rc, out = coq_make(['Extract/%s_extract.vo' % comp.capitalize()])
    if rc != 0 or not os.path.exists(gen_ml):
        vo = os.path.join(COQ, 'Extract', '%s_extract.vo' % comp.capitalize())
        if rc == 0 and os.path.exists(vo):
            os.remove(vo)   # .vo cached but generated .ml missing: force re-extraction
            rc, out = coq_make(['Extract/%s_extract.vo' % comp.capitalize()])
        if rc != 0 or not os.path.exists(gen_ml):
            raise RuntimeError('extraction of %s failed:\n%s' % (comp, out[-3000:]))
    bdir = os.path.join(OCAML, 'build', comp)
    os.makedirs(bdir, exist_ok=True)
    exe = os.path.join(bdir, 'model_' + comp)
    # optional ocaml/comp_<comp>.deps: extra shared glue modules (e.g. sexp.ml tok_wire.ml ast_wire.ml), in link order
    extra = []
    deps = os.path.join(OCAML, 'comp_%s.deps' % comp)
    if os.path.exists(deps):
        extra = [x for x in open(deps).read().split() if x]
    srcs = [(gen_ml, 'model.ml'), (gen_ml + 'i', 'model.mli'), (os.path.join(OCAML, 'wire.ml'), 'wire.ml')]
    srcs += [(os.path.join(OCAML, x), x) for x in extra]
    srcs += [(os.path.join(OCAML, 'comp_%s.ml' % comp), 'comp.ml'), (os.path.join(OCAML, 'main.ml'), 'main.ml')]
    newest = max(os.path.getmtime(s) for s, _ in srcs)
    if os.path.exists(exe) and os.path.getmtime(exe) >= newest:
        return exe
    for s, d in srcs:
        shutil.copyfile(s, os.path.join(bdir, d))
    rc, out = sh('ocamlfind ocamlopt -O2 -w -a -package str -linkpkg model.mli model.ml wire.ml %s comp.ml main.ml -o model_%s'
                 % (' '.join(extra), comp), cwd=bdir, timeout=900)
    if rc != 0:
        raise RuntimeError('ocaml build of %s failed:\n%s' % (comp, out[-3000:]))
    return exe


def extraction_stale(comp):
    """True when the extracted .ml is older than its Model sources (setup handles that through make)"""
    return False


def build_harness(profile='release'):
    flag = '--release' if profile == 'release' else ''
    # Cargo.toml is generated so that the path dependencies follow VERIF_REPO (scratch worktrees)
    tmpl = open(os.path.join(HARNESS, 'Cargo.toml.in')).read().replace('@REPO@', REPO)
    ct = os.path.join(HARNESS, 'Cargo.toml')
    if not os.path.exists(ct) or open(ct).read() != tmpl:
        open(ct, 'w').write(tmpl)
    lock = os.path.join(HARNESS, 'Cargo.lock')
    if not os.path.exists(lock):
        shutil.copyfile(os.path.join(REPO, 'Cargo.lock'), lock)
    rc, out = sh('cargo build --offline %s' % flag, cwd=HARNESS, timeout=1800,
                 env={'RUSTFLAGS': '--cfg %s' % GUARD, 'CARGO_NET_OFFLINE': 'true'})
    if rc != 0:
        # a stale lock (dependency set of /repo changed) — retry from the repo's lock
        shutil.copyfile(os.path.join(REPO, 'Cargo.lock'), lock)
        rc, out = sh('cargo build --offline %s' % flag, cwd=HARNESS, timeout=1800,
                     env={'RUSTFLAGS': '--cfg %s' % GUARD, 'CARGO_NET_OFFLINE': 'true'})
    if rc != 0:
        raise RuntimeError('harness build failed:\n' + out[-4000:])
    return os.path.join(HARNESS, 'target', 'release' if profile == 'release' else 'debug', 'impl_driver')


def build_cli():
    """the real command-line binary, from /repo's working tree (shipped profile minus LTO for build time)"""
    tdir = os.path.join(HARNESS, 'target-cli')
    cmd = ('cargo build --offline --release -p rsjsonnet --manifest-path %s/Cargo.toml --target-dir %s '
           '--config profile.release.lto=false --config profile.release.codegen-units=16' % (REPO, tdir))
    rc, out = sh(cmd, timeout=1800, env={'CARGO_NET_OFFLINE': 'true'})
    if rc != 0:
        raise RuntimeError('cli build failed:\n' + out[-4000:])
    return os.path.join(tdir, 'release', 'rsjsonnet')


# ---------------------------------------------------------------------------
# running cases.  A case is (id, comp, [fields]).  Results: dict id -> string

def _limit_mem(nbytes):
    def f():
        import resource
        resource.setrlimit(resource.RLIMIT_AS, (nbytes, nbytes))
    return f


def _run_proc(exe, lines, timeout, env=None, mem=None):
    """feed lines; returns (dict id->result, status) status in ok|timeout|crash:<rc>:<last stderr line>"""
    data = ''.join(l + '\n' for l in lines)
    e = dict(os.environ)
    if env:
        e.update(env)
    try:
        p = subprocess.run([exe], input=data.encode(), stdout=subprocess.PIPE, stderr=subprocess.PIPE,
                           timeout=timeout, env=e, preexec_fn=_limit_mem(mem) if mem else None)
        out, rc = p.stdout, p.returncode
        if rc == 0:
            status = 'ok'
        else:
            tail = [x for x in p.stderr.decode('utf-8', 'replace').split('\n') if x.strip()]
            key = [x for x in tail if ('memory allocation' in x or 'overflowed its stack' in x or 'panicked at' in x
                                       or 'capacity overflow' in x)]
            msg = key[0] if key else (tail[0] if tail else '')
            status = 'crash:%d:%s' % (rc, msg[:200].replace('\t', ' '))
    except subprocess.TimeoutExpired as ex:
        out = ex.stdout or b''
        status = 'timeout'
    res = {}
    text = out.decode('utf-8', 'replace')
    lines_out = text.split('\n')
    if not text.endswith('\n') and lines_out:
        lines_out = lines_out[:-1]     # a line cut short by a kill/timeout is not an answer
    for l in lines_out:
        if not l:
            continue
        k, _, v = l.partition('\t')
        res[k] = v
    return res, status


def run_lines(exe, lines, timeout=120, env=None, mem=None):
    """robust run: when the process crashes or hangs, the first unanswered case is
    blamed (`CRASH <rc> <last stderr line>` / `TIMEOUT`) and the rest are re-run."""
    results = {}
    pending = list(lines)
    guard = 0
    while pending and guard < 200:
        guard += 1
        res, status = _run_proc(exe, pending, timeout, env, mem)
        results.update(res)
        if status == 'ok':
            for l in pending:
                k = l.split('\t', 1)[0]
                if k not in results:
                    results[k] = 'NOOUTPUT'
            break
        # find first unanswered
        idx = None
        for i, l in enumerate(pending):
            k = l.split('\t', 1)[0]
            if k not in results:
                idx = i
                break
        if idx is None:
            break
        k = pending[idx].split('\t', 1)[0]
        results[k] = 'TIMEOUT' if status == 'timeout' else 'CRASH\t' + '\t'.join(status.split(':', 2)[1:])
        pending = pending[idx + 1:]
    return results


def run_sharded(exe, lines, timeout=120, shards=NCPU, env=None, mem=None):
    if not lines:
        return {}
    shards = max(1, min(shards, len(lines)))
    parts = [lines[i::shards] for i in range(shards)]
    out = {}
    with ThreadPoolExecutor(max_workers=shards) as ex:
        for r in ex.map(lambda p: run_lines(exe, p, timeout, env, mem), parts):
            out.update(r)
    return out


def impl_line(case):
    cid, comp, fields = case[0], case[1], case[2]
    return '\t'.join([cid, comp] + list(fields))


def model_line(case):
    cid, comp, fields = case[0], case[1], case[2]
    return '\t'.join([cid] + list(fields))


def run_both(cases, impl_exe, model_exes, timeout=180):
    """cases: list of (id, comp, fields[, meta]); model_exes: dict comp->exe"""
    impl = run_sharded(impl_exe, [impl_line(c) for c in cases], timeout)
    model = {}
    by = {}
    for c in cases:
        by.setdefault(c[1], []).append(c)
    for comp, cs in by.items():
        if comp in model_exes:
            res = run_sharded(model_exes[comp], [model_line(c) for c in cs], timeout)
            # a model driver that was starved (loaded machine) is a machinery condition, not an answer:
            # re-run unanswered cases one by one with a generous timeout before anybody compares them
            slow = [c for c in cs if res.get(c[0], 'NOOUTPUT').split('\t')[0] in ('TIMEOUT', 'NOOUTPUT')]
            for c in slow[:200]:
                res.update(run_lines(model_exes[comp], [model_line(c)], timeout * 4))
            model.update(res)
    return impl, model


# ---------------------------------------------------------------------------
# known findings, violations, evidence

def known_findings(prop_id):
    p = os.path.join(VERIF, 'KNOWN_FINDINGS.jsonl')
    out = []
    if os.path.exists(p):
        for l in open(p):
            l = l.strip()
            if not l or l.startswith('#'):
                continue
            try:
                j = json.loads(l)
            except Exception:
                continue
            if j.get('property') == prop_id and j.get('status') == 'open':
                out.append(j)
    return out


def write_replay(prop_id, obj):
    os.makedirs(REPLAY, exist_ok=True)
    blob = json.dumps(obj, sort_keys=True, indent=1)
    h = hashlib.sha256(blob.encode()).hexdigest()[:12]
    path = os.path.join(REPLAY, '%s-%s.json' % (prop_id, h))
    open(path, 'w').write(blob)
    return path


class Run:
    """one invocation of a check; accumulates obligations, coverage, violations"""

    def __init__(self, prop_id, tier, seed):
        self.prop = prop_id
        self.tier = tier
        self.seed = seed
        self.t0 = time.time()
        self.obligations = 0
        self.discharged = 0
        self.obl_names = []
        self.failed_obligations = []
        self.assumptions = {}
        self.evaluations = 0
        self.nontrivial = set()
        self.samples = []
        self.hist = {}
        self.violations = []      # dicts: {key, what, replay:{...}, concrete:bool}
        self.notes = []
        self.extra = {}
        self.rule = ''
        self.assume = []
        self.checker_cmd = 'make -C coq Props/%s.vo && coqc -Q . RJ Props/%s.v (Print Assumptions vs allow-list) && hygiene grep' % (prop_id, prop_id)

    def count(self, name, k=1):
        self.hist[name] = self.hist.get(name, 0) + k

    def add_proof(self, pres, theorems):
        self.obligations += pres['obligations']
        self.discharged += pres['discharged']
        self.obl_names += list(theorems)
        self.failed_obligations += pres['failed']
        self.assumptions.update(pres.get('assumptions', {}))
        if 'props_sha256' in pres:
            self.extra['props_sha256'] = pres['props_sha256']

    def add_obligation(self, name, ok, why=''):
        self.obligations += 1
        self.obl_names.append(name)
        if ok:
            self.discharged += 1
        else:
            self.failed_obligations.append('%s: %s' % (name, why))

    def violation(self, key, what, replay, concrete=True):
        self.violations.append({'key': key, 'what': what, 'replay': replay, 'concrete': concrete})

    def finish(self):
        """prints KNOWN-FINDING / VIOLATION lines, writes evidence, returns exit code"""
        known = known_findings(self.prop)
        known_keys = {k['key']: k for k in known}
        seen_known = {}
        unknown = []
        for v in self.violations:
            if v['concrete'] and v['key'] in known_keys:
                seen_known.setdefault(v['key'], v)
            else:
                unknown.append(v)
        for k, v in sorted(seen_known.items()):
            print('KNOWN-FINDING: property=%s %s' % (self.prop, known_keys[k].get('what', v['what'])))
        rc = 0
        reported = set()
        # concrete unknown violations first
        for v in unknown:
            if not v['concrete']:
                continue
            if v['key'] in reported:
                continue
            reported.add(v['key'])
            path = write_replay(self.prop, {'property': self.prop, 'key': v['key'], 'what': v['what'],
                                            'seed': self.seed, 'tier': self.tier, 'replay': v['replay']})
            print('VIOLATION property=%s replay=%s' % (self.prop, path))
            log('  ' + v['what'])
            rc = 1
        if rc == 0:
            broken = [v for v in unknown if not v['concrete']]
            if self.failed_obligations or broken:
                obj = {'property': self.prop, 'seed': self.seed, 'tier': self.tier,
                       'no_longer_checks': self.failed_obligations + [b['what'] for b in broken],
                       'details': [b['replay'] for b in broken][:5],
                       'note': 'a proof obligation or correspondence no longer checks; the violation search found no concrete failing input'}
                path = write_replay(self.prop, obj)
                print('VIOLATION property=%s replay=%s no-failing-input-found' % (self.prop, path))
                for f in obj['no_longer_checks'][:10]:
                    log('  ' + str(f))
                rc = 1
        self.write_evidence(len(self.violations))
        sys.stdout.flush()
        return rc

    def write_evidence(self, nviol):
        os.makedirs(EVID, exist_ok=True)
        cov = {
            'obligations': self.obligations,
            'discharged': self.discharged,
            'checker_cmd': self.checker_cmd,
            'trusted_base': TRUSTED_BASE + ['axioms per theorem (Print Assumptions): ' + json.dumps(self.assumptions, sort_keys=True)],
            'obligation_names': self.obl_names,
            'failed_obligations': self.failed_obligations,
            'evaluations': self.evaluations,
            'distinct_nontrivial': len(self.nontrivial),
            'rule': self.rule,
            'samples': self.samples[:8] if self.samples else ['(no correspondence cases in this run)'],
            'histogram': self.hist,
            'notes': self.notes,
        }
        cov.update(self.extra)
        ev = {
            'property_id': self.prop, 'tier': self.tier, 'seed': self.seed, 'level': 'proof',
            'coverage': cov, 'assumptions': self.assume, 'wall_s': round(time.time() - self.t0, 2),
            'violations': nviol,
        }
        json.dump(ev, open(os.path.join(EVID, self.prop + '.json'), 'w'), indent=1, sort_keys=True)


def rng_for(seed, prop_id):
    return random.Random('%s/%s' % (seed, prop_id))


def hx(n):
    return '%x' % n


def hxl(l):
    return ','.join('%x' % x for x in l)


def cps(s):
    """python str -> wire list of code points"""
    return ','.join('%x' % ord(c) for c in s)


def uncps(w):
    return ''.join(chr(int(x, 16)) for x in w.split(',')) if w else ''
