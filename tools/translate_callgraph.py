#!/usr/bin/env python3
"""Translator T(evaluator call graph): reads every `fn` of
rsjsonnet-lang/src/program/eval/*.rs in the CURRENT working tree and writes
coq/Gen/EvalCallGraph.v: one node per function name defined in those files,
an edge for every place where a function's body mentions another one

    self.NAME(   this.NAME(   Self::NAME(
    <anything>.NAME(            (method call on another receiver, NAME a method of these files)
    NAME(  module::NAME(        (free / nested functions)

(function-name based, so two functions of the same name are one node, and a
method call on any receiver counts: an over-approximation of the real graph).
`run` additionally gets an edge to every function installed as a handler
through `State::FnInfallible/FnFallible(Self::name)`.

Nodes are numbered in a depth-first post-order, so that in an acyclic graph
every callee precedes its callers; the Coq obligation `eval_callgraph_acyclic`
(Props/C10.v) decides by vm_compute that this is the case.  A new recursive
call (direct or mutual) makes the obligation fail.  Shapes the reader does not
understand raise.
"""
import os, re, sys
sys.path.insert(0, os.path.dirname(os.path.abspath(__file__)))
import translate_tracepush as tp

# names that are also methods of std types; a `.name(` on a non-self receiver is not a call of ours
STD_METHOD_NAMES = {'fmt', 'from', 'new', 'default', 'clone', 'eq', 'next', 'len', 'push', 'pop', 'get', 'iter',
                    'into', 'as_str', 'to_string', 'cmp', 'partial_cmp', 'hash', 'drop', 'deref', 'trace'}


def collect(repo):
    codes, fns = tp.read_eval(repo)
    names = sorted(set(f.name for f in fns))
    if len(names) < 100:
        raise tp.Shape('only %d functions found under %s' % (len(names), tp.EVAL_DIR))
    nameset = set(names)
    # which names are methods (take self): only those can be the target of `receiver.name(`
    methods = set()
    for f in fns:
        sig = f.code[f.start:f.open]
        if re.search(r'\(\s*(&\s*(\'\w+\s+)?)?(mut\s+)?self\b', sig):
            methods.add(f.name)
    edges = {n: set() for n in names}
    ident = re.compile(r'(?P<pre>(?:\b(?:self|this|Self)\s*(?:\.|::)\s*)|(?:\.\s*)|(?:\b\w+\s*::\s*))?(?P<name>\b[A-Za-z_]\w*)\s*(?P<turbo>::\s*<[^>;{}]*>\s*)?(?P<paren>\()?')
    for f in fns:
        body = f.body()
        for m in ident.finditer(body):
            name = m.group('name')
            if name not in nameset:
                continue
            pre = (m.group('pre') or '')
            pre_n = tp.norm(pre)
            if pre_n in ('self.', 'this.'):
                if not m.group('paren'):
                    continue              # a field of the same name
            elif pre_n == 'Self::':
                if not m.group('paren') and re.search(r'State\s*::\s*Fn(?:In)?[Ff]allible\s*\(\s*$', body[max(0, m.start() - 60):m.start()]):
                    continue              # function pointer installed as a handler: called by run (edge added below)
            elif pre_n == '.':
                if not m.group('paren') or name in STD_METHOD_NAMES or name not in methods:
                    continue              # field access / std method / not a method of ours
            elif pre_n.endswith('::'):
                if not m.group('paren'):
                    continue              # path to a type/variant, not a call
            else:
                if not m.group('paren'):
                    continue              # a local variable that shares a function's name
                # `fn name(` of a nested item was blanked with the nested body; a bare call
                before = body[max(0, m.start() - 4):m.start()]
                if re.search(r'\bfn\s+$', before):
                    continue
            edges[f.name].add(name)
    # handlers installed as function pointers are called by run
    for fname, code in codes.items():
        for m in re.finditer(r'State\s*::\s*Fn(?:In)?[Ff]allible\s*\(\s*Self\s*::\s*(\w+)\s*\)', code):
            if m.group(1) not in nameset:
                raise tp.Shape('function pointer to unknown method %s' % m.group(1))
            edges['run'].add(m.group(1))
    if 'run' not in nameset or 'eval' not in nameset:
        raise tp.Shape('run/eval not found')
    if 'run' not in edges['eval']:
        raise tp.Shape('eval does not call run: reader out of date')
    if len(edges['run']) < 100:
        raise tp.Shape('run has only %d callees: reader out of date' % len(edges['run']))
    # numbering: iterative DFS post-order (callee before caller when acyclic)
    order, state = [], {}
    for root in names:
        if root in state:
            continue
        stack = [(root, iter(sorted(edges[root])))]
        state[root] = 1
        while stack:
            node, it = stack[-1]
            adv = False
            for nxt in it:
                if nxt not in state:
                    state[nxt] = 1
                    stack.append((nxt, iter(sorted(edges[nxt]))))
                    adv = True
                    break
            if not adv:
                state[node] = 2
                order.append(node)
                stack.pop()
    num = {n: i for i, n in enumerate(order)}
    cyc = [(a, b) for a in names for b in edges[a] if num[b] >= num[a]]
    return order, num, edges, cyc


def render(order, num, edges):
    L = ['(* GENERATED by tools/translate_callgraph.py from %s/*.rs — do not edit *)' % tp.EVAL_DIR,
         'From RJ Require Import Base.Outcome Model.TraceLen.',
         'Local Open Scope N_scope.',
         'Local Open Scope string_scope.',
         'Definition eval_fn_names : list string := [',
         ';\n'.join('  "%s"' % n for n in order),
         '].',
         'Definition eval_callgraph : graph := [',
         ';\n'.join('  (%d, [%s])' % (num[n], '; '.join(str(num[b]) for b in sorted(edges[n], key=lambda x: num[x]))) for n in order),
         '].']
    return '\n'.join(L) + '\n'


def main(repo, out):
    order, num, edges, cyc = collect(repo)
    text = render(order, num, edges)
    old = open(out).read() if os.path.exists(out) else None
    if old != text:
        open(out, 'w').write(text)
    return {'nodes': len(order), 'edges': sum(len(v) for v in edges.values()),
            'back_edges': ['%s -> %s' % e for e in cyc]}


if __name__ == '__main__':
    print(main(sys.argv[1], sys.argv[2]))
