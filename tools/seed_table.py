#!/usr/bin/env python3
"""seed_table.py [--write] — Markdown table of the seeded breaking changes under /verif/seeded.

Reads every seeded/<name>/meta.json (written by tools/seed_confirm.py, extended by
tools/seed_recheck.py; a directory that so far only holds the independent agent's own meta.json is
listed as "not yet confirmed") and prints one row per seed:

  seed | property | what the change is | needs to manifest | seed valid |
  caught by `./check <property> quick` at confirmation | caught after strengthening

Nothing is run: the table only restates what the meta.json files record.
With --write the text between the markers <!-- SEED-TABLE-BEGIN --> and <!-- SEED-TABLE-END -->
in /verif/DESIGN.md is replaced by the table (the markers stay)."""
import sys, os, json, re

VERIF = os.path.dirname(os.path.dirname(os.path.abspath(__file__)))
SEEDED = os.path.join(VERIF, 'seeded')
DESIGN = os.path.join(VERIF, 'DESIGN.md')
BEGIN, END = '<!-- SEED-TABLE-BEGIN -->', '<!-- SEED-TABLE-END -->'


def one_line(s, limit):
    """collapse to one line, cut at a word boundary, make it safe inside a Markdown table cell"""
    s = re.sub(r'\s+', ' ', str(s or '')).strip()
    if not s:
        return 'not reported'
    if len(s) > limit:
        cut = s[:limit].rsplit(' ', 1)[0].rstrip(' ,;:(')
        s = cut + ' …'
    if s.count('`') % 2:          # a cut inside a code span would swallow the rest of the row
        s = s.replace('`', "'")
    return s.replace('|', '\\|')


def natural_key(name):
    return [int(t) if t.isdigit() else t for t in re.split(r'(\d+)', name)]


def load(name):
    path = os.path.join(SEEDED, name, 'meta.json')
    try:
        return json.load(open(path)), None
    except Exception as e:           # missing or half-written file: say so, never guess
        return None, '%s: %s' % (type(e).__name__, e)


def validity(cm, ia):
    """(text, valid?) — valid = patch applies, demo fails with / passes without, test suite passes"""
    if not cm:
        v = ia.get('verified') or {}
        if v:
            said = ['tests pass' if v.get('tests_pass_with_change') else 'tests NOT reported passing',
                    'demo fails with' if v.get('demo_fails_with_change') else 'demo NOT reported failing with',
                    'passes without' if v.get('demo_passes_without_change') else 'NOT reported passing without']
            return 'not yet confirmed (seeding agent reports: %s)' % ', '.join(said), None
        return 'not yet confirmed', None
    if not cm.get('patch_applies'):
        return 'NO: patch does not apply', False
    parts, ok = ['patch applies'], True
    rc_with, rc_without = cm.get('demo_with_change_rc'), cm.get('demo_without_change_rc')
    if rc_with is None:
        parts.append('demo with change: not reported'); ok = False
    elif rc_with != 0:
        parts.append('demo fails with (rc=%s)' % rc_with)
    else:
        parts.append('demo does NOT fail with'); ok = False
    if rc_without is None:
        parts.append('demo without change: not reported'); ok = False
    elif rc_without == 0:
        parts.append('passes without')
    else:
        parts.append('demo FAILS without (rc=%s)' % rc_without); ok = False
    t = cm.get('tests_pass_with_change')
    if t is None:
        parts.append('test suite: not run')
    elif t:
        parts.append('test suite passes')
    else:
        parts.append('test suite FAILS'); ok = False
    return ('yes: ' if ok else 'NO: ') + '; '.join(parts), ok


def check_cell(prop, c):
    """one check result of seed_confirm.py / seed_recheck.py -> (text, caught?)"""
    lines = c.get('lines') or []
    viol = [l for l in lines if l.startswith('VIOLATION')]
    caught = c.get('caught')
    if caught is None:
        caught = (c.get('rc') == 1)   # exit 1 is only ever returned together with a VIOLATION line (the stored line list is truncated)
    wall = c.get('wall_s')
    if caught:
        detail = (c.get('detail') or [])
        no_input = any('no-failing-input-found' in l for l in viol)
        txt = 'yes (%d VIOLATION line%s%s, %ss) — %s' % (
            len(viol), '' if len(viol) == 1 else 's', ', no-failing-input-found' if no_input else '',
            wall if wall is not None else '?', one_line(detail[0], 230) if detail else 'detail not recorded')
        return txt, True
    rc = c.get('rc')
    why = 'rc=%s' % rc
    if rc == -9:
        why = 'check timed out'
    elif rc not in (0, 1):
        why = 'check did not complete, rc=%s' % rc
    return 'no (%s, %ss)' % (why, wall if wall is not None else '?'), False


def row_for(name):
    meta, err = load(name)
    if meta is None:
        return [name, name.split('-')[0], 'meta.json unreadable (%s)' % one_line(err, 80), 'not reported',
                'not reported', 'not reported', '—'], None
    ia = meta.get('from_independent_agent')
    if ia is None and 'summary' in meta:       # only the seeding agent's own file so far
        ia = meta
    ia = ia or {}
    cm = meta.get('confirmed_by_main_session') or {}
    prop = meta.get('breaks_property') or ia.get('property') or cm.get('property') or name.split('-')[0]
    what = one_line(ia.get('summary'), 260)
    files = ia.get('files_changed') or []
    if files:
        what += ' [' + ', '.join(os.path.basename(f) for f in files) + ']'
    needs = one_line(ia.get('needs_to_manifest'), 240)
    valid_txt, valid = validity(cm, ia)
    # caught at confirmation
    checks = cm.get('checks') or {}
    caught0 = None
    if not cm:
        at_conf = 'not yet run'
    elif prop not in checks:
        at_conf = 'not run' + (' (%s)' % one_line(cm.get('patch_error'), 80) if cm.get('patch_error') else '')
    else:
        at_conf, caught0 = check_cell(prop, checks[prop])
        for other, c in checks.items():
            if other != prop:          # checks of neighbouring properties run with --also
                t, cg = check_cell(other, c)
                at_conf += '; also %s: %s' % (other, t.split(' — ')[0])
                caught0 = caught0 or cg
    # caught after strengthening
    rechecks = meta.get('rechecks') or []
    last = {}                      # property -> outcome of its LAST recheck
    if not rechecks:
        after = '—'
    else:
        parts = []
        for r in rechecks:
            res = r.get('result') or {}
            if 'error' in res:
                parts.append('recheck failed: ' + one_line(res['error'], 80))
                continue
            for p, c in res.items():
                t, cg = check_cell(p, c)
                last[p] = cg
                parts.append('%s%s @ /verif %s' % ('' if p == prop else p + ': ', t, r.get('verif_head', '?')))
        after = '; then '.join(parts) if parts else 'not reported'
    # caught after strengthening = the last recheck of some check (the seed's own property or a neighbour) caught it
    caught1 = any(last.values()) if last else None
    return [name, prop, what, needs, valid_txt, at_conf, after], {
        'valid': valid, 'caught0': caught0, 'caught1': caught1, 'confirmed': bool(cm)}


def table():
    names = sorted((d for d in os.listdir(SEEDED) if os.path.isdir(os.path.join(SEEDED, d))), key=natural_key) \
        if os.path.isdir(SEEDED) else []
    head = ['seed', 'property', 'what the change is (seeding agent\'s summary) [files]', 'needs to manifest',
            'seed valid (patch applies; demo fails with / passes without; test suite passes)',
            'caught by `./check <property> quick` at confirmation (first VIOLATION detail)',
            'caught after strengthening (`rechecks`)']
    out = ['| ' + ' | '.join(head) + ' |', '|' + '|'.join(['---'] * len(head)) + '|']
    stats = []
    for n in names:
        cells, st = row_for(n)
        out.append('| ' + ' | '.join(cells) + ' |')
        stats.append((n, st))
    known = [(n, s) for n, s in stats if s]
    confirmed = [(n, s) for n, s in known if s['confirmed']]
    valid = [(n, s) for n, s in confirmed if s['valid']]
    c0 = [n for n, s in valid if s['caught0']]
    c1 = [n for n, s in valid if not s['caught0'] and s['caught1']]
    missed = [n for n, s in valid if not s['caught0'] and not s['caught1']]
    pending = [n for n, s in known if not s['confirmed']]
    invalid = [n for n, s in confirmed if s['valid'] is False]
    out.append('')
    out.append('Totals (from the meta.json files, nothing re-run): %d seeds listed, %d confirmed by the main session, '
               '%d valid; of the valid ones %d caught at confirmation (by the quick check of their property, or of a '
               'neighbouring property run alongside), %d more by the last recheck after a check was strengthened, '
               '%d not caught so far%s.%s%s' % (
                   len(names), len(confirmed), len(valid), len(c0), len(c1), len(missed),
                   (' (' + ', '.join(missed) + ')') if missed else '',
                   (' Not yet confirmed: ' + ', '.join(pending) + '.') if pending else '',
                   (' Invalid seeds: ' + ', '.join(invalid) + '.') if invalid else ''))
    return '\n'.join(out)


def main():
    text = table()
    if '--write' in sys.argv[1:]:
        src = open(DESIGN, encoding='utf-8').read()
        i, j = src.find(BEGIN), src.find(END)
        if i < 0 or j < 0 or j < i:
            sys.stderr.write('markers %s / %s not found (in this order) in %s\n' % (BEGIN, END, DESIGN))
            return 2
        new = src[:i + len(BEGIN)] + '\n' + text + '\n' + src[j:]
        if new != src:
            open(DESIGN, 'w', encoding='utf-8').write(new)
        print('%s: table of %d lines written between the markers' % (DESIGN, text.count('\n') + 1))
    else:
        print(text)
    return 0


if __name__ == '__main__':
    sys.exit(main())
