#!/usr/bin/env python3
"""seed_confirm.py <Cxx> <seed-worktree> [<name>] — confirm a seeded breaking change and run our check on it.

The seed worktree (written by an independent sub-agent that saw only the property text) contains
out/patch.diff, out/demo.sh (+ inputs) and out/meta.json.  In a fresh scratch copy (worktree of /repo
HEAD + copy of /verif) this script confirms: the patch applies and builds; demo.sh fails with the
change; the repository's test suite passes with the change; demo.sh passes without the change; then runs
`check Cxx quick` (and the checks named in --also) on the changed scratch tree and records whether they
raise a VIOLATION.  Results go to /verif/seeded/<name>/ (patch.diff, demo files, meta.json)."""
import sys, os, subprocess, json, shutil, time, re

def sh(cmd, cwd=None, timeout=7200, env=None):
    e = dict(os.environ)
    e['CARGO_NET_OFFLINE'] = 'true'
    if env:
        e.update(env)
    try:
        p = subprocess.run(cmd, shell=True, cwd=cwd, stdout=subprocess.PIPE, stderr=subprocess.STDOUT, timeout=timeout, env=e, text=True, errors='replace')
        return p.returncode, p.stdout
    except subprocess.TimeoutExpired as ex:
        return -9, (ex.stdout or '') if isinstance(ex.stdout, str) else ''

def main():
    args = [a for a in sys.argv[1:] if not a.startswith('--')]
    also = []
    for a in sys.argv[1:]:
        if a.startswith('--also='):
            also = a[7:].split(',')
    skip_tests = '--skip-tests' in sys.argv
    pid, seed = args[0], args[1].rstrip('/')
    name = args[2] if len(args) > 2 else os.path.basename(seed)
    out = os.path.join(seed, 'out')
    dest = os.path.join('/verif/seeded', name)
    os.makedirs(dest, exist_ok=True)
    for f in os.listdir(out):
        src = os.path.join(out, f)
        if os.path.isfile(src) and os.path.getsize(src) < 2_000_000:
            shutil.copy(src, os.path.join(dest, f))
        elif os.path.isdir(src) and f not in ('target',):
            shutil.copytree(src, os.path.join(dest, f), dirs_exist_ok=True, ignore=shutil.ignore_patterns('target', 'Cargo.lock'))
    seed_meta = {}
    try:
        seed_meta = json.load(open(os.path.join(out, 'meta.json')))
    except Exception as e:
        seed_meta = {'error': 'meta.json unreadable: %s' % e}
    sname = 'seed-' + name
    sh('/verif/tools/scratch.sh rm %s' % sname)
    rc, o = sh('/verif/tools/scratch.sh new %s' % sname)
    root = '/tmp/rsjv-%s' % sname
    repo, verif = root + '/repo', root + '/verif'
    res = {'property': pid, 'seed_dir': seed, 'repo_head': sh('git -C /repo rev-parse --short HEAD')[1].strip(),
           'verif_head': sh('git -C /verif rev-parse --short HEAD')[1].strip(), 'when': time.strftime('%Y-%m-%d %H:%M:%S')}
    try:
        rc, o = sh('git apply --whitespace=nowarn %s/patch.diff' % out, cwd=repo)
        if rc != 0:
            rc, o = sh('git apply --3way --whitespace=nowarn %s/patch.diff' % out, cwd=repo)
        res['patch_applies'] = (rc == 0)
        if rc != 0:
            res['patch_error'] = o[-500:]
            return finish(res, seed_meta, dest)
        shutil.copytree(out, repo + '/out', dirs_exist_ok=True, ignore=shutil.ignore_patterns('target'))
        sh('chmod +x out/demo.sh', cwd=repo)
        # demo with the change: must fail
        rc, o = sh('bash out/demo.sh', cwd=repo, timeout=3600)
        res['demo_with_change_rc'] = rc
        res['demo_with_change_tail'] = o[-400:]
        # our checks on the changed tree
        res['checks'] = {}
        for c in [pid] + also:
            t0 = time.time()
            rc, o = sh('%s/check %s quick' % (verif, c), timeout=3600, env={'VERIF_REPO': repo})
            lines = [l for l in o.split('\n') if l.startswith('VIOLATION')]
            res['checks'][c] = {'rc': rc, 'wall_s': round(time.time() - t0), 'lines': lines[:6],
                                'detail': [l.strip() for l in o.split('\n') if l.startswith('  ')][:6]}
        # test suite with the change: must pass
        if not skip_tests:
            rc, o = sh('cargo test --workspace --no-fail-fast --offline 2>&1 | grep -E "^test result|FAILED|failed|panicked" | head -40', cwd=repo, timeout=7200, env={'CARGO_TARGET_DIR': os.environ.get('SEED_TGT', '/tmp/seedwork/tgt-tests')})
            fails = [l for l in o.split('\n') if 'FAILED' in l or ('failed' in l and 'test result' in l and ' 0 failed' not in l)]
            res['tests_pass_with_change'] = (not fails and 'test result' in o)
            res['tests_tail'] = o[-600:]
        # without the change: demo must pass
        sh('git apply -R --whitespace=nowarn %s/patch.diff' % out, cwd=repo)
        rc, o = sh('bash out/demo.sh', cwd=repo, timeout=3600)
        res['demo_without_change_rc'] = rc
    finally:
        sh('/verif/tools/scratch.sh rm %s' % sname)
    return finish(res, seed_meta, dest)

def finish(res, seed_meta, dest):
    meta = {'breaks_property': res['property'], 'from_independent_agent': seed_meta, 'confirmed_by_main_session': res}
    json.dump(meta, open(os.path.join(dest, 'meta.json'), 'w'), indent=1)
    ok = res.get('patch_applies') and res.get('demo_with_change_rc', 0) != 0 and res.get('demo_without_change_rc', 1) == 0 \
        and res.get('tests_pass_with_change', True)
    caught = {c: (v['rc'] == 1) for c, v in res.get('checks', {}).items()}
    print(json.dumps({'seed_valid': bool(ok), 'caught': caught, 'demo_rc': res.get('demo_with_change_rc'), 'demo_clean_rc': res.get('demo_without_change_rc'),
                      'tests': res.get('tests_pass_with_change'), 'lines': {c: v['lines'][:2] + v['detail'][:2] for c, v in res.get('checks', {}).items()}}, indent=1))
    return 0

if __name__ == '__main__':
    sys.exit(main())
