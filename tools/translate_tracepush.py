#!/usr/bin/env python3
"""Translator T(trace push words): reads rsjsonnet-lang/src/program/eval/*.rs of the
CURRENT working tree and writes coq/Gen/TraceWords.v.

For every handler block of the evaluator (each arm of `match state` in
`Evaluator::run`, every method installed as a function pointer through
`State::FnInfallible/FnFallible(Self::name)`, and each input arm of
`Evaluator::eval`) it emits the *tree* of state pushes in textual order:

    T  = self.push_trace_item(..)      D = self.delay_trace_item()
    O  = (self|this).state_stack.push(..)
    TSeq / TOpt (if, else, match arm, plain block, struct literal) /
    TStar (for, while, loop)

with calls to helper methods of the same files inlined at the point of the
call (after their arguments).  The Coq obligation `handler_words_balanced`
(Props/C10.v) then decides by vm_compute that every word such a tree can
produce has, in every prefix, at least as many T as D.

It also checks, textually, that the primitives are the ones Model/TraceLen.v
models (push_trace_item, delay_trace_item, inc/dec_trace_len, the two arms of
`run`, the overflow test, get_stack_trace) and that nothing else touches
`stack_trace_len`, `State::TraceItem`, `State::DelayedTraceItem` or pops the
state stack.  Any shape it does not understand raises (the obligation fails).
"""
import os, re, sys, glob

EVAL_DIR = 'rsjsonnet-lang/src/program/eval'


class Shape(Exception):
    pass


# ---------------------------------------------------------------- lexical layer

def blank_noncode(src):
    """replace comments, string/char literal contents by spaces (same length, newlines kept)"""
    out = list(src)
    i, n = 0, len(src)

    def blank(a, b):
        for k in range(a, b):
            if out[k] != '\n':
                out[k] = ' '

    while i < n:
        c = src[i]
        if src.startswith('//', i):
            j = src.find('\n', i)
            j = n if j < 0 else j
            blank(i, j)
            i = j
        elif src.startswith('/*', i):
            depth, j = 1, i + 2
            while j < n and depth:
                if src.startswith('/*', j):
                    depth += 1; j += 2
                elif src.startswith('*/', j):
                    depth -= 1; j += 2
                else:
                    j += 1
            blank(i, j)
            i = j
        elif c == 'r' and re.match(r'r#*"', src[i:i + 12]) and (i == 0 or not (src[i - 1].isalnum() or src[i - 1] == '_')):
            m = re.match(r'r(#*)"', src[i:])
            close = '"' + m.group(1)
            j = src.find(close, i + len(m.group(0)))
            if j < 0:
                raise Shape('unterminated raw string')
            blank(i + len(m.group(0)), j)
            i = j + len(close)
        elif c == '"':
            j = i + 1
            while j < n and src[j] != '"':
                j += 2 if src[j] == '\\' else 1
            blank(i + 1, j)
            i = j + 1
        elif c == "'":
            # char literal or lifetime
            m = re.match(r"'(\\.[^']*|[^\\'])'", src[i:])
            if m:
                blank(i + 1, i + len(m.group(0)) - 1)
                i += len(m.group(0))
            else:
                i += 1
        else:
            i += 1
    return ''.join(out)


def match_brace(code, i):
    """code[i] == '{' -> index of the matching '}'"""
    depth = 0
    for j in range(i, len(code)):
        if code[j] == '{':
            depth += 1
        elif code[j] == '}':
            depth -= 1
            if depth == 0:
                return j
    raise Shape('unbalanced braces')


class Fn:
    def __init__(self, file, name, start, body_open, body_close, code):
        self.file, self.name = file, name
        self.start, self.open, self.close = start, body_open, body_close
        self.code = code            # whole blanked file text
        self.nested = []            # nested fn items (excluded from this body)

    def body(self):
        """body text with nested fn items blanked out"""
        t = list(self.code[self.open + 1:self.close])
        for f in self.nested:
            for k in range(f.start - self.open - 1, f.close + 1 - self.open - 1):
                if t[k] != '\n':
                    t[k] = ' '
        return ''.join(t)


def read_eval(repo):
    """-> (dict file -> blanked code, list of Fn)"""
    files = sorted(glob.glob(os.path.join(repo, EVAL_DIR, '*.rs')))
    if len(files) < 5:
        raise Shape('expected the evaluator sources under %s' % EVAL_DIR)
    codes, fns = {}, []
    for p in files:
        code = blank_noncode(open(p, encoding='utf-8').read())
        fname = os.path.basename(p)
        codes[fname] = code
        local = []
        for m in re.finditer(r'\bfn\s+([A-Za-z_]\w*)', code):
            # body = first '{' at paren depth 0 after the signature; ';' first = declaration only
            j, depth = m.end(), 0
            while j < len(code):
                ch = code[j]
                if ch in '([':
                    depth += 1
                elif ch in ')]':
                    depth -= 1
                elif ch == '{' and depth == 0:
                    break
                elif ch == ';' and depth == 0:
                    j = -1
                    break
                j += 1
            if j < 0 or j >= len(code):
                continue
            local.append(Fn(fname, m.group(1), m.start(), j, match_brace(code, j), code))
        for f in local:
            for g in local:
                if g is not f and f.open < g.start and g.close < f.close:
                    # direct nesting only
                    if not any(h is not f and h is not g and f.open < h.start and h.close < f.close
                               and h.open < g.start and g.close < h.close for h in local):
                        f.nested.append(g)
        fns += local
    return codes, fns


# ---------------------------------------------------------------- primitives

def norm(s):
    return re.sub(r'\s+', '', s)


PRIMS = {
    'push_trace_item': 'self.state_stack.push(State::TraceItem(item));self.inc_trace_len();',
    'delay_trace_item': 'self.state_stack.push(State::DelayedTraceItem);self.dec_trace_len();',
    'inc_trace_len': 'self.stack_trace_len+=1;',
    'dec_trace_len': 'self.stack_trace_len=self.stack_trace_len.checked_sub(1).unwrap();',
}


def check_primitives(codes, fns):
    byname = {}
    for f in fns:
        byname.setdefault(f.name, []).append(f)
    for name, want in PRIMS.items():
        fs = byname.get(name, [])
        if len(fs) != 1 or fs[0].file != 'mod.rs':
            raise Shape('expected exactly one fn %s in mod.rs' % name)
        if norm(fs[0].body()) != want:
            raise Shape('fn %s is not the modelled primitive: %s' % (name, norm(fs[0].body())))
    allcode = ''.join(codes[k] for k in sorted(codes))
    # stack_trace_len: declaration, initialisation, final assert, overflow test, inc, dec (2 occurrences)
    uses = [norm(l) for l in allcode.split('\n') if 'stack_trace_len' in l]
    want = sorted(['stack_trace_len:usize,', 'stack_trace_len:0,', 'assert_eq!(this.stack_trace_len,0);',
                   'ifself.stack_trace_len>self.program.max_stack{', 'self.stack_trace_len+=1;',
                   'self.stack_trace_len=self.stack_trace_len.checked_sub(1).unwrap();'])
    if sorted(uses) != want:
        raise Shape('unexpected uses of stack_trace_len: %r' % sorted(uses))
    # the constructors appear only in the primitives, the two arms of run and get_stack_trace
    uses = sorted(norm(l) for l in allcode.split('\n') if re.search(r'\bTraceItem\s*\(|DelayedTraceItem', l) and 'enum' not in l)
    want = sorted(['self.state_stack.push(State::TraceItem(item));', 'self.state_stack.push(State::DelayedTraceItem);',
                   'State::TraceItem(_)=>{', 'State::DelayedTraceItem=>{',
                   'State::TraceItem(trace_item)=>{', 'State::DelayedTraceItem=>{',
                   'TraceItem(TraceItem<\'p>),', 'DelayedTraceItem,'])
    if uses != want:
        raise Shape('unexpected uses of State::TraceItem / DelayedTraceItem: %r' % uses)
    # state_stack is only pushed to, popped by the loop of run, iterated by get_stack_trace, tested by eval
    for fname, code in codes.items():
        for m in re.finditer(r'\bstate_stack\b\s*(\.\s*\w+|[^\s.])', code):
            what = norm(m.group(1))
            line = norm(code[code.rfind('\n', 0, m.start()) + 1:code.find('\n', m.end())])
            if what == '.push':
                continue
            ok = (line in ('state_stack:Vec<State<\'a,\'p>>,', 'state_stack:Vec::new(),',
                           'assert!(this.state_stack.is_empty());',
                           'whileletSome(state)=self.state_stack.pop(){',
                           'forstack_iteminself.state_stack.iter(){',
                           'forstateinself.state_stack.iter(){')      # fn abort (read-only walk after a failed run)
                  or line == 'self.state_stack' or line == 'this.state_stack')
            if not ok:
                raise Shape('unexpected use of state_stack in %s: %s' % (fname, line))
    run = [f for f in byname.get('run', []) if f.file == 'mod.rs']
    if len(run) != 1:
        raise Shape('expected exactly one fn run in mod.rs')
    rb = norm(run[0].body())
    if not rb.startswith('whileletSome(state)=self.state_stack.pop(){matchstate{'):
        raise Shape('fn run does not start with the modelled loop')
    if not rb.endswith('}ifself.stack_trace_len>self.program.max_stack{returnErr(self.report_error(EvalErrorKind::StackOverflow));}self.program.maybe_gc();}Ok(())'):
        raise Shape('fn run does not end with the modelled overflow test')
    for arm in ('State::TraceItem(_)=>{self.dec_trace_len();}', 'State::DelayedTraceItem=>{self.inc_trace_len();}',
                'State::FnInfallible(f)=>f(self),', 'State::FnFallible(f)=>f(self)?,'):
        if arm not in rb:
            raise Shape('fn run lacks the modelled arm %s' % arm)
    gst = byname.get('get_stack_trace', [])
    if len(gst) != 1:
        raise Shape('expected exactly one fn get_stack_trace')
    gb = norm(gst[0].body())
    if not (gb.startswith('letmutstack_trace=Vec::new();forstack_iteminself.state_stack.iter(){') and
            gb.endswith('matchstack_item{State::TraceItem(trace_item)=>{stack_trace.push(conv_trace_item(trace_item));}'
                        'State::DelayedTraceItem=>{stack_trace.pop().unwrap();}_=>{}}}stack_trace')):
        raise Shape('fn get_stack_trace is not the modelled walk')
    rep = byname.get('report_error', [])
    if len(rep) != 1 or norm(rep[0].body()) != 'Box::new(EvalError{stack_trace:self.get_stack_trace(),kind:error_kind,})':
        raise Shape('fn report_error is not the modelled one')
    ev = [f for f in byname.get('eval', []) if f.file == 'mod.rs']
    if len(ev) != 1 or norm(ev[0].body()).count('this.run()') != 1:
        raise Shape('fn eval does not call run exactly once')
    ab = byname.get('abort', [])
    if ab and norm(ab[0].body()) != ('forstateinself.state_stack.iter(){matchstate{State::GotThunk(thunk)=>thunk.restore_pending(),'
                                     'State::ObjectAsserts(object)=>object.asserts_checked.set(false),_=>{}}}'):
        raise Shape('fn abort is not the read-only walk this reader knows')
    return run[0], ev[0]


# ---------------------------------------------------------------- trees

def T(kind, *kids):
    return (kind,) + kids


def seq(items):
    items = [x for x in items if x != ('emp',)]
    if not items:
        return ('emp',)
    t = items[-1]
    for x in reversed(items[:-1]):
        t = ('seq', x, t)
    return t


def opt(t):
    if t == ('emp',) or t[0] == 'opt' or t[0] == 'star':
        return t
    return ('opt', t)


def star(t):
    if t == ('emp',):
        return t
    if t[0] in ('opt', 'star'):
        t = t[1]
    return ('star', t)


LOOP = re.compile(r"^('\w+\s*:\s*)?(for|while|loop)\b")
CLOSURE_TAIL = re.compile(r'(\|[^|{};]*\||\|\|)\s*(->\s*[^{;]+)?$')


def build_tree(text, effect_of, where):
    """text: a fn body / arm (blanked code).  effect_of(name) -> tree or None for helper calls.
    Returns the tree of pushes in execution order."""
    # frames: dict(kind, items, star, closure)
    root = {'kind': 'root', 'items': []}
    stack = [root]
    i, n = 0, len(text)
    stmt_start = 0   # start of the current statement header (for block classification)

    def emit(t):
        stack[-1]['items'].append(t)

    def close_arm():
        fr = stack.pop()
        stack[-1]['items'].append(opt(seq(fr['items'])))

    tok = re.compile(r"(?P<push>\b(?:self|this)\s*\.\s*state_stack\s*\.\s*push\s*\()"
                     r"|(?P<call>\b(?:self|this)\s*\.\s*(?P<cname>[A-Za-z_]\w*)\s*(?:::\s*<[^>]*>\s*)?\()"
                     r"|(?P<scall>\bSelf\s*::\s*(?P<sname>[A-Za-z_]\w*)\s*\()"
                     r"|(?P<arrow>=>)"
                     r"|(?P<ch>[{}()\[\],;])")
    while True:
        m = tok.search(text, i)
        if not m:
            break
        i = m.end()
        if m.group('push'):
            stack.append({'kind': 'paren', 'items': [], 'after': ('sym', 'O')})
        elif m.group('call') or m.group('scall'):
            name = m.group('cname') or m.group('sname')
            if name == 'push_trace_item':
                after = ('sym', 'T')
            elif name == 'delay_trace_item':
                after = ('sym', 'D')
            elif name in ('inc_trace_len', 'dec_trace_len'):
                raise Shape('%s: direct call of %s outside the modelled primitives' % (where, name))
            else:
                after = effect_of(name)
            stack.append({'kind': 'paren', 'items': [], 'after': after})
        elif m.group('arrow'):
            k = i
            while k < n and text[k].isspace():
                k += 1
            if k < n and text[k] == '{':
                pass   # the brace block is the arm
            else:
                stack.append({'kind': 'arm', 'items': []})
        else:
            ch = m.group('ch')
            if ch == '{':
                header = text[stmt_start:m.start()]
                # header = text since the last boundary at this level
                hs = header.strip()
                is_loop = bool(LOOP.match(hs))
                is_closure = bool(CLOSURE_TAIL.search(hs))
                stack.append({'kind': 'brace', 'items': [], 'loop': is_loop, 'closure': is_closure, 'hdr': hs[-60:]})
                stmt_start = i
            elif ch in '([':
                stack.append({'kind': 'paren', 'items': [], 'after': None})
            elif ch in ')]':
                if stack[-1]['kind'] == 'arm':
                    close_arm()
                fr = stack.pop()
                if fr['kind'] != 'paren':
                    raise Shape('%s: bracket structure not understood near offset %d' % (where, i))
                items = fr['items'] + ([fr['after']] if fr['after'] else [])
                stack[-1]['items'] += items
            elif ch == '}':
                if stack[-1]['kind'] == 'arm':
                    close_arm()
                fr = stack.pop()
                if fr['kind'] != 'brace':
                    raise Shape('%s: brace structure not understood near offset %d' % (where, i))
                t = seq(fr['items'])
                if fr['closure'] and t != ('emp',):
                    raise Shape('%s: state pushes inside a closure (%s)' % (where, fr['hdr']))
                stack[-1]['items'].append(star(t) if fr['loop'] else opt(t))
                stmt_start = i
            elif ch == ',':
                if stack[-1]['kind'] == 'arm':
                    close_arm()
                    stmt_start = i
                elif stack[-1]['kind'] == 'brace':
                    stmt_start = i
            elif ch == ';':
                if stack[-1]['kind'] == 'arm':
                    raise Shape('%s: `;` inside a brace-less match arm' % where)
                if stack[-1]['kind'] == 'brace' or stack[-1]['kind'] == 'root':
                    stmt_start = i
    while stack[-1]['kind'] == 'arm':
        close_arm()
    if len(stack) != 1:
        raise Shape('%s: unbalanced block structure' % where)
    return seq(root['items'])


def braceless_closure_guard(text, names, where):
    """a closure without braces whose body pushes states is a shape we do not handle"""
    pat = re.compile(r'\|[^|\n;{}]*\|\s*(?:self|this)\s*\.\s*(state_stack|%s)\b' % '|'.join(map(re.escape, names)))
    m = pat.search(text)
    if m:
        raise Shape('%s: closure without a block performs a state push: %s' % (where, m.group(0)))


def split_match_arms(body, where):
    """body of `match state { ... }` -> list of (pattern text, arm text)"""
    arms = []
    i, n = 0, len(body)
    while True:
        while i < n and (body[i].isspace() or body[i] == ','):
            i += 1
        if i >= n:
            break
        # pattern up to `=>` at depth 0
        depth, j = 0, i
        while j < n:
            c = body[j]
            if c in '({[':
                depth += 1
            elif c in ')}]':
                depth -= 1
            elif depth == 0 and body.startswith('=>', j):
                break
            j += 1
        if j >= n:
            raise Shape('%s: match arm without =>' % where)
        pat = body[i:j].strip()
        k = j + 2
        while k < n and body[k].isspace():
            k += 1
        if k < n and body[k] == '{':
            e = match_brace(body, k)
            arms.append((pat, body[k:e + 1]))
            i = e + 1
        else:
            depth, e = 0, k
            while e < n:
                c = body[e]
                if c in '({[':
                    depth += 1
                elif c in ')}]':
                    depth -= 1
                elif c == ',' and depth == 0:
                    break
                e += 1
            arms.append((pat, body[k:e]))
            i = e + 1
    return arms


def collect(repo):
    codes, fns = read_eval(repo)
    run_fn, eval_fn = check_primitives(codes, fns)
    byname = {}
    for f in fns:
        byname.setdefault(f.name, []).append(f)
    methods = {}   # name -> Fn (methods/fns callable through self./Self::); duplicates are a shape error if effectful
    cache = {}
    visiting = []
    helpers = {}        # name -> tree of an effectful helper (emitted once, referenced by name)
    helper_order = []   # callees before callers

    def effect_of(name):
        if name in ('run',):
            raise Shape('call of run from inside the evaluator (%s)' % ' > '.join(visiting))
        fs = byname.get(name)
        if not fs:
            return None      # not defined in these files (Vec method, Program method, ...)
        trees = []
        for f in fs:
            key = (f.file, f.name, f.start)
            if key in visiting:
                raise Shape('recursive helper call: %s' % ' > '.join('%s:%s' % (a, b) for a, b, _ in visiting + [key]))
            if key not in cache:
                visiting.append(key)
                cache[key] = build_tree(f.body(), effect_of, '%s:%s' % (f.file, f.name))
                visiting.pop()
            trees.append(cache[key])
        trees = [t for t in trees if t != ('emp',)]
        if not trees:
            return None
        if len(trees) > 1:
            raise Shape('two effectful functions named %s' % name)
        if name not in helper_order:
            helper_order.append(name)
            helpers[name] = trees[0]
        return ('ref', name)

    PRIM = set(PRIMS) | {'run', 'eval', 'get_stack_trace', 'report_error'}
    # which helpers push states (for the brace-less closure guard)
    effectful = ['push_trace_item', 'delay_trace_item']
    for f in fns:
        if f.name in PRIM:
            continue
        if effect_of(f.name) is not None:
            effectful.append(f.name)
    for f in fns:
        braceless_closure_guard(f.body(), effectful, '%s:%s' % (f.file, f.name))

    handlers = []
    # arms of run
    rb = run_fn.body()
    m = re.search(r'match\s+state\s*\{', rb)
    if not m:
        raise Shape('no `match state` in run')
    mo = m.end() - 1
    mc = match_brace(rb, mo)
    arms = split_match_arms(rb[mo + 1:mc], 'mod.rs:run')
    if len(arms) < 50:
        raise Shape('only %d arms found in run' % len(arms))
    for pat, arm in arms:
        pname = re.sub(r'\s+', ' ', pat)
        pname = re.sub(r'\s*\{.*$', '', pname)
        pname = re.sub(r'\(.*$', '', pname)
        if pname in ('State::TraceItem', 'State::DelayedTraceItem'):
            continue     # the two primitive arms, checked textually above and modelled in TraceLen.step
        handlers.append(('run/' + pname, build_tree(arm, effect_of, 'mod.rs:run/' + pname)))
    # function-pointer handlers
    ptrs = set()
    for fname, code in codes.items():
        for m in re.finditer(r'State\s*::\s*Fn(?:In)?[Ff]allible\s*\(([^)]*)\)', code):
            arg = norm(m.group(1))
            if arg == 'f':
                continue     # the patterns in run
            mm = re.fullmatch(r'Self::(\w+)', arg)
            if not mm:
                raise Shape('State::Fn*allible constructed from %r' % arg)
            ptrs.add(mm.group(1))
    for name in sorted(ptrs):
        if name not in byname:
            raise Shape('function pointer to unknown method %s' % name)
        t = effect_of(name)
        handlers.append(('fn/' + name, t if t is not None else ('emp',)))
    # local (non-error) exits are only understood in functions that push no trace item
    def has_td(t):
        if t[0] == 'sym':
            return t[1] in 'TD'
        if t[0] == 'ref':
            return has_td(helpers[t[1]])
        return any(has_td(x) for x in t[1:] if isinstance(x, tuple))
    for f in fns:
        if f.name in PRIM:
            continue
        b = f.body()
        if re.search(r'\b(break|continue)\b', b) or re.search(r'\breturn\b(?!\s*Err\b)', b):
            key = (f.file, f.name, f.start)
            t = cache.get(key)
            if t is None:
                t = build_tree(b, effect_of, '%s:%s' % (f.file, f.name))
            if has_td(t):
                raise Shape('%s:%s has a non-error early exit (break/continue/return) and pushes trace items' % (f.file, f.name))
    # eval: the initial pushes (everything before this.run())
    eb = eval_fn.body()
    cut = eb.find('this.run()')
    # keep the bracket structure balanced: blank everything from the call on
    pre = eb[:cut]
    inits = [('eval/init', build_tree(pre, effect_of, 'mod.rs:eval'))]
    post = eb[cut + len('this.run()'):]
    if re.search(r'state_stack\s*\.\s*push|push_trace_item|delay_trace_item', post):
        raise Shape('eval pushes states after run()')
    return handlers, inits, [(n, helpers[n]) for n in helper_order], {'fns': len(fns), 'arms': len(arms), 'ptrs': len(ptrs)}, core_thunk_forces(codes, fns)


def core_thunk_forces(codes, fns):
    """every `state_stack.push(State::DoThunk(x))` of the core-language files (mod.rs, expr.rs) with whether a
    `push_trace_item(` precedes it inside the same innermost block — i.e. whether the force of the thunk is
    framed.  The initial pushes of fn eval (the top-level thunk, depth 0) are the only unframed ones allowed;
    builtins (call.rs, stdlib.rs, ...) force their arguments under the Call frame pushed by the caller and are
    not listed."""
    out = []
    for fname in ('mod.rs', 'expr.rs'):
        code = codes[fname]
        for m in re.finditer(r'state_stack\s*\.\s*push\s*\(\s*State\s*::\s*DoThunk\s*\(', code):
            # innermost enclosing block
            depth, j = 0, m.start()
            while j >= 0:
                if code[j] == '}':
                    depth += 1
                elif code[j] == '{':
                    if depth == 0:
                        break
                    depth -= 1
                j -= 1
            if j < 0:
                raise Shape('DoThunk push outside any block in %s' % fname)
            framed = 'push_trace_item' in code[j:m.start()]
            owner = [f for f in fns if f.file == fname and f.open < m.start() < f.close]
            owner = min(owner, key=lambda f: f.close - f.open).name if owner else '?'
            c = code.find(')', m.end())
            arg = norm(code[m.end():c])
            out.append(('%s:%s' % (fname, owner), arg, framed or owner == 'eval'))
    if len(out) < 15:
        raise Shape('only %d DoThunk pushes found in mod.rs/expr.rs' % len(out))
    return out


# ---------------------------------------------------------------- output

def coq_tree(t):
    k = t[0]
    if k == 'emp':
        return 'TEmp'
    if k == 'ref':
        return 'h_' + t[1]
    if k == 'sym':
        return {'T': 'TSym ST', 'D': 'TSym SD', 'O': 'TSym SO'}[t[1]]
    if k == 'seq':
        return '(TSeq %s %s)' % (coq_tree_a(t[1]), coq_tree_a(t[2]))
    if k == 'opt':
        return '(TOpt %s)' % coq_tree_a(t[1])
    if k == 'star':
        return '(TStar %s)' % coq_tree_a(t[1])
    raise Shape('bad tree')


def coq_tree_a(t):
    s = coq_tree(t)
    return s if s.startswith('(') or ' ' not in s else '(%s)' % s


def count(t, s):
    if t[0] == 'sym':
        return 1 if t[1] == s else 0
    if t[0] == 'ref':
        return 0
    return sum(count(x, s) for x in t[1:] if isinstance(x, tuple))


def render(handlers, inits, helpers, forces):
    L = ['(* GENERATED by tools/translate_tracepush.py from %s/*.rs — do not edit *)' % EVAL_DIR,
         'From RJ Require Import Base.Outcome Model.TraceLen.',
         'Local Open Scope string_scope.']
    for n, t in helpers:
        L.append('Definition h_%s : tree := %s.' % (n, coq_tree(t)))
    L += ['Definition handler_trees : list (string * tree) := [']
    rows = ['  ("%s", %s)' % (n, coq_tree(t)) for n, t in handlers]
    L[-1] += '\n' + ';\n'.join(rows)
    L.append('].')
    L.append('Definition init_trees : list (string * tree) := [')
    L.append(';\n'.join('  ("%s", %s)' % (n, coq_tree(t)) for n, t in inits))
    L.append('].')
    L.append('Definition core_thunk_forces : list (string * string * bool) := [')
    L.append(';\n'.join('  ("%s", "%s", %s)' % (a, b, 'true' if c else 'false') for a, b, c in forces))
    L.append('].')
    return '\n'.join(L) + '\n'


def main(repo, out):
    handlers, inits, helpers, stats, forces = collect(repo)
    text = render(handlers, inits, helpers, forces)
    stats['core_thunk_forces'] = len(forces)
    stats['unframed'] = [f for f in forces if not f[2]]
    old = open(out).read() if os.path.exists(out) else None
    if old != text:
        open(out, 'w').write(text)
    stats['handlers'] = len(handlers)
    stats['helpers'] = len(helpers)
    every = [t for _, t in handlers] + [t for _, t in helpers] + [t for _, t in inits]
    stats['T'] = sum(count(t, 'T') for t in every)
    stats['D'] = sum(count(t, 'D') for t in every)
    stats['O'] = sum(count(t, 'O') for t in every)
    return stats


if __name__ == '__main__':
    print(main(sys.argv[1], sys.argv[2]))
