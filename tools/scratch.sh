#!/bin/bash
# scratch.sh — isolated copy of /repo (git worktree) + /verif for mutation experiments.
#   tools/scratch.sh new <name>     -> creates /tmp/rsjv-<name>/{repo,verif}; prints how to use it
#   tools/scratch.sh rm <name>      -> removes both (and the worktree registration)
# Inside the scratch: apply a change under /tmp/rsjv-<name>/repo, then run
#   VERIF_REPO=/tmp/rsjv-<name>/repo /tmp/rsjv-<name>/verif/check Cxx quick
# Nothing in /repo or /verif is touched.
set -e
cmd="$1"; name="$2"
[ -n "$cmd" ] && [ -n "$name" ] || { echo "usage: $0 new|rm <name>"; exit 2; }
root="/tmp/rsjv-$name"
case "$cmd" in
  new)
    mkdir -p "$root"
    git -C /repo worktree add --detach "$root/repo" HEAD >/dev/null 2>&1
    mkdir -p "$root/verif"
    rsync -a --exclude 'harness/target-cli' --exclude '.git' --exclude 'evidence/replay' /verif/ "$root/verif/"
    echo "scratch repo : $root/repo"
    echo "scratch verif: $root/verif"
    echo "run: VERIF_REPO=$root/repo $root/verif/check Cxx quick"
    ;;
  rm)
    git -C /repo worktree remove --force "$root/repo" >/dev/null 2>&1 || true
    rm -rf "$root"
    git -C /repo worktree prune
    ;;
esac
