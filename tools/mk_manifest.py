#!/usr/bin/env python3
"""Assemble /verif/MANIFEST.json from tools/props/cXX.manifest.json fragments.
A property is claimed when its plugin, fragment and Props file exist and it is listed in CLAIMED
(or --all-built).  Everything else goes to not_applicable with its reason."""
import json, os, sys, glob
V = os.path.dirname(os.path.dirname(os.path.abspath(__file__)))
props = [json.loads(l) for l in open(os.path.join(V, 'properties.jsonl'))]
na_reasons = {}
p = os.path.join(V, 'tools', 'not_claimed.json')
if os.path.exists(p):
    na_reasons = json.load(open(p))
checks, na, claimed = [], [], []
# properties whose check the main session has verified on the current tree (one id per line)
verified = set(l.strip() for l in open(os.path.join(V, 'tools', 'claimed.txt')) if l.strip())
for pr in props:
    pid = pr['id']
    frag = os.path.join(V, 'tools', 'props', pid.lower() + '.manifest.json')
    plug = os.path.join(V, 'tools', 'props', pid.lower() + '.py')
    pv = os.path.join(V, 'coq', 'Props', pid + '.v')
    if pid in verified and os.path.exists(frag) and os.path.exists(plug) and os.path.exists(pv) and pid not in na_reasons:
        f = json.load(open(frag))
        claimed.append(pid)
        checks.append({
            "property_id": pid,
            "quick_cmd": "./check %s quick" % pid,
            "thorough_cmd": "./check %s thorough" % pid,
            "evidence_file": "/verif/evidence/%s.json" % pid,
            "replay_cmd_template": "./check %s --replay {path}" % pid,
            "engine": "coq-proofs+model-vs-impl",
            "level_claimed": {"category": "proof", "text": f["level_text"], "design_ref": f.get("design_ref", "§5 " + pid)},
            "level_note": f["level_note"],
            "technique": f.get("technique", "machine-checked proof in Coq over an executable model + model-vs-implementation correspondence"),
        })
    else:
        na.append({"property_id": pid, "reason": na_reasons.get(pid, "check not built yet in this round (design in DESIGN.md §5); no claim made")})
hooks_commits = [l.strip() for l in open(os.path.join(V, 'tools', 'hook_commits.txt')) if l.strip()] if os.path.exists(os.path.join(V, 'tools', 'hook_commits.txt')) else []
m = {
    "version": 1,
    "setup_cmd": "./check --setup",
    "hooks": {"guard": "rsjsonnet_verif",
              "enable": "RUSTFLAGS=\"--cfg rsjsonnet_verif\" (set by tools/vlib.py when building harness/)",
              "baseline_off_cmd": "cd /repo && cargo test --workspace --no-fail-fast --offline",
              "source_commits": hooks_commits, "add_only": True},
    "engines": [
        {"name": "coq-proofs", "path": "coq/", "serves_properties": claimed,
         "kind_free_text": "Coq 8.16.1 development: Base/ Model/ Proofs/ Props/ Gen/(translated from source on every run) Extract/"},
        {"name": "model-vs-impl", "path": "tools/ harness/ ocaml/", "serves_properties": claimed,
         "kind_free_text": "extracted OCaml model drivers vs Rust harness (real crates, --cfg rsjsonnet_verif) and the real CLI on the same generated cases; property oracles on the implementation alone (violation search)"},
    ],
    "checks": checks,
    "not_applicable": na,
    "notes": "Every check: translate -> prove (make + Print Assumptions allow-list + hygiene grep) -> build harness from /repo working tree -> correspondence + oracles -> decide (KNOWN_FINDINGS.jsonl) -> evidence. See DESIGN.md and CONVENTIONS.md.",
}
json.dump(m, open(os.path.join(V, 'MANIFEST.json'), 'w'), indent=1)
print('claimed:', claimed)
