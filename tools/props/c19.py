"""C19 — std.format and % follow printf-style formatting for every directive and value.

Proof:  Props/C19.v over Model/Format.v (parser totality, argument-count errors, radix digits,
        decorate/pad widths, %f/%e digits = correctly rounded decimal of the exact binary value).
K:      programs `std.format(fmt, args)` / `fmt % args` through the real evaluator (harness
        component `eval`, str=1) vs the extracted model (component `format`), digit for digit.
Search: oracle on the implementation alone: no panic/crash, a rendered field is never shorter than
        its width counted in characters, malformed format strings and argument count/type
        mismatches are errors; Python's % operator as a second opinion on the shared subset.
"""
import os, sys, re, json, math, struct
import vlib
from vlib import hx, hxl

ID = 'C19'
COMPONENTS = ['format']
THEOREMS = ['C19_format_parse_total', 'C19_format_no_panic', 'C19_arg_count_errors', 'C19_pad_reaches_width',
            'C19_field_width_ok', 'C19_decorate_min_width', 'C19_render_int_min_width', 'C19_radix_digits_value',
            'C19_render_int_digits', 'C19_decimal_exact_below_2p53', 'C19_fixed_digits_correct', 'C19_fixed_is_rendered',
            'C19_g_shape', 'C19_exp_digits_correct', 'C19_exp_exponent', 'C19_exponent_unique', 'C19_exp_is_rendered',
            'C19_g_selects', 'C19_g_trim_keeps_value', 'C19_g_deviations',
            'C19_shortest_sound', 'C19_shortest_tie_rule', 'C19_display_tie_up',
            'C19_pad_bytes_refuted', 'C19_fmt_prec_limit', 'C19_nonvacuous']
ALLOWED_AXIOMS = set()
TRANSLATORS = []

# ---------------------------------------------------------------- values

def bits_of(x):
    return struct.unpack('<Q', struct.pack('<d', float(x)))[0]


def float_of(bits):
    return struct.unpack('<d', struct.pack('<Q', bits))[0]


# non-number, non-string values: name -> (type as the model's glue spells it, Jsonnet source)
OTHERS = {
    'null': ('null', 'null'),
    'true': ('bool', 'true'),
    'false': ('bool', 'false'),
    'arr0': ('array', '[]'),
    'arr2': ('array', '[1, "a\\u65e5"]'),
    'obj0': ('object', '{}'),
    'obj2': ('object', '{a: 1.5, b: [null, "x"]}'),
    'func': ('function', 'function(x) x'),
}
SHOWN = {}   # name -> std.toString text, obtained from the implementation at start-up (C05 owns it)


def jstr(s):
    """Jsonnet string literal (double quoted), non-ASCII left raw"""
    out = ['"']
    for c in s:
        o = ord(c)
        if c == '"':
            out.append('\\"')
        elif c == '\\':
            out.append('\\\\')
        elif o < 0x20 or o == 0x7f:
            out.append('\\u%04x' % o)
        else:
            out.append(c)
    out.append('"')
    return ''.join(out)


def jnum(bits):
    x = float_of(bits)
    r = repr(x)
    if r.startswith('-'):
        return '(-%s)' % r[1:]
    return r


def jval(v):
    if v[0] == 'n':
        return jnum(v[1])
    if v[0] == 's':
        return jstr(v[1])
    return OTHERS[v[1]][1]


def jargs(args):
    if args[0] == 'A':
        return '[' + ', '.join(jval(v) for v in args[1]) + ']'
    if args[0] == 'S':
        return jval(args[1])
    return '{' + ', '.join('%s%s %s' % (jstr(k), '::' if i % 2 else ':', jval(v)) for i, (k, v) in enumerate(args[1])) + '}'


def program(case):
    if case['op'] == 'pct':
        return '%s %% %s' % (jstr(case['fmt']), jargs(case['args']))
    return 'std.format(%s, %s)' % (jstr(case['fmt']), jargs(case['args']))


def dotted(s):
    return '.'.join('%x' % ord(c) for c in s)


def wval(v):
    if v[0] == 'n':
        return 'n%x' % v[1]
    if v[0] == 's':
        return 's' + dotted(v[1])
    return 'o%s:%s' % (OTHERS[v[1]][0], dotted(SHOWN[v[1]]))


def wargs(args):
    if args[0] == 'A':
        return ';'.join(['A'] + [wval(v) for v in args[1]])
    if args[0] == 'S':
        return 'S;' + wval(args[1])
    return ';'.join(['O'] + ['%s=%s' % (dotted(k), wval(v)) for k, v in args[1]])


# ---------------------------------------------------------------- canonical results

ERR_TABLE = [
    (r'^truncated format code$', lambda m: 'Truncated'),
    (r'^format field width is too large$', lambda m: 'WidthTooLarge'),
    (r'^format precision is too large$', lambda m: 'PrecTooLarge'),
    (r'^missing format precision digits$', lambda m: 'MissingPrecDigits'),
    (r'^invalid format conversion code (.*)$', lambda m: 'BadConv'),
    (r'^too many array items for format: expected (\d+), got (\d+)$', lambda m: 'TooMany %x %x' % (int(m.group(1)), int(m.group(2)))),
    (r'^not enough array items for format, got (\d+)$', lambda m: 'NotEnough %x' % int(m.group(1))),
    (r'^format precision must be a number, got (\w+)$', lambda m: 'PrecNotNumber ' + m.group(1)),
    (r'^format field width must be a number, got (\w+)$', lambda m: 'WidthNotNumber ' + m.group(1)),
    (r'^invalid format precision value: ', lambda m: 'BadPrecValue'),
    (r'^invalid format field width value: ', lambda m: 'BadWidthValue'),
    (r"^'\*' field width cannot be used with object formatting$", lambda m: 'StarWidthObject'),
    (r"^'\*' precision cannot be used with object formatting$", lambda m: 'StarPrecObject'),
    (r'^mapping keys are required with object formatting$', lambda m: 'MkeyRequired'),
    (r'^missing field .* in object formatting$', lambda m: 'MissingField'),
    (r"^'i' / 'd' formatting requires a number, got (\w+)$", lambda m: 'NeedNumber d ' + m.group(1)),
    (r"^'o' formatting requires a number, got (\w+)$", lambda m: 'NeedNumber o ' + m.group(1)),
    (r"^'x' / 'X' formatting requires a number, got (\w+)$", lambda m: 'NeedNumber x ' + m.group(1)),
    (r"^'e' / 'E' formatting requires a number, got (\w+)$", lambda m: 'NeedNumber e ' + m.group(1)),
    (r"^'f' / 'F' formatting requires a number, got (\w+)$", lambda m: 'NeedNumber f ' + m.group(1)),
    (r"^'g' / 'G' formatting requires a number, got (\w+)$", lambda m: 'NeedNumber g ' + m.group(1)),
    (r"^'c' formatting requires a string of length 1, got (\d+)$", lambda m: 'CharLen %x' % int(m.group(1))),
    (r'^.* is not a valid unicode codepoint$', lambda m: 'BadCodepoint'),
    (r"^'c' formatting requires a string or a number, got (\w+)$", lambda m: 'CharType ' + m.group(1)),
]
ERR_TABLE = [(re.compile(p, re.S), f) for p, f in ERR_TABLE]


def unescape_debug(s):
    """undo Rust's {:?} escaping of a str (enough for the messages of format.rs)"""
    out = []
    i = 0
    while i < len(s):
        c = s[i]
        if c == '\\' and i + 1 < len(s):
            d = s[i + 1]
            if d == 'u':
                j = s.index('}', i)
                out.append(chr(int(s[i + 3:j], 16)))
                i = j + 1
                continue
            out.append({'n': '\n', 't': '\t', 'r': '\r', '0': '\0', '\\': '\\', '"': '"', "'": "'"}.get(d, d))
            i += 2
            continue
        out.append(c)
        i += 1
    return ''.join(out)


def canon_impl(r):
    """harness `eval` answer -> the model glue's spelling"""
    f = r.split('\t')
    if f[0] == 'OK':
        return 'OK ' + f[1]
    if f[0] in ('PANIC', 'CRASH', 'TIMEOUT', 'NOOUTPUT', 'NOTSTR'):
        return f[0]
    if f[0] == 'ERR':
        if f[1] == 'EVAL' and f[2] == 'Other':
            d = [x for x in f if x.startswith('D=')]
            txt = vlib.uncps(d[0][2:]) if d else ''
            m = re.match(r'^Other \{ span: (?:None|Some\(.*?\)), message: "(.*)" \}$', txt, re.S)
            if m:
                msg = unescape_debug(m.group(1))
                for pat, fn in ERR_TABLE:
                    mm = pat.match(msg)
                    if mm:
                        return 'ERR ' + fn(mm)
                return 'ERR ?' + msg[:60]
        return 'ERR! %s %s' % (f[1], f[2])
    return 'BAD ' + r[:60]


def canon_model(r):
    if r.startswith('ERR BadConv'):
        return 'ERR BadConv'
    if r.startswith('ERR MissingField'):
        return 'ERR MissingField'
    if r.startswith('PANIC'):
        return 'PANIC'
    return r


# ---------------------------------------------------------------- generator

def u(n):
    return bits_of(n)


NUM_POOL = [0.0, -0.0, 1.0, -1.0, 2.0, 7.0, 8.0, 9.0, 10.0, 15.0, 16.0, 42.0, -42.0, 99.0, 100.0, 255.0, 256.0, 1000.0,
            65535.0, 1e5, 999999.0, 1e6, 1e7, 123456789.0, -123456789.0, 4294967295.0, 4294967296.0,
            2.0 ** 53 - 1, 2.0 ** 53, 2.0 ** 53 + 2, -(2.0 ** 53 - 1), 1e15, 1e16, 1e17, 1e21, 1e22, 1e23, 1.2345e30, 1e100,
            1e308, 1.7976931348623157e308, -1.7976931348623157e308, 5e-324, -5e-324, 2.2250738585072014e-308,
            2.225073858507201e-308, 1e-5, 1e-4, 0.0001234, 0.1, 0.2, 0.3, 1 / 3, 2 / 3, 0.5, 1.5, 2.5, 3.5, -0.5, -1.5, -2.5,
            0.25, 0.75, 0.125, 0.375, 0.625, 0.0625, 0.03125, 1.0625, 9.5, 99.5, 999.5, 9.95, 9.995, 0.95, 0.995, 0.05,
            0.005, 0.0005, 999999.5, 9999995.0, 0.999, 0.9999999, 9.999999e5, 1.05, 1.005, 2.675, 1.45, 8.5, 10.5, 0.9, 3.7,
            -3.7, 3.14159, 314.159, 31415.9, 123.456, 65.7, 1e-7, 1.5e-10, 12345678.9, 0.000123456, 5e-5, 4.5e-5]


def gen_number(rng):
    r = rng.random()
    if r < 0.42:
        return rng.choice(NUM_POOL)
    if r < 0.45:
        # shortest-digits ties: K + 1/4 or K + 3/4 with 16 integer digits (ulp 1/8 or 1/4): the two
        # 17-digit neighbours are equally close and both read back (Rust resolves upward)
        return rng.choice([1, -1]) * (float(rng.randint(10 ** 15, 2 ** 51 - 1)) + rng.choice([0.25, 0.75]))
    if r < 0.55:
        return float(rng.randint(-1000, 100000))
    if r < 0.62:
        return float(rng.randint(-(2 ** 53), 2 ** 53))
    if r < 0.72:
        # dyadic fractions: exact rounding ties at some precision
        return rng.randint(-4000, 40000) / float(2 ** rng.randint(1, 12))
    if r < 0.80:
        # around a power of ten
        k = rng.randint(-8, 25)
        x = 10.0 ** k
        if rng.random() < 0.3:
            x = x * (1.0 - 10.0 ** -rng.randint(10, 13))     # just below, but well outside libm's rounding band
        for _ in range(rng.randint(0, 2)):
            x = math.nextafter(x, rng.choice([0.0, math.inf]))
        return x * rng.choice([1, 1, -1])
    if r < 0.90:
        # random finite bit pattern
        while True:
            b = rng.getrandbits(64)
            if (b >> 52) & 0x7ff != 0x7ff:
                return float_of(b)
    if r < 0.95:
        return float(rng.randint(2 ** 53, 2 ** 80)) * rng.choice([1, -1])
    return rng.choice([1, -1]) * rng.random() * 10.0 ** rng.randint(-12, 12)


STR_POOL = ['', 'a', 'abc', 'hello world', '日本', '日', 'é', 'été', '\U0001d11ex', 'á',
            '%', '"q"', 'back\\slash', 'tab\there', 'ßßßß', '\U0001f600\U0001f600', '12345', ' ', '0']

NUM_CONVS = 'diuoxXeEfFgG'
WIDTHS_SMALL = list(range(0, 21))
WIDTHS_BIG = [64, 255, 65535, 65536, 70000]


def gen_width(rng, big_ok):
    r = rng.random()
    if r < 0.30:
        return None
    if r < 0.85 or not big_ok:
        return rng.choice(WIDTHS_SMALL)
    if r < 0.93:
        return rng.choice([64, 255])
    return rng.choice(WIDTHS_BIG)


def gen_flags(rng):
    r = rng.random()
    if r < 0.35:
        return ''
    fl = [c for c in '#0- +' if rng.random() < 0.4]
    rng.shuffle(fl)
    if rng.random() < 0.05 and fl:
        fl.append(rng.choice(fl))
    return ''.join(fl)


def value_for(rng, conv, wrong=False):
    """a value of the type the conversion wants (or deliberately not)"""
    if wrong:
        if conv in NUM_CONVS:
            return rng.choice([('s', rng.choice(STR_POOL)), ('o', rng.choice(list(OTHERS)))])
        if conv == 'c':
            return rng.choice([('s', rng.choice(['', 'ab', '日本', 'abc'])), ('o', rng.choice(list(OTHERS))),
                               ('n', u(rng.choice([-1.0, 1114112.0, 55296.0, 57343.0, 4294967296.0, 1e20, -1.5])))])
        return None
    if conv in NUM_CONVS:
        return ('n', u(gen_number(rng)))
    if conv == 'c':
        if rng.random() < 0.6:
            return ('s', rng.choice(['a', '日', 'é', '\U0001d11e', '%', ' ']))
        return ('n', u(rng.choice([65.0, 97.0, 233.0, 26085.0, 119070.0, 1114111.0, 55295.0, 57344.0, 65.7, 0.0, 32.0])))
    # 's'
    r = rng.random()
    if r < 0.6:
        return ('s', rng.choice(STR_POOL))
    if r < 0.85:
        return ('n', u(gen_number(rng)))
    return ('o', rng.choice([k for k in OTHERS if k != 'func']))


def star_value(rng, bad):
    if bad:
        return rng.choice([('n', u(-1.0)), ('n', u(-5.0)), ('n', u(4294967296.0)), ('n', u(1e20)), ('s', '3'), ('o', 'null'),
                           ('o', 'arr0'), ('n', u(-1e300))])
    return ('n', u(rng.choice([0.0, 1.0, 2.0, 3.0, 5.0, 8.0, 10.0, 12.0, 20.0, 2.5, 7.9, -0.5, 64.0, 255.0])))


def gen_directive(rng, big_ok=True, conv=None, mkey=None, allow_star=True, bad_star=False):
    """returns (text, [values consumed in order], info)"""
    conv = conv or rng.choice('ddiuoxXeEfFgGccssss')
    flags = gen_flags(rng)
    vals = []
    info = {'conv': conv, 'flags': ''.join(sorted(set(flags))), 'width': None, 'prec': None, 'star': False, 'py': True}
    w = gen_width(rng, big_ok)
    wtxt = ''
    if w is not None:
        if allow_star and rng.random() < 0.15:
            sv = star_value(rng, bad_star)
            vals.append(sv)
            wtxt = '*'
            info['star'] = True
            if sv[0] == 'n':
                x = float_of(sv[1])
                info['width'] = int(x) if 0 <= math.trunc(x) <= 0xffffffff else None
                if x != math.trunc(x) or x < 0:
                    info['py'] = False
        else:
            wtxt = str(w)
            if rng.random() < 0.03:
                wtxt = '0' * 0 + wtxt     # (a leading 0 would be the zero flag)
            info['width'] = w
    ptxt = ''
    if rng.random() < (0.55 if conv in NUM_CONVS else 0.15):
        p = gen_width(rng, big_ok and conv in 'eEfFgGdiuoxX')
        if p is None:
            p = rng.choice([0, 1, 2, 3, 6, 10, 17, 20])
        if allow_star and rng.random() < 0.15:
            sv = star_value(rng, bad_star)
            vals.append(sv)
            ptxt = '.*'
            info['star'] = True
            info['prec'] = '*'
            if sv[0] == 'n':
                x = float_of(sv[1])
                if x != math.trunc(x) or x < 0:
                    info['py'] = False
        else:
            ptxt = '.%d' % p
            info['prec'] = p
    lm = rng.choice(['', '', '', '', 'h', 'l', 'L'])
    mk = '(%s)' % mkey if mkey is not None else ''
    return '%' + mk + flags + wtxt + ptxt + lm + conv, vals, info


def py_arg(v, conv):
    """Python-side argument for the shared subset, or raise"""
    if v[0] == 'n':
        x = float_of(v[1])
        if conv in 'diuoxX':
            if abs(x) >= 2.0 ** 53 and conv in 'diu':
                raise ValueError('above 2^53: Jsonnet prints shortest digits (boundary v)')
            return int(math.trunc(x))
        if conv in 'eEfF':
            if x == 0.0 and math.copysign(1.0, x) < 0:
                raise ValueError('negative zero (boundary i)')
            return x
        if conv == 'c':
            if x != math.trunc(x):
                raise ValueError('fractional code point')
            return int(x)
        if conv == '*':
            if x != math.trunc(x) or x < 0:
                raise ValueError('star value')
            return int(x)
        raise ValueError('number under %' + conv)
    if v[0] == 's':
        if conv in 'sc':
            return v[1]
        raise ValueError('string under %' + conv)
    raise ValueError('other value')


def python_opinion(case):
    """what Python's % prints, on the shared subset only; None outside it"""
    try:
        ds = case.get('dirs')
        if not ds:
            return None
        for d in ds:
            c = d['conv']
            if c in 'gG%':
                return None
            if c == 'o' and '#' in d['flags']:
                return None          # boundary (iii)
            if c in 'sc' and d['prec'] is not None:
                return None          # boundary (ii)
            if not d['py']:
                return None
        args = case['args']
        if args[0] == 'O':
            if any(d['star'] for d in ds):
                return None
            dct = {}
            if len(set(k for k, _ in case['okeys'])) != len(case['okeys']):
                return None
            for d, (k, v) in zip(ds, case['okeys']):
                dct[k] = py_arg(v, d['conv'])
            return case['fmt'] % dct
        vals = args[1] if args[0] == 'A' else [args[1]]
        it = iter(vals)
        pa = []
        for d in ds:
            if d['star']:
                # width and/or precision stars come first
                nst = d['nstar']
                for _ in range(nst):
                    pa.append(py_arg(next(it), '*'))
            pa.append(py_arg(next(it), d['conv']))
        if len(pa) != len(vals):
            return None
        return case['fmt'] % tuple(pa)
    except Exception:
        return None


WELL_FORMED = re.compile(r'%(\([^)]*\))?[#0\- +]*(\*|\d{1,9})?(\.(\*|\d{1,9}))?[hlL]?[diouxXeEfFgGcs%]')


def lit(rng):
    return rng.choice(['', '', '', 'x', '|', 'a b', '日', ': ', '[', ']', 'w=', '100', '.'])


def gen_case(rng, idx):
    r = rng.random()
    op = 'pct' if rng.random() < 0.4 else 'fn'
    case = {'op': op, 'expect_error': False, 'single': None, 'dirs': None, 'kind': ''}
    if r < 0.60:
        # one directive, matching value; width oracle applies
        pre, suf = lit(rng), lit(rng)
        text, vals, info = gen_directive(rng)
        v = value_for(rng, info['conv'])
        info['nstar'] = len(vals)
        allv = vals + [v]
        case['fmt'] = pre + text + suf
        if len(allv) == 1 and v[0] != 'o' and rng.random() < 0.5:
            case['args'] = ('S', v)
        elif len(allv) == 1 and v[0] == 'o' and OTHERS[v[1]][0] not in ('array', 'object') and rng.random() < 0.5:
            case['args'] = ('S', v)
        else:
            case['args'] = ('A', allv)
        case['single'] = {'prefix': pre, 'suffix': suf, 'width': info['width']}
        case['dirs'] = [info]
        case['kind'] = 'single'
    elif r < 0.72:
        # several directives, right number of arguments
        n = rng.randint(2, 5)
        fmt = lit(rng)
        allv = []
        dirs = []
        for _ in range(n):
            if rng.random() < 0.1:
                fmt += '%%' + lit(rng)
                continue
            text, vals, info = gen_directive(rng, big_ok=False)
            info['nstar'] = len(vals)
            allv += vals + [value_for(rng, info['conv'])]
            fmt += text + lit(rng)
            dirs.append(info)
        case['fmt'] = fmt
        case['args'] = ('A', allv)
        case['dirs'] = dirs if '%%' not in fmt else None
        case['kind'] = 'multi'
    elif r < 0.79:
        # argument count mismatch
        n = rng.randint(1, 4)
        fmt = lit(rng)
        allv = []
        for _ in range(n):
            text, vals, info = gen_directive(rng, big_ok=False)
            allv += vals + [value_for(rng, info['conv'])]
            fmt += text + lit(rng)
        if rng.random() < 0.5 and allv:
            allv = allv[:rng.randint(0, len(allv) - 1)]
        else:
            allv = allv + [value_for(rng, 's') for _ in range(rng.randint(1, 3))]
        case['fmt'] = fmt
        case['args'] = ('A', allv)
        case['expect_error'] = True
        case['kind'] = 'count'
    elif r < 0.86:
        # type mismatch (value or star)
        pre, suf = lit(rng), lit(rng)
        if rng.random() < 0.6:
            conv = rng.choice('diuoxXeEfFgGc')
            text, vals, info = gen_directive(rng, big_ok=False, conv=conv)
            allv = vals + [value_for(rng, conv, wrong=True)]
        else:
            while True:
                text, vals, info = gen_directive(rng, big_ok=False, bad_star=True)
                if vals and not (info['conv'] in 'cs' and info['prec'] == '*' and len(vals) == 1):
                    break
            allv = vals + [value_for(rng, info['conv'])]
        case['fmt'] = pre + text + suf
        case['args'] = ('A', allv)
        case['expect_error'] = True
        case['kind'] = 'type'
    elif r < 0.93:
        # object formatting
        n = rng.randint(1, 3)
        keys = ['a', 'b', 'key', '日', 'k k', '']
        fields = []
        okeys = []
        dirs = []
        fmt = lit(rng)
        bad = rng.random() < 0.35
        badkind = rng.choice(['missing', 'nokey', 'star']) if bad else None
        for i in range(n):
            k = rng.choice(keys)
            this_bad = bad and i == n - 1
            text, vals, info = gen_directive(rng, big_ok=False, mkey=(None if this_bad and badkind == 'nokey' else k),
                                             allow_star=False)
            if this_bad and badkind == 'star':
                text = text.replace(')', ')*', 1) if rng.random() < 0.5 else re.sub(r'(\.\d+)?([hlL]?[a-zA-Z])$', r'.*\2', text)
            info['nstar'] = 0
            v = value_for(rng, info['conv'])
            if not (this_bad and badkind == 'missing'):
                fields = [(kk, vv) for kk, vv in fields if kk != k] + [(k, v)]
                # a repeated key: the earlier directive now sees the later value
            okeys.append((k, v))
            dirs.append(info)
            fmt += text + lit(rng)
        if bad and badkind == 'missing':
            fields = [(kk, vv) for kk, vv in fields if kk != okeys[-1][0]]
        fields.append(('unused', ('n', u(1.0))))
        case['fmt'] = fmt
        case['args'] = ('O', fields)
        # okeys must reflect the final field values (repeated keys)
        fd = dict(fields)
        case['okeys'] = [(k, fd.get(k, v)) for k, v in okeys]
        case['dirs'] = dirs if not bad else None
        case['expect_error'] = bad
        case['kind'] = 'object'
    else:
        # malformed format strings
        k = rng.random()
        if k < 0.5:
            base, vals, info = gen_directive(rng, big_ok=False, mkey=rng.choice([None, 'a']))
            cut = rng.randint(1, len(base) - 1)
            fmt = lit(rng) + base[:cut]
            # a proper prefix of a directive is usually truncated, but may itself be a complete directive
            case['expect_error'] = not WELL_FORMED.fullmatch(base[:cut])
        elif k < 0.75:
            bad = rng.choice(['y', 'z', '!', 'a', 'b', 'D', 'n', 'p', '日', '́', '\n', "'", 'H', 'j', 'q', 't', 'v', 'w', '$', ')', 'I', 'U', 'O', 'S', 'C'])
            fmt = lit(rng) + '%' + gen_flags(rng) + rng.choice(['', '5', '.3', '5.3']) + bad + lit(rng)
            case['expect_error'] = True
        elif k < 0.85:
            fmt = '%' + rng.choice(['.d', '.-1d', '. 3f', '.+1e', '.', '5.', '-.x', '.hd'])
            case['expect_error'] = True
        elif k < 0.93:
            fmt = rng.choice(['%4294967296d', '%.4294967296d', '%99999999999999999999d', '%.99999999999999999999f',
                              '%4294967295.4294967296s', '%00000000004294967296d'])
            case['expect_error'] = True
        else:
            alphabet = '%%%%()#0- +*.123hlLdiouxXeEfFgGcs ay日'
            fmt = ''.join(rng.choice(alphabet) for _ in range(rng.randint(1, 10)))
            if not fmt.count('*'):
                pass
        case['fmt'] = fmt
        nargs = rng.choice([0, 1, 1, 2, 3])
        vs = [rng.choice([('n', u(gen_number(rng))), ('s', rng.choice(STR_POOL))]) for _ in range(nargs)]
        case['args'] = rng.choice([('A', vs), ('O', [('a', v) for v in vs[:1]])])
        case['kind'] = 'malformed'
    return case


def big_output(case):
    m = re.findall(r'\d{5,}', case['fmt'])
    return any(int(x) > 20000 for x in m)


def case_key(case, res):
    ds = case.get('dirs') or [{}]
    d = ds[0]

    def cls(w):
        if w is None:
            return '-'
        if w == '*':
            return '*'
        return str(w) if w <= 20 else ('big' if w > 255 else 'mid')
    vals = case['args'][1] if case['args'][0] != 'S' else [case['args'][1]]
    v = vals[-1] if vals else None
    if isinstance(v, tuple) and len(v) == 2 and isinstance(v[0], str) and v[0] == 'n':
        x = float_of(v[1])
        vc = ('zero' if x == 0 else 'int' if x == math.trunc(x) and abs(x) < 2 ** 53 else 'bigint' if x == math.trunc(x)
              else 'tiny' if abs(x) < 1e-4 else 'frac')
        vc += '-' if math.copysign(1, x) < 0 else '+'
    elif isinstance(v, tuple) and v and v[0] == 's':
        vc = 'str-ascii' if all(ord(c) < 128 for c in v[1]) else 'str-multibyte'
    else:
        vc = 'other'
    return (case['kind'], d.get('conv'), d.get('flags'), cls(d.get('width')), cls(d.get('prec')), vc, res.split(' ')[0:2][-1] if res.startswith('ERR') else res[:2])


# ---------------------------------------------------------------- running

def load_shown(impl_exe):
    cases = []
    names = [k for k in OTHERS if k != 'func']
    for i, k in enumerate(names):
        src = 'std.toString(%s)' % OTHERS[k][1]
        cases.append(('t%d' % i, 'eval', ['str=1', hxl(list(src.encode('utf-8')))]))
    res = vlib.run_sharded(impl_exe, [vlib.impl_line(c) for c in cases], timeout=60, shards=1)
    for i, k in enumerate(names):
        f = res.get('t%d' % i, '').split('\t')
        if f[0] != 'OK':
            raise RuntimeError('std.toString(%s) failed: %s' % (k, f[:3]))
        SHOWN[k] = vlib.uncps(f[1])
    SHOWN['func'] = ''


def near_log10_boundary(case):
    """%g selects by floor(libm log10 |x|); the model uses the exact floor.  They may differ only for
    |x| within a few ulp below a power of ten."""
    a = case['args']
    if a[0] == 'S':
        vals = [a[1]]
    elif a[0] == 'O':
        vals = [v for _, v in a[1]]
    else:
        vals = list(a[1])
    for v in vals:
        if v[0] == 'n':
            x = abs(float_of(v[1]))
            if x > 0 and not math.isinf(x):
                l = math.log10(x)
                k = round(l)
                if abs(l - k) < 2e-14 * max(1.0, abs(k)):      # a few ulp of the logarithm
                    if 0 <= k <= 22 and x == float(10 ** k):
                        continue      # an exact power of ten: libm's log10 is exact there
                    return True
    return False


def run_cases(run, cases, impl_exe, model_exe, label):
    wire = []
    for i, c in enumerate(cases):
        src = program(c)
        cid = '%s%d' % (label[0], i)
        wire.append((cid, c, src))
    impl = vlib.run_sharded(impl_exe, ['\t'.join([cid, 'eval', 'str=1', hxl(list(src.encode('utf-8')))]) for cid, c, src in wire], timeout=300)
    model = vlib.run_sharded(model_exe, ['\t'.join([cid, 'f', vlib.cps(c['fmt']), wargs(c['args'])]) for cid, c, src in wire], timeout=300)
    for cid, c, src in wire:
        run.evaluations += 1
        ir_raw = impl.get(cid, 'NOOUTPUT')
        mr_raw = model.get(cid, 'NOOUTPUT')
        ir = canon_impl(ir_raw)
        mr = canon_model(mr_raw)
        rep = {'kind': 'format', 'case': {k: c[k] for k in ('fmt', 'args', 'op', 'expect_error', 'single', 'dirs', 'kind') if k in c},
               'okeys': c.get('okeys'), 'program': src, 'impl': ir[:400], 'model': mr[:400]}
        run.count(label + ':' + c['kind'])
        run.count('outcome:' + (ir.split(' ')[0] if not ir.startswith('ERR ') else 'ERR ' + ir.split(' ')[1]))
        if mr_raw.startswith('MODELEXC') or mr_raw in ('NOOUTPUT', 'TIMEOUT') or mr_raw.startswith('CRASH'):
            run.violation('model-machinery', 'model driver failed (%s) on %s' % (mr_raw[:80], src[:120]), rep, concrete=False)
            continue
        # ---- oracle on the implementation alone
        bad = None
        if ir in ('PANIC', 'TIMEOUT', 'NOOUTPUT') or ir.startswith('CRASH'):
            m = re.search(r'\.(\d{5,})|\.\*', c['fmt'])
            if ir == 'PANIC' and mr == 'PANIC' and m:
                bad = ('format-precision-above-65535-panics', 'std.format panics instead of rendering or reporting an error: %s' % src[:160])
            else:
                bad = ('format-crash:' + ir.split('\t')[0], 'implementation %s on %s' % (ir, src[:160]))
        elif ir.startswith('BAD') or ir.startswith('ERR!') or ir.startswith('ERR ?') or ir == 'NOTSTR':
            bad = ('format-unexpected-answer', 'unexpected answer %s on %s' % (ir[:100], src[:160]))
        elif c['expect_error'] and ir.startswith('OK'):
            bad = ('format-malformed-accepted', 'malformed format / mismatched arguments accepted: %s -> %s' % (src[:160], ir[:80]))
        elif ir.startswith('OK') and c['single'] and c['single']['width'] is not None:
            s = vlib.uncps(ir[3:])
            sg = c['single']
            if s.startswith(sg['prefix']) and s.endswith(sg['suffix']) and len(s) >= len(sg['prefix']) + len(sg['suffix']):
                field = s[len(sg['prefix']):len(s) - len(sg['suffix'])]
                if len(field) < sg['width']:
                    allascii = all(ord(ch) < 128 for ch in field)
                    key = 'format-pad-byte-length' if not allascii else 'format-field-shorter-than-width'
                    bad = (key, 'field %r (%d characters) is shorter than its width %d: %s' % (field, len(field), sg['width'], src[:160]))
            else:
                bad = ('format-literal-text-lost', 'literal text around the directive not preserved: %s -> %r' % (src[:160], s[:80]))
        if bad is None and ir.startswith('OK'):
            py = python_opinion(c)
            if py is not None:
                run.count('python_compared')
                got = vlib.uncps(ir[3:])
                if got != py:
                    d = c['dirs'][0]['conv'] if c.get('dirs') else '?'
                    bad = ('format-differs-from-printf:' + d, 'printf-style rendering differs: %s -> %r, Python %% gives %r' % (src[:160], got[:80], py[:80]))
        if bad:
            run.violation(bad[0], bad[1], rep)
        elif ir != mr:
            gconv = re.search(r'[gG]', c['fmt']) is not None      # (liberal: only used together with the boundary test)
            if gconv and near_log10_boundary(c):
                run.count('g_log10_boundary_skipped')
            else:
                run.violation('format-correspondence', 'correspondence format: %s : implementation %s / model %s' % (src[:160], ir[:100], mr[:100]),
                              rep, concrete=False)
        run.nontrivial.add(case_key(c, ir))
        if len(run.samples) < 6 and (run.evaluations % 97 == 1):
            run.samples.append({'component': 'format', 'program': src[:200], 'result': ir[:200]})


def load_corpus():
    cases = []
    p = os.path.join(vlib.VERIF, 'corpus', 'c19_cases.txt')
    if os.path.exists(p):
        for l in open(p, encoding='utf-8'):
            l = l.strip()
            if not l or l.startswith('#'):
                continue
            cases.append(fix_case(json.loads(l)))
    return cases


def fix_case(j):
    """JSON (lists) -> the tuple shapes used above"""
    def fv(v):
        return tuple(v)
    a = j['args']
    if a[0] == 'A':
        j['args'] = ('A', [fv(v) for v in a[1]])
    elif a[0] == 'S':
        j['args'] = ('S', fv(a[1]))
    else:
        j['args'] = ('O', [(k, fv(v)) for k, v in a[1]])
    if j.get('okeys'):
        j['okeys'] = [(k, fv(v)) for k, v in j['okeys']]
    j.setdefault('op', 'fn')
    j.setdefault('expect_error', False)
    j.setdefault('single', None)
    j.setdefault('dirs', None)
    j.setdefault('kind', 'corpus')
    return j


def check(run):
    rng = vlib.rng_for(run.seed, ID)
    run.rule = ('programs `std.format(fmt, args)` / `fmt % args`: 60% one directive (conversion x random flag subset x width/precision from '
                '{none, 0..20, 64, 255, 65535, 65536, 70000, *} x length modifier) with a value of the right type (numbers: boundary pool, '
                'dyadic rounding ties, powers of ten +-ulp, random bit patterns, integers beyond 2^53, subnormals, -0; strings with 1-4 byte '
                'characters; arrays/objects/null/bool under %s), 12% several directives, 7% wrong argument count, 7% wrong argument / * type, '
                '7% object formatting with (key) (missing key, missing mapping, * in object), 7% malformed format strings (truncated at every '
                'point, unknown conversion, missing precision digits, width/precision above u32, random soup).  '
                'non-trivial = distinct (kind, conversion, flag set, width class, precision class, value class, outcome class).')
    run.assume = ['Rust core::fmt `{:.N}` / `{:.Ne}` on f64 print the correctly rounded (half-even) decimal of the exact binary value and panic for a precision argument above u16::MAX (modelled as fmt_fixed/fmt_exp; compared digit for digit on every case)',
                  'Rust f64::to_string prints the shortest round-tripping digits positionally (modelled as display_abs; compared on every %d/%s case)',
                  'libm log10 followed by floor is the Section variable log10_floor; the run instantiates it with the exact floor(log10|x|), %g cases within 1e-9 of a power of ten are compared for shape only',
                  'argument values are already evaluated; the text of a non-string value under %s is std.toString (C05), taken from the implementation',
                  'usize is 64 bits', 'numbers are finite (C06)']
    pres = vlib.prove(ID, THEOREMS, ALLOWED_AXIOMS)
    run.add_proof(pres, THEOREMS)
    impl_exe = vlib.build_harness()
    model_exe = vlib.build_model('format')
    load_shown(impl_exe)
    corpus = load_corpus()
    run_cases(run, corpus, impl_exe, model_exe, 'corpus')
    n = 3000 if run.tier == "quick" else 100000
    cases = []
    nbig = 0
    maxbig = 24 if run.tier == "quick" else 400
    i = 0
    while len(cases) < n:
        c = gen_case(rng, i)
        i += 1
        if big_output(c):
            if nbig >= maxbig:
                continue
            nbig += 1
        cases.append(c)
    chunk = 20000
    for k in range(0, len(cases), chunk):
        run_cases(run, cases[k:k + chunk], impl_exe, model_exe, 'gen')


def replay(run, path):
    j = json.load(open(path))
    r = j.get('replay', {})
    if isinstance(r, dict) and r.get('kind') == 'format':
        impl_exe = vlib.build_harness()
        model_exe = vlib.build_model('format')
        load_shown(impl_exe)
        c = dict(r['case'])
        if r.get('okeys'):
            c['okeys'] = r['okeys']
        run_cases(run, [fix_case(c)], impl_exe, model_exe, 'replay')
    else:
        print('replay file names a broken obligation, not an input:', json.dumps(j.get('no_longer_checks', j), indent=1)[:2000])
        pres = vlib.prove(ID, THEOREMS, ALLOWED_AXIOMS)
        run.add_proof(pres, THEOREMS)
    for v in run.violations:
        print('REPRODUCED:', v['what'])
    if not run.violations and not run.failed_obligations:
        print('not reproduced')
    return 1 if (run.violations or run.failed_obligations) else 0
