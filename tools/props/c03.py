"""C03 — garbage collection is invisible to programs and exact about reachability.

Proof:  Props/C03.v over Model/Gc.v (the three loops of GcContext::gc) and the
        GcTrace field table translated from the current source (T).
K:      op sequences on the real GcContext (cfg-guarded scripted heap hook) vs the
        extracted model: every observation, and after every gc the object vector in order.
Search: (1) scripted heaps on the implementation alone: survivors = reachability computed
        here in Python, object count, walk from held handles, no destroyed-object panic;
        (2) evaluator schedule independence: one program, gc period in {default,1,2,3,7,random}
        must give the same answer (value / error variant / spans / trace);
        (3) a long-lived Program returns to its baseline object count once results are dropped.
"""
import os, sys, re, json, itertools
import vlib
from vlib import hx, hxl
sys.path.insert(0, os.path.dirname(os.path.dirname(os.path.abspath(__file__))))

ID = 'C03'
COMPONENTS = ['gc']
THEOREMS = ['C03_trace_table_exact', 'C03_trace_table_covers',
            'C03_gc_exact', 'C03_gc_keeps_reachable', 'C03_gc_resets', 'C03_gc_idempotent',
            'C03_gc_order_irrelevant', 'C03_baseline_return', 'C03_baseline_return_perm',
            'C03_gc_no_panic', 'C03_gc_spec', 'C03_history_gc_exact', 'C03_run_ops_never_fails', 'C03_goal_holds',
            'C03_cyc2', 'C03_ring', 'C03_nonvacuous']
ALLOWED_AXIOMS = set()


def translate(repo):
    import translate_gctrace
    return translate_gctrace.main(repo, os.path.join(vlib.COQ, 'Gen', 'GcTraceTable.v'))


TRANSLATORS = [translate]


# ---------------------------------------------------------------- python oracle (independent of the Coq model)

class Sim:
    """what the *property* says: after a collection exactly the nodes reachable from held
    handles/views survive.  Knows nothing about counting, marking or vector order."""

    def __init__(self):
        self.edges = {}     # id -> list of ids (live nodes only)
        self.handles = {}   # id -> count
        self.view = {}      # id -> bool
        self.next = 0

    def acc(self, a):
        return a in self.edges and (self.view[a] or self.handles[a] > 0)

    def roots(self):
        return [a for a in self.edges if self.view[a] or self.handles[a] > 0]

    def reach(self):
        seen = set(self.roots())
        todo = list(seen)
        while todo:
            a = todo.pop()
            for b in self.edges[a]:
                if b in self.edges and b not in seen:
                    seen.add(b)
                    todo.append(b)
        return seen

    def step(self, op):
        k = op[0]
        nums = [int(x, 16) for x in op[1:].split(',')] if len(op) > 1 else []
        if k in 'av':
            i = self.next
            self.next += 1
            self.edges[i] = []
            self.handles[i] = 1 if k == 'a' else 0
            self.view[i] = (k == 'v')
            return 'n%x' % i
        if k == 'e':
            a, b = nums
            if self.acc(a) and self.acc(b):
                self.edges[a].append(b)
                return '+'
            return '-'
        if k == 'x':
            a, kk = nums
            if self.acc(a) and kk < len(self.edges[a]):
                del self.edges[a][kk]
                return '+'
            return '-'
        if k == 'h':
            a = nums[0]
            if a in self.edges and self.handles[a] > 0:
                self.handles[a] -= 1
                return '+'
            return '-'
        if k == 'w':
            a = nums[0]
            if a in self.edges and self.view[a]:
                self.view[a] = False
                return '+'
            return '-'
        if k == 'V':
            a = nums[0]
            if a in self.edges and not self.view[a] and self.handles[a] > 0:
                self.view[a] = True
                return '+'
            return '-'
        if k == 'H':
            a = nums[0]
            if self.acc(a):
                self.handles[a] += 1
                return '+'
            return '-'
        if k == 'g':
            r = self.reach()
            for a in list(self.edges):
                if a not in r:
                    del self.edges[a], self.handles[a], self.view[a]
            return sorted(r)
        raise ValueError('bad op ' + op)


def has_cycle(edges):
    color = {}

    def dfs(a):
        color[a] = 1
        for b in edges.get(a, []):
            if b not in edges:
                continue
            c = color.get(b, 0)
            if c == 1 or (c == 0 and dfs(b)):
                return True
        color[a] = 2
        return False
    return any(color.get(a, 0) == 0 and dfs(a) for a in list(edges))


def oracle(ops, impl_res):
    """Property oracle on the implementation alone.  Returns (key, description) or None, plus
    a flag telling whether the case was non-trivial (a collection of a heap with a cycle or
    unreachable nodes)."""
    f0 = impl_res.split('\t')[0]
    if f0 in ('PANIC', 'CRASH', 'TIMEOUT', 'NOOUTPUT', 'NOHOOK', 'BADMODE'):
        return ('gc-' + f0.lower(), 'scripted heap: implementation answered %s (a Gc::view() on a destroyed object panics)' % impl_res[:100]), False
    obs = impl_res.split(';') if impl_res else []
    if len(obs) != len(ops):
        return ('gc-obs-count', 'observation count %d != op count %d' % (len(obs), len(ops))), False
    sim = Sim()
    nontriv = False
    for n, (op, ob) in enumerate(zip(ops, obs)):
        if op[0] == 'g':
            cyc = has_cycle(sim.edges)
            before = set(sim.edges)
            want = sim.step(op)
            if cyc or len(want) < len(before):
                nontriv = True
            try:
                order, live, num, walk = ob[1:].split('/')
                order = [int(x, 16) for x in order.split(',')] if order else []
                live = [int(x, 16) for x in live.split(',')] if live else []
                walk = [int(x, 16) for x in walk.split(',')] if walk else []
                num = int(num, 16)
            except Exception:
                return ('gc-bad-observation', 'op %d: unreadable gc observation %r' % (n, ob)), nontriv
            missing = sorted(set(want) - set(live))
            extra = sorted(set(live) - set(want))
            if missing:
                return ('gc-reclaimed-reachable', 'op %d: collection destroyed reachable node(s) %s (reachable %s, alive %s)' % (n, missing, want, live)), nontriv
            if extra:
                return ('gc-leak', 'op %d: unreachable node(s) %s survive the collection (reachable %s, alive %s)%s'
                        % (n, extra, want, live, ' — cyclic garbage' if cyc else '')), nontriv
            if sorted(order) != want or num != len(want):
                return ('gc-objs-vector', 'op %d: object vector %s / num_objects %d does not hold exactly the reachable nodes %s' % (n, order, num, want)), nontriv
            if walk != want:
                return ('gc-walk', 'op %d: walking from the held handles reaches %s, expected %s' % (n, walk, want)), nontriv
        else:
            want = sim.step(op)
            if ob != want:
                return ('gc-driver-desync', 'op %d (%s): driver answered %s, expected %s' % (n, op, ob, want)), nontriv
    return None, nontriv


def model_view(impl_res):
    """project the implementation's observations onto what the model reports (g<order>)"""
    out = []
    for ob in impl_res.split(';') if impl_res else []:
        out.append(ob.split('/')[0] if ob.startswith('g') else ob)
    return ';'.join(out)


# ---------------------------------------------------------------- generators

def gen_ops(rng, maxlen=40, maxnodes=12):
    sim = Sim()
    ops = []

    def emit(op):
        ops.append(op)
        sim.step(op)

    n = rng.randint(1, maxlen)
    force_cycle = rng.random() < 0.5
    cycle_at = rng.randint(0, max(0, n // 2)) if force_cycle else -1
    while len(ops) < n:
        live = list(sim.edges)
        accs = [a for a in live if sim.acc(a)]
        if len(ops) >= cycle_at >= 0 and force_cycle:
            force_cycle = False
            # a cycle of k nodes, built from nodes the driver can reach (allocating if needed)
            k = rng.randint(1, 4)
            while len([a for a in sim.edges if sim.acc(a)]) < k and sim.next < maxnodes:
                emit(rng.choice('av'))
            accs = [a for a in sim.edges if sim.acc(a)]
            if accs:
                ring = rng.sample(accs, min(k, len(accs)))
                for i, a in enumerate(ring):
                    emit('e%x,%x' % (a, ring[(i + 1) % len(ring)]))
                # usually drop what holds the ring (cyclic garbage), sometimes keep one holder
                keep = rng.choice(ring) if rng.random() < 0.4 else None
                for a in ring:
                    if a == keep:
                        continue
                    while sim.handles[a] > 0:
                        emit('h%x' % a)
                    if sim.view[a]:
                        emit('w%x' % a)
            continue
        r = rng.random()
        if (not live or r < 0.18) and sim.next < maxnodes:
            emit('a' if rng.random() < 0.6 else 'v')
        elif r < 0.45 and accs:
            a, b = rng.choice(accs), rng.choice(accs)
            emit('e%x,%x' % (a, b))
        elif r < 0.52 and accs:
            a = rng.choice(accs)
            emit('x%x,%x' % (a, rng.randint(0, max(0, len(sim.edges[a])))))
        elif r < 0.66 and accs:
            a = rng.choice(accs)
            emit(('h%x' if sim.handles[a] > 0 and rng.random() < 0.7 else 'w%x') % a)
        elif r < 0.72 and accs:
            emit('V%x' % rng.choice(accs))
        elif r < 0.78 and accs:
            emit('H%x' % rng.choice(accs))
        elif r < 0.86:
            # arbitrary (possibly dead / never allocated) ids
            a, b = rng.randint(0, sim.next + 1), rng.randint(0, sim.next + 1)
            emit(rng.choice(['e%x,%x' % (a, b), 'x%x,%x' % (a, b), 'h%x' % a, 'w%x' % a, 'V%x' % a, 'H%x' % a]))
        else:
            emit('g')
    emit('g')
    if rng.random() < 0.5:
        # baseline: drop everything held, collect: nothing may survive
        for a in list(sim.edges):
            while sim.handles[a] > 0:
                emit('h%x' % a)
            if sim.view[a]:
                emit('w%x' % a)
        emit('g')
    emit('g')
    return ops


def heap_ops(n, kinds, adj):
    """ops building the heap with n nodes, root kind per node (0 none, 1 handle, 2 view, 3 both)
    and adj[i][j] = multiplicity of the edge i -> j; then two collections"""
    ops = []
    for i in range(n):
        ops.append('v' if kinds[i] in (2, 3) else 'a')
        if kinds[i] == 3:
            ops.append('H%x' % i)
    for i in range(n):
        for j in range(n):
            for _ in range(adj[i][j]):
                ops.append('e%x,%x' % (i, j))
    for i in range(n):
        if kinds[i] == 0:
            ops.append('h%x' % i)
    ops += ['g', 'g']
    return ops


def all_heaps(n, kinds_range=(0, 1, 2)):
    for kinds in itertools.product(kinds_range, repeat=n):
        for bits in range(1 << (n * n)):
            adj = [[(bits >> (i * n + j)) & 1 for j in range(n)] for i in range(n)]
            yield heap_ops(n, kinds, adj)


def random_heap(rng, n):
    kinds = [rng.choice((0, 0, 1, 2, 3)) for _ in range(n)]
    p = rng.choice((0.15, 0.3, 0.5))
    adj = [[(2 if rng.random() < 0.1 else 1) if rng.random() < p else 0 for _ in range(n)] for _ in range(n)]
    return heap_ops(n, kinds, adj)


# ---------------------------------------------------------------- K + oracle on scripted heaps

def run_heap_cases(run, cases, impl_exe, model_exe, label):
    """cases: (id, ops list)"""
    full = [(cid, 'gcheap', ['ops', ';'.join(ops)], ops) for cid, ops in cases]
    impl = vlib.run_sharded(impl_exe, [vlib.impl_line(c) for c in full], timeout=300)
    model = vlib.run_sharded(model_exe, ['%s\t%s' % (c[0], c[2][1]) for c in full], timeout=600)
    for cid, _, fields, ops in full:
        run.evaluations += 1
        ir, mr = impl.get(cid, 'NOOUTPUT'), model.get(cid, 'NOOUTPUT')
        replay = {'kind': 'heap', 'ops': fields[1], 'impl': ir[:2000], 'model': mr[:2000]}
        bad, nontriv = oracle(ops, ir)
        if bad:
            run.violation(bad[0], 'scripted heap %s: %s' % (fields[1][:200], bad[1]), replay)
        elif mr.startswith('MODELEXC') or mr in ('NOOUTPUT', 'TIMEOUT') or mr.startswith('CRASH'):
            run.violation('gc-model-machinery', 'model driver failed: %s' % mr[:200], replay, concrete=False)
        elif model_view(ir) != mr:
            iv = model_view(ir).split(';')
            mv = mr.split(';')
            same_sets = len(iv) == len(mv) and all(
                (a == b) or (a.startswith('g') and b.startswith('g') and sorted(a[1:].split(',')) == sorted(b[1:].split(',')))
                for a, b in zip(iv, mv))
            if same_sets:
                run.violation('gc-order-correspondence',
                              'correspondence gc: same survivors but the object vector order differs from the model '
                              '(count/mark/sweep loops no longer the modelled ones): impl %s / model %s' % (model_view(ir)[:160], mr[:160]),
                              replay, concrete=False)
            else:
                run.violation('gc-correspondence', 'correspondence gc: implementation %s / model %s' % (model_view(ir)[:160], mr[:160]),
                              replay, concrete=False)
        if nontriv:
            run.nontrivial.add(fields[1])
        run.count(label)
        run.count('heap_ops_total', len(ops))
        run.count('heap_gcs', sum(1 for o in ops if o == 'g'))
        if len(run.samples) < 2 and nontriv:
            run.samples.append({'component': 'gcheap', 'ops': fields[1][:300], 'result': ir[:300]})


# ---------------------------------------------------------------- evaluator schedule independence

def ui_programs(repo):
    """(name, source bytes, virtual files) for every ui-test program"""
    out = []
    root = os.path.join(repo, 'ui-tests')
    for sub in ('pass', 'fail'):
        for d, _, fs in sorted(os.walk(os.path.join(root, sub))):
            for f in sorted(fs):
                if f.endswith('.jsonnet'):
                    p = os.path.join(d, f)
                    imp = {}
                    for d2, _, fs2 in os.walk(d):
                        for f2 in fs2:
                            p2 = os.path.join(d2, f2)
                            if p2 != p and os.path.getsize(p2) < 20000:
                                imp[os.path.relpath(p2, d)] = open(p2, 'rb').read()
                        break   # siblings only (plus one level below, next loop)
                    for d2 in sorted(os.listdir(d)):
                        q = os.path.join(d, d2)
                        if os.path.isdir(q):
                            for f2 in sorted(os.listdir(q)):
                                p2 = os.path.join(q, f2)
                                if os.path.isfile(p2) and os.path.getsize(p2) < 20000:
                                    imp[os.path.join(d2, f2)] = open(p2, 'rb').read()
                    out.append((os.path.relpath(p, root), open(p, 'rb').read(), imp))
    return out


TEMPLATES = [
    # (name, text with %(n)d %(m)d)
    ('rec_array', 'local f(n) = if n == 0 then [] else [{k: n, v: [n, n + 1]}] + f(n - 1); local a = f(%(n)d); std.length(a) + a[%(m)d %% std.length(a)].k'),
    ('lazy_then_force', 'local big = std.makeArray(%(n)d, function(i) {i: i, s: std.toString(i)}); local keep = big[%(m)d %% %(n)d]; local junk = std.foldl(function(a, b) a + b.i, std.makeArray(%(n)d, function(i) {i: i}), 0); [junk, keep.s, keep.i]'),
    ('cyclic_objects', 'local mk(i) = {local me = self, i: i, me: me, peer: mk2(i)}, mk2(i) = {back: mk(i + 1), i: i}; local xs = [mk(i).peer.back.me.i for i in std.range(0, %(n)d)]; std.foldl(function(a, b) a + b, xs, 0)'),
    ('closures', 'local adders = [function(x) x + i for i in std.range(0, %(n)d)]; std.foldl(function(acc, f) f(acc), adders, %(m)d)'),
    ('super_chain', 'local base = {v: 0, w: [self.v]}; local ext(o, i) = o {v: super.v + i, u+: {["k" + i]: i}}; local o = std.foldl(ext, std.range(1, %(n)d %% 60 + 1), base {u: {}}); [o.v, o.w, std.length(std.objectFields(o.u))]'),
    ('comprehension', '{["f" + i]: [j * i for j in std.range(0, %(m)d %% 9) if j %% 2 == 0] for i in std.range(0, %(n)d)}'),
    ('sort_keyf', 'std.sort(std.makeArray(%(n)d, function(i) {k: (i * 7919) %% 101, p: [i]}), function(o) o.k)[%(m)d %% %(n)d]'),
    ('error_deep', 'local f(n) = if n == 0 then error "boom" + std.length(std.makeArray(%(n)d, function(i) [i])) else {a: f(n - 1)}.a; f(%(m)d %% 40 + 1)'),
    ('trace_calls', 'local f(n) = if n == 0 then 0 else std.trace("t" + n, n) + f(n - 1); f(%(m)d %% 6 + 1) + std.length(std.makeArray(%(n)d, function(i) {a: i}))'),
    ('strings_join', 'std.length(std.join(",", [std.toString({a: i, b: [i, i]}) for i in std.range(0, %(n)d)]))'),
    ('manifest_nested', 'std.length(std.manifestJsonEx(std.foldl(function(acc, i) {n: acc, i: [i]}, std.range(0, %(n)d %% 200), null), " "))'),
    ('equals_deep', 'local mk(n) = std.makeArray(n, function(i) {a: [i, {b: i}]}); mk(%(n)d) == mk(%(n)d)'),
    ('set_ops', 'std.length(std.setUnion(std.set(std.makeArray(%(n)d, function(i) (i * 31) %% 97)), std.set(std.makeArray(%(n)d, function(i) (i * 17) %% 89))))'),
    ('mapwithkey_prune', 'std.prune(std.mapWithKey(function(k, v) if v %% 3 == 0 then null else {k: k, v: [v]}, {["x" + i]: i for i in std.range(0, %(n)d)}))'),
    ('flatmap_filter', 'std.length(std.filter(function(x) x.a %% 2 == 0, std.flatMap(function(i) [{a: i}, {a: i + 1}], std.range(0, %(n)d))))'),
    ('tailstrict', 'local f(n, acc) = if n == 0 then acc else f(n - 1, acc + [n]) tailstrict; std.length(f(%(n)d %% 300, []))'),
    ('object_asserts', 'local mk(i) = {assert self.i >= 0 : "neg", i: i, arr: [self.i, i]}; std.foldl(function(a, o) a + o.arr[0], [mk(i) for i in std.range(0, %(n)d)], 0)'),
    ('assert_fail_deep', 'local mk(i) = {assert self.i < %(m)d : "too big " + self.i, i: i, arr: std.makeArray(20, function(j) [j])}; std.foldl(function(a, o) a + o.i, [mk(i) for i in std.range(0, %(n)d)], 0)'),
    ('mergepatch', 'std.mergePatch(std.foldl(function(a, i) a {["k" + i]: {v: i, w: [i]}}, std.range(0, %(n)d %% 80), {}), {k1: null, k2: {v: null}})'),
    ('format_many', 'std.length(std.join("", ["%%s-%%d-%%5.2f" %% [std.toString([i]), i, i / 3] for i in std.range(0, %(n)d)]))'),
    ('parse_json', 'std.length(std.parseJson(std.manifestJson(std.makeArray(%(n)d %% 400, function(i) {a: i, b: [i]}))))'),
    ('thunk_cycle_garbage', 'local junk(i) = local a = {b: b, i: i}, b = {a: a, arr: [a, b]}; a.b.a.i; std.foldl(function(acc, i) acc + junk(i), std.range(0, %(n)d), 0)'),
]


def gen_programs(rng, count, sizes=(5, 40, 120, 400)):
    out = []
    for k in range(count):
        name, t = TEMPLATES[k % len(TEMPLATES)]
        n = rng.choice(sizes) if k >= len(TEMPLATES) else 120
        m = rng.randint(0, 50)
        out.append(('gen/%s/%d/%d' % (name, n, m), (t % {'n': n, 'm': m}).encode(), {}))
    return out


def dotted(b):
    return '.'.join('%x' % x for x in b)


def eval_case(cid, src, imp, period, stack=None):
    opts = []
    if period:
        opts.append('gc=%x' % period)
    if stack:
        opts.append('stack=%x' % stack)
    if imp:
        opts.append('imp=' + '|'.join('%s:%s' % (dotted(k.encode()), dotted(v)) for k, v in sorted(imp.items())))
    return (cid, 'eval', [';'.join(opts), hxl(list(src))])


def imp_opt(imp):
    return ['imp=' + '|'.join('%s:%s' % (dotted(k.encode()), dotted(v)) for k, v in sorted(imp.items()))] if imp else []


def measure_steps(impl_exe, programs):
    """upper estimate of the number of evaluator steps (maybe_gc calls) of each program: one run
    through gcheap/prog with period 0x400, steps <= (collections + 1) * 0x400"""
    cases = [('m%d' % pi, 'gcheap', ['prog', ';'.join(['gc=400'] + imp_opt(imp)), '1', hxl(list(src))])
             for pi, (name, src, imp) in enumerate(programs)]
    res = vlib.run_sharded(impl_exe, [vlib.impl_line(c) for c in cases], timeout=900)
    out = []
    for pi in range(len(programs)):
        m = re.search(r'\tR=([0-9a-f]+)', res.get('m%d' % pi, ''))
        out.append(((int(m.group(1), 16) - 2 + 1) * 0x400) if m else None)
    return out


def check_schedules(run, impl_exe, programs, rng, label, budget=20000):
    steps = measure_steps(impl_exe, programs)
    cases = []
    meta = {}
    for pi, (name, src, imp) in enumerate(programs):
        if steps[pi] is None:
            run.count('sched_unmeasured')   # crash/timeout of the measuring run: still compared below
            pmin = 64
        else:
            pmin = max(1, -(-steps[pi] // budget))
        rp = rng.choice([4, 5, 11, 13, 29, 64, 257])
        periods = sorted(set([0, pmin, pmin + 1] + [p for p in (1, 2, 3, 7, rp) if p >= pmin]))
        run.count('sched_pmin_%s' % ('1' if pmin == 1 else '2-7' if pmin <= 7 else '8+'))
        for per in periods:
            cid = 'e%d_%x' % (pi, per)
            cases.append(eval_case(cid, src, imp, per))
            meta[cid] = (pi, per)
    res = vlib.run_sharded(impl_exe, [vlib.impl_line(c) for c in cases], timeout=900)
    by = {}
    for cid, (pi, per) in meta.items():
        by.setdefault(pi, {})[per] = res.get(cid, 'NOOUTPUT')
    for pi, (name, src, imp) in enumerate(programs):
        rs = by[pi]
        base = rs[0]
        run.evaluations += len(rs)
        run.count(label)
        cls = '/'.join(base.split('\t')[:3]) if base.startswith('ERR') else base.split('\t')[0]
        run.count('sched_outcome_' + cls.split('/')[0] + ('_' + cls.split('/')[1] if '/' in cls else ''))
        for per, r in sorted(rs.items()):
            f0 = r.split('\t')[0]
            rep = {'kind': 'sched', 'name': name, 'source_hex': hxl(list(src)), 'imp': {k: hxl(list(v)) for k, v in imp.items()},
                   'period': per, 'default': base[:3000], 'got': r[:3000]}
            if f0 in ('PANIC', 'CRASH') and base.split('\t')[0] not in ('PANIC', 'CRASH'):
                run.violation('gc-schedule-panic', 'program %s: collecting on every %d-th step gives %s (default schedule: %s)'
                              % (name, per, r[:160], base[:80]), rep)
            elif f0 in ('TIMEOUT', 'NOOUTPUT'):
                run.count('sched_timeout')
            elif r != base and base.split('\t')[0] not in ('TIMEOUT', 'NOOUTPUT'):
                run.violation('gc-schedule-dependence', 'program %s: answer with a collection every %d-th step differs from the default schedule: %s / %s'
                              % (name, per, r[:160], base[:160]), rep)
        if base.split('\t')[0] in ('OK', 'ERR'):
            run.nontrivial.add(('sched', name))
        if name.startswith('gen/') and len([s for s in run.samples if s.get('component') == 'eval']) < 2:
            run.samples.append({'component': 'eval', 'program': src.decode('utf-8', 'replace')[:200], 'periods': sorted(rs), 'result': base[:120]})


def check_baseline(run, impl_exe, programs, rng, label, heavy=400000):
    """long-lived Program: object count after dropping all results and collecting == baseline"""
    cases = []
    meta = {}
    st = measure_steps(impl_exe, programs)
    simple = [p for p, n in zip(programs, st) if n is not None and n <= heavy]
    run.count('baseline_skipped_heavy', len(programs) - len(simple))
    batch = 6
    k = 0
    for b in range(0, len(simple), batch):
        grp = simple[b:b + batch]
        for per in (0, rng.choice([17, 64, 257])):
            cid = 'b%d' % k
            k += 1
            imp = {}
            for (_, _, i) in grp:
                imp.update(i)
            opts = (['gc=%x' % per] if per else []) + (['imp=' + '|'.join('%s:%s' % (dotted(k.encode()), dotted(v)) for k, v in sorted(imp.items()))] if imp else [])
            cases.append((cid, 'gcheap', ['prog', ';'.join(opts), '3'] + [hxl(list(s)) for (_, s, _) in grp]))
            meta[cid] = (grp, per)
    res = vlib.run_sharded(impl_exe, [vlib.impl_line(c) for c in cases], timeout=900)
    for cid, (grp, per) in meta.items():
        r = res.get(cid, 'NOOUTPUT')
        run.evaluations += 1
        run.count(label)
        rep = {'kind': 'baseline', 'period': per, 'sources_hex': [hxl(list(s)) for (_, s, _) in grp], 'names': [n for (n, _, _) in grp],
               'imps': [{k: hxl(list(v)) for k, v in i.items()} for (_, _, i) in grp], 'got': r[:500]}
        f = r.split('\t')
        if f[0] in ('TIMEOUT', 'NOOUTPUT'):
            run.count('baseline_timeout')
            continue
        if not f[0].startswith('B='):
            run.violation('gc-baseline-crash', 'long-lived Program over %s: %s' % ([n for (n, _, _) in grp], r[:200]), rep)
            continue
        base = int(f[0][2:], 16)
        counts = [int(x, 16) for x in f[1][2:].split(',')]
        if any(c != base for c in counts):
            run.violation('gc-baseline-leak', 'long-lived Program: object count after dropping results and gc() is %s, baseline %d (programs %s, period %d)'
                          % (counts, base, [n for (n, _, _) in grp], per), rep)
        run.nontrivial.add(('baseline', tuple(n for (n, _, _) in grp), per))


# ---------------------------------------------------------------- main check

def corpus_cases():
    out = []
    p = os.path.join(vlib.VERIF, 'corpus', 'c03_heaps.txt')
    if os.path.exists(p):
        for i, l in enumerate(open(p)):
            l = l.strip()
            if l and not l.startswith('#'):
                out.append(('k%d' % i, [o for o in l.split(';') if o]))
    return out


def corpus_programs():
    out = []
    p = os.path.join(vlib.VERIF, 'corpus', 'c03_programs.txt')
    if os.path.exists(p):
        for i, l in enumerate(open(p)):
            l = l.rstrip('\n')
            if l.strip() and not l.startswith('#'):
                out.append(('corpus/%d' % i, l.encode(), {}))
    return out


def check(run):
    import time
    t0 = time.time()
    def tick(what):
        vlib.log('[C03 %6.1fs] %s' % (time.time() - t0, what))
    rng = vlib.rng_for(run.seed, ID)
    thorough = run.tier == 'thorough'
    run.rule = ('heap: (a) exhaustive heaps of <=3 nodes (every root kind none/handle/view per node x every edge set incl. self loops), '
                '4 nodes sampled (all 4-node heaps with 0/1 edges in thorough are sampled, not enumerated), built through the hook and collected twice; '
                '(b) random op sequences (length <=40, <=12 nodes, a cycle forced with p=1/2, ~8% ops on arbitrary/dead ids, half of them end by dropping '
                'everything); non-trivial = a collection of a heap that holds a cycle or unreachable nodes.  sched: every ui-tests pass/fail program and '
                'allocation-heavy generated programs, each under gc period default,1,2,3,7,random; non-trivial = distinct program with an OK/ERR answer.  '
                'baseline: batches of 6 programs on one Program, 3 rounds, default and a random period.')
    run.assume = ['Rc/Weak counts behave as documented (strong_count = 1 + views, weak_count = number of Weak handles)',
                  'the test node of the hook traces exactly its edge list; for the real data types this is the T obligation trace_table_exact',
                  'that the evaluator keeps every live datum behind a view or an external handle is NOT proved: it is searched by the schedule-independence runs']
    # T
    try:
        summ = translate(vlib.REPO)
        run.add_obligation('T:GcTrace field table translated from data.rs/trace.rs/mod.rs', True)
        run.extra['gctrace_summary'] = summ
    except Exception as e:
        run.add_obligation('T:GcTrace field table translated from data.rs/trace.rs/mod.rs', False, '%s: %s' % (type(e).__name__, e))
    tick('translated')
    # proofs
    pres = vlib.prove(ID, THEOREMS, ALLOWED_AXIOMS)
    if not pres['ok'] and any('unknown location' in f for f in pres['failed']):
        # make failed without naming a file: another check regenerating the shared Makefile; once more
        time.sleep(5)
        pres = vlib.prove(ID, THEOREMS, ALLOWED_AXIOMS)
    run.add_proof(pres, THEOREMS)
    tick('proved')
    # build
    impl_exe = vlib.build_harness()
    tick('harness built')
    model_exe = vlib.build_model('gc')
    tick('model built')
    # K + oracle (1): scripted heaps
    cases = corpus_cases()
    run_heap_cases(run, cases, impl_exe, model_exe, 'heap_corpus')
    cases = []
    k = 0
    for n in (1, 2):
        for ops in all_heaps(n, (0, 1, 2, 3)):
            cases.append(('x%d' % k, ops)); k += 1
    if thorough:
        for ops in all_heaps(3):
            cases.append(('x%d' % k, ops)); k += 1
    else:
        hs = list(all_heaps(3))
        for ops in rng.sample(hs, 2500):
            cases.append(('x%d' % k, ops)); k += 1
    run_heap_cases(run, cases, impl_exe, model_exe, 'heap_exhaustive_small')
    cases = []
    for i in range(60000 if thorough else 800):
        cases.append(('y%d' % i, random_heap(rng, rng.choice((4, 4, 5, 6, 8)))))
    run_heap_cases(run, cases, impl_exe, model_exe, 'heap_random_shape')
    cases = []
    for i in range(80000 if thorough else 3000):
        cases.append(('s%d' % i, gen_ops(rng)))
    run_heap_cases(run, cases, impl_exe, model_exe, 'heap_op_sequences')
    if thorough:
        # the collector's debug_assert!(sub_obj.mark.get()) is a Panic site of the model proved unreachable:
        # run a slice of the scripts on the dev profile (debug assertions and overflow checks on)
        dev_exe = vlib.build_harness('dev')
        run_heap_cases(run, corpus_cases() + cases[:8000], dev_exe, model_exe, 'heap_dev_profile')
    tick('heaps done')
    # (2) schedule independence, (3) baseline
    ui = ui_programs(vlib.REPO)
    gen = gen_programs(rng, 400 if thorough else 44, (5, 40, 120, 400, 1200) if thorough else (5, 40, 120, 400))
    cp = corpus_programs()
    progs = cp + gen + (ui if thorough else rng.sample(ui, min(len(ui), 80)))
    check_schedules(run, impl_exe, progs, rng, 'sched_programs', 60000 if thorough else 8000)
    tick('schedules done')
    check_baseline(run, impl_exe, cp + gen + [p for p in ui if p[0].startswith('pass')][:(10 ** 6 if thorough else 30)], rng, 'baseline_batches', 10 ** 7 if thorough else 400000)
    tick('baseline done')


def replay(run, path):
    j = json.load(open(path))
    r = j.get('replay', {})
    impl_exe = vlib.build_harness()
    if isinstance(r, dict) and r.get('kind') == 'heap':
        model_exe = vlib.build_model('gc')
        run_heap_cases(run, [('r0', [o for o in r['ops'].split(';') if o])], impl_exe, model_exe, 'replay')
    elif isinstance(r, dict) and r.get('kind') == 'sched':
        src = bytes(int(x, 16) for x in r['source_hex'].split(',')) if r['source_hex'] else b''
        imp = {k: bytes(int(x, 16) for x in v.split(',')) if v else b'' for k, v in r.get('imp', {}).items()}
        check_schedules(run, impl_exe, [(r.get('name', 'replay'), src, imp)], vlib.rng_for(run.seed, ID), 'replay')
    elif isinstance(r, dict) and r.get('kind') == 'baseline':
        srcs = [bytes(int(x, 16) for x in s.split(',')) if s else b'' for s in r['sources_hex']]
        imps = [{k: bytes(int(x, 16) for x in v.split(',')) if v else b'' for k, v in i.items()} for i in r.get('imps', [{}] * len(srcs))]
        check_baseline(run, impl_exe, list(zip(r['names'], srcs, imps)), vlib.rng_for(run.seed, ID), 'replay')
    else:
        print('replay file names a broken obligation, not an input:', json.dumps(j.get('no_longer_checks', j), indent=1)[:2000])
        try:
            translate(vlib.REPO)
        except Exception as e:
            run.add_obligation('T:GcTrace field table', False, str(e))
        pres = vlib.prove(ID, THEOREMS, ALLOWED_AXIOMS)
        run.add_proof(pres, THEOREMS)
    for v in run.violations:
        print('REPRODUCED:', v['what'])
    if not run.violations and not run.failed_obligations:
        print('not reproduced')
    return 1 if (run.violations or run.failed_obligations) else 0
