"""C05 — every emitted document is well-formed and decodes to the value it came from.

Proof:  Props/C05.v over Model/JsonEsc.v (escaper; its match arms re-translated from the current
        source by tools/translate_escape.py, T), Model/Manifest.v (do_manifest_json for any
        format record) and Model/JsonDec.v (specification-level RFC 8259 decoder).
K:      strings / keys / values x formats -> implementation (harness component `eval`: default
        output, std.manifestJsonEx/Json/JsonMinified/toString, std.escapeStringJson/Python,
        std.manifestPython/TomlEx/YamlDoc string level; the real CLI: default, -y, -m) vs the
        extracted models, byte-exact.  Number text comes from the implementation and is checked
        on the Python side (reads back to the same double, shortest, JSON number grammar).
Search: implementation output alone through strict Python json.loads and the extracted Coq
        decoder, compared with the source value (visible fields, sorted); ast.literal_eval,
        tomllib, PyYAML and the implementation's own std.parseJson / std.parseYaml as test-level
        decoders for the other targets.
"""
import os, sys, re, json, struct, subprocess, tempfile, shutil, ast, math, keyword
import vlib
from vlib import hx, hxl, cps, uncps
sys.path.insert(0, os.path.dirname(os.path.dirname(os.path.abspath(__file__))))
import translate_escape

try:
    import tomllib
except Exception:            # pragma: no cover
    tomllib = None
try:
    import yaml as pyyaml
except Exception:            # pragma: no cover
    pyyaml = None

ID = 'C05'
COMPONENTS = ['jsonesc', 'manifest']
THEOREMS = ['C05_esc_table_matches_model', 'C05_key_tables_match_model', 'C05_escape_valid', 'C05_escape_string_json_valid',
            'C05_unescape_escape', 'C05_decoder_strings_strict', 'C05_manifest_parse_roundtrip', 'C05_manifest_parse_roundtrip_finite',
            'C05_manifest_injective', 'C05_cli_default_roundtrip', 'C05_cli_multi_roundtrip',
            'C05_cli_yaml_stream_roundtrip', 'C05_ws_erasure', 'C05_builtin_formats_ws', 'C05_toml_basic_string_ok',
            'C05_python_string_ok', 'C05_yaml_double_quoted_ok', 'C05_safe_toml_plain_sound', 'C05_escape_key_toml_ok', 'C05_safe_yaml_plain_chars',
            'C05_safe_yaml_plain_core_string_refuted', 'C05_nonvacuous_hyps',
            'C05_nonvacuous_runs']
ALLOWED_AXIOMS = set()


def translate(repo):
    return translate_escape.main(repo, os.path.join(vlib.COQ, 'Gen', 'EscTable.v'))


TRANSLATORS = [translate]

# ---------------------------------------------------------------- values
# source value: ('n',) ('b',bool) ('d',float) ('s',str) ('a',[v]) ('o',[(key, v, hidden)])
# expected (manifested) value: the same without hidden members, members sorted by key


def bits(x):
    return struct.unpack('<Q', struct.pack('<d', x))[0]


def from_bits(b):
    return struct.unpack('<d', struct.pack('<Q', b))[0]


def expected(v):
    t = v[0]
    if t == 'a':
        return ('a', [expected(x) for x in v[1]])
    if t == 'o':
        ms = [(m[0], expected(m[1])) for m in v[1] if not m[2]]
        ms.sort(key=lambda kv: kv[0])
        return ('o', ms)
    return v


def enc(v):
    """wire encoding of an expected value (see ocaml/comp_manifest.ml)"""
    t = v[0]
    if t == 'n':
        return 'n'
    if t == 'b':
        return 't' if v[1] else 'f'
    if t == 'd':
        return 'd%x' % bits(v[1])
    if t == 's':
        return 's' + cps(v[1])
    if t == 'a':
        return ' '.join(['a%x' % len(v[1])] + [enc(x) for x in v[1]])
    if t == 'o':
        return ' '.join(['o%x' % len(v[1])] + ['s%s %s' % (cps(m[0]), enc(m[1])) for m in v[1]])
    raise ValueError(t)


def doubles_of(v, acc):
    t = v[0]
    if t == 'd':
        acc.add(bits(v[1]))
    elif t == 'a':
        for x in v[1]:
            doubles_of(x, acc)
    elif t == 'o':
        for m in v[1]:
            doubles_of(m[1], acc)
    return acc


def strings_of(v, acc):
    t = v[0]
    if t == 's':
        acc.append(v[1])
    elif t == 'a':
        for x in v[1]:
            strings_of(x, acc)
    elif t == 'o':
        for m in v[1]:
            acc.append(m[0])
            strings_of(m[1], acc)
    return acc


def has_null(v):
    t = v[0]
    if t == 'n':
        return True
    if t == 'a':
        return any(has_null(x) for x in v[1])
    if t == 'o':
        return any(has_null(m[1]) for m in v[1])
    return False


def num_src(x):
    """Jsonnet source text of a double (Python repr is a valid Jsonnet literal; -x is unary minus)"""
    r = repr(x)
    if r.endswith('.0'):
        r = r[:-2]
    return '(%s)' % r if r.startswith('-') else r


def str_src(s, rng):
    """Jsonnet double-quoted literal denoting exactly the code points of s"""
    out = ['"']
    for ch in s:
        c = ord(ch)
        if ch in '"\\' or c < 0x20 or c == 0x7f:
            out.append('\\u%04x' % c)
        elif c < 0x7f:
            out.append(ch)
        elif c >= 0x10000:
            if rng.random() < 0.5:
                out.append(ch)
            else:
                d = c - 0x10000
                out.append('\\u%04x\\u%04x' % (0xD800 + (d >> 10), 0xDC00 + (d & 0x3FF)))
        else:
            out.append(ch if rng.random() < 0.5 else '\\u%04X' % c)
    out.append('"')
    return ''.join(out)


def src_of(v, rng):
    t = v[0]
    if t == 'n':
        return 'null'
    if t == 'b':
        return 'true' if v[1] else 'false'
    if t == 'd':
        return num_src(v[1])
    if t == 's':
        return str_src(v[1], rng)
    if t == 'a':
        return '[' + ', '.join(src_of(x, rng) for x in v[1]) + ']'
    if t == 'o':
        return '{' + ', '.join('%s%s %s' % (str_src(m[0], rng), '::' if m[2] else ':', src_of(m[1], rng)) for m in v[1]) + '}'
    raise ValueError(t)


def to_py(v, numkind=float):
    """expected value as the plain Python object a target-language decoder should return"""
    t = v[0]
    if t == 'n':
        return None
    if t in ('b', 's'):
        return v[1]
    if t == 'd':
        return v[1]
    if t == 'a':
        return [to_py(x) for x in v[1]]
    return {m[0]: to_py(m[1]) for m in v[1]}


def py_same(a, b, signed_zero=True):
    """deep equality: numbers as doubles (ints converted), bools distinct from numbers, dict order ignored"""
    if isinstance(a, bool) or isinstance(b, bool):
        return isinstance(a, bool) and isinstance(b, bool) and a == b
    if isinstance(a, (int, float)) and isinstance(b, (int, float)):
        try:
            fa, fb = float(a), float(b)
        except OverflowError:
            return False
        if signed_zero:
            return bits(fa) == bits(fb)
        return fa == fb
    if isinstance(a, str) and isinstance(b, str):
        return a == b
    if a is None or b is None:
        return a is None and b is None
    if isinstance(a, list) and isinstance(b, list):
        return len(a) == len(b) and all(py_same(x, y, signed_zero) for x, y in zip(a, b))
    if isinstance(a, dict) and isinstance(b, dict):
        return a.keys() == b.keys() and all(py_same(a[k], b[k], signed_zero) for k in a)
    return False


class NotJson(Exception):
    pass


def _const(name):
    raise NotJson('constant %s' % name)


def py_json_decode(text):
    """strict RFC 8259 decoding with Python's json; returns an expected-value tree (member order kept)"""
    def conv(o):
        if o is None:
            return ('n',)
        if isinstance(o, bool):
            return ('b', o)
        if isinstance(o, float):
            return ('d', o)
        if isinstance(o, str):
            return ('s', o)
        if isinstance(o, list):
            return ('a', [conv(x) for x in o])
        if isinstance(o, tuple) and o[0] == '__obj__':
            return ('o', [(k, conv(x)) for k, x in o[1]])
        raise NotJson('unexpected python object %r' % (o,))
    obj = json.loads(text, strict=True, parse_float=float, parse_int=float, parse_constant=_const,
                     object_pairs_hook=lambda ps: ('__obj__', ps))
    return conv(obj)


# ---------------------------------------------------------------- generators

C0C1 = list(range(0, 0x20)) + list(range(0x7f, 0xa0))
SPECIAL_CPS = [0x22, 0x5c, 0x2f, 0x27, 0x20, 0x7e, 0xa0, 0xad, 0x85, 0x2028, 0x2029, 0xd7ff, 0xe000, 0xfeff, 0xfffd,
               0xfffe, 0xffff, 0x10000, 0x1f600, 0x1fffe, 0x1ffff, 0x2fffe, 0xe0001, 0xf0000, 0xffffd, 0x100000, 0x10fffd,
               0x10fffe, 0x10ffff, 0x7ff, 0x800, 0x80, 0xff, 0x100]


def scalar(c):
    return not (0xd800 <= c <= 0xdfff) and c <= 0x10ffff


def rand_cp(rng):
    r = rng.random()
    if r < 0.22:
        return rng.choice(C0C1)
    if r < 0.34:
        return rng.choice(SPECIAL_CPS)
    if r < 0.62:
        return rng.randint(0x20, 0x7e)
    if r < 0.72:
        return rng.randint(0xa0, 0x7ff)
    if r < 0.86:
        while True:
            c = rng.randint(0x800, 0xffff)
            if scalar(c):
                return c
    plane = rng.randint(1, 16)
    return plane * 0x10000 + rng.choice([0, 1, 0xfffd, 0xfffe, 0xffff, rng.randint(0, 0xffff)])


def gen_string(rng, maxlen=8):
    n = rng.choice([0, 1, 1, 2, 3, rng.randint(0, maxlen)])
    return ''.join(chr(rand_cp(rng)) for _ in range(n))


BOUNDARY_DOUBLES = [0.0, -0.0, 5e-324, -5e-324, 2.2250738585072014e-308, 2.225073858507201e-308,
                    1.7976931348623157e308, -1.7976931348623157e308, 9007199254740991.0, 9007199254740992.0,
                    9007199254740993.0, 9007199254740994.0, 0.1, 0.2, 0.30000000000000004, 1e21, 1e22, 1e23, 1e-7, 1e-6,
                    1e-5, 123456789012345680000.0, 1.5, -1.5, 1.0, -1.0, 3.0, 1e15, 1e16, 1e17, 4.35, 0.5, 2.5e-5, 1e100,
                    1e-100, 4.9406564584124654e-324, 2.0 ** 63, 2.0 ** 64, -(2.0 ** 63), 1 / 3, 2 / 3, 100.0, 1e300, 1.2e-322]


def gen_double(rng):
    r = rng.random()
    if r < 0.45:
        return rng.choice(BOUNDARY_DOUBLES)
    if r < 0.65:
        return float(rng.randint(-1000, 1000))
    if r < 0.8:
        return rng.randint(-10 ** 6, 10 ** 6) / rng.choice([10, 100, 1000, 7, 3])
    while True:
        x = from_bits(rng.getrandbits(64))
        if math.isfinite(x):
            return x


def gen_value(rng, depth, keygen=None):
    keygen = keygen or (lambda: gen_string(rng, 6))
    r = rng.random()
    if depth <= 0 or r < 0.42:
        k = rng.random()
        if k < 0.1:
            return ('n',)
        if k < 0.22:
            return ('b', rng.random() < 0.5)
        if k < 0.55:
            return ('d', gen_double(rng))
        if k < 0.9:
            return ('s', gen_string(rng))
        return rng.choice([('a', []), ('o', [])])
    if r < 0.7:
        n = rng.choice([0, 1, 1, 2, 3, 4])
        return ('a', [gen_value(rng, depth - 1, keygen) for _ in range(n)])
    n = rng.choice([0, 1, 1, 2, 3, 4])
    ms, seen = [], set()
    for _ in range(n):
        k = keygen()
        if k in seen:
            continue
        seen.add(k)
        ms.append((k, gen_value(rng, depth - 1, keygen), rng.random() < 0.15))
    return ('o', ms)


def nest(kind, depth, leaf):
    v = leaf
    for i in range(depth):
        v = ('a', [v]) if (kind == 'a' or (kind == 'm' and i % 2)) else ('o', [('k', v, False)])
    return v


WS_FORMATS_I = ['', ' ', '\t', '    ']
WS_FORMATS_N = ['', '\n', '\r\n']
WS_FORMATS_K = [':', ': ', ' : ', '\t:\n', ':\r\n ']
NONWS_FORMATS = [('ab', '\n', ': '), (' ', '\n', ' => '), ('', '', ''), ('"', ',', ':'), ('\u00a0', '\n', ': '), (' ', 'x', ':'),
                 ('--', '\n', '=')]


def is_ws_str(s):
    return all(c in ' \t\n\r' for c in s)


def is_ws_sep(s, ch):
    return s.count(ch) == 1 and is_ws_str(s.replace(ch, ''))


YAML_KEY_WORDS = ['null', 'Null', 'NULL', 'true', 'True', 'TRUE', 'false', 'y', 'Y', 'n', 'N', 'yes', 'Yes', 'no', 'NO', 'on', 'On',
                  'off', 'OFF', '.nan', '.NaN', '.inf', '.Inf', '-.inf', '+.inf', '~', '-', '--', '---', '...', '.', '..', '-a',
                  'a-', '1', '-1', '--1', '1-', '1_000', '_1', '1e5', '1E5', '1e-5', '-1e5', '1.5', '.5', '5.', '1.5e3', '1.5e-3',
                  '-1.5e-3', '1.e5', '1.5.3', '0x1F', '0X1F', '-0x1f', '0x', '0xg', '0b101', '-0b1', '0B1', '0b', '0b2', '0o17', '0O17',
                  '017', '2020-01-01', '2020-1-1', '20-20-20', '1-2-3-4', '12:30', 'a/b', 'a.b', 'a_b', 'a b', 'a:b', 'a#b', 'é', '',
                  'e', 'E', 'e5', '_', '__', '-_', '1_', '1__2', '-.5', '-.', '.-', 'e.', '1e', 'nullx', 'xnull', 'Yes.', 'no-',
                  'key', 'KEY9', 'a1', '0a', '9z', 'x-y_z.w/v', '/', '//', 'TRUE.', '+1', '1+', '<<', '=', '!a', '&a', '*a', '@a',
                  '`a', '%a', '?a', '? a', '- a', 'a: b', ' a', 'a ', '\ta', '"a"', "'a'", '[a]', '{a}', 'a,b', '|', '>', '1,5',
                  '0', '00', '-0', '0.0', '0e0', '1e400', '-1e400', '.e5', 'e-', '9223372036854775808', 'inf', 'nan', 'Infinity']


# YAML 1.2.2 core schema (10.3.2): plain scalars that are not strings
YAML12_CORE = re.compile(r'(null|Null|NULL|~|true|True|TRUE|false|False|FALSE|[-+]?[0-9]+|0o[0-7]+|0x[0-9a-fA-F]+'
                         r'|[-+]?(\.[0-9]+|[0-9]+(\.[0-9]*)?)([eE][-+]?[0-9]+)?|[-+]?\.(inf|Inf|INF)|\.(nan|NaN|NAN))\Z')


def gen_key(rng):
    r = rng.random()
    if r < 0.45:
        return rng.choice(YAML_KEY_WORDS)
    if r < 0.8:
        alpha = '0123456789-_.eExXbB/aAfFzZ'
        return ''.join(rng.choice(alpha) for _ in range(rng.randint(1, 6)))
    return gen_string(rng, 5)


# ---------------------------------------------------------------- running the two sides

def eval_cases(impl_exe, progs, timeout=300):
    """progs: list of (id, opts, source text) -> dict id -> result fields"""
    lines = ['%s\teval\t%s\t%s' % (cid, opts, hxl(list(src.encode('utf-8')))) for cid, opts, src in progs]
    res = vlib.run_sharded(impl_exe, lines, timeout)
    return {k: v.split('\t') for k, v in res.items()}


def ok_text(f):
    """('OK', text) or (status, None)"""
    if f and f[0] == 'OK':
        return 'OK', uncps(f[1])
    return (' '.join(f[:3]) if f else 'NOOUTPUT'), None


def ext_opt(s):
    """opts fragment serving string s as std.extVar('s')"""
    return 'ext=73:s:' + '.'.join('%x' % b for b in s.encode('utf-8'))


def number_texts(run, impl_exe, dbl_bits):
    """one evaluation printing every double of the run; checks each text on the Python side"""
    order = sorted(dbl_bits)
    table = {}
    CH = 400
    progs = []
    for i in range(0, len(order), CH):
        chunk = order[i:i + CH]
        progs.append(('n%d' % i, 'ml=0', '[' + ', '.join(num_src(from_bits(b)) for b in chunk) + ']'))
    res = eval_cases(impl_exe, progs)
    num_re = re.compile(r'-?(0|[1-9][0-9]*)(\.[0-9]+)?([eE][+-]?[0-9]+)?\Z')
    for (cid, _, src), i in zip(progs, range(0, len(order), CH)):
        chunk = order[i:i + CH]
        st, text = ok_text(res.get(cid))
        run.evaluations += 1
        if text is None or not (text.startswith('[') and text.endswith(']')):
            run.violation('number-list-failed', 'printing a list of finite doubles failed: %s' % st, {'kind': 'prog', 'opts': 'ml=0', 'source': src})
            continue
        texts = text[1:-1].split(', ')
        if len(texts) != len(chunk):
            run.violation('number-list-shape', 'a list of %d doubles printed %d items' % (len(chunk), len(texts)),
                          {'kind': 'prog', 'opts': 'ml=0', 'source': src})
            continue
        for b, t in zip(chunk, texts):
            x = from_bits(b)
            why = None
            if not num_re.match(t):
                why = 'is not an RFC 8259 number'
            else:
                if bits(float(t)) != b:
                    why = 'reads back as %r' % float(t)
                else:
                    # shortest: no decimal with fewer significant digits reads back to x (Python repr is shortest)
                    sig = lambda s: len(re.sub(r'^0+|0+$', '', re.sub(r'[eE].*$', '', s).replace('-', '').replace('.', '')).strip('0') or '0')
                    if sig(t) > sig(repr(x)):
                        why = 'has %d significant digits, %r has %d' % (sig(t), x, sig(repr(x)))
            if why:
                run.violation('number-text', 'double %r (bits %x) is printed as %s which %s' % (x, b, t[:60], why),
                              {'kind': 'prog', 'opts': 'ml=0', 'source': '[%s]' % num_src(x)})
            table[b] = t
    return table


def numtable_field(table, dbl_bits, extra_texts=()):
    items = ['%x=%s' % (b, cps(table[b])) for b in sorted(dbl_bits) if b in table]
    return ';'.join(items)


RAW_CTL = re.compile('[\x00-\x1f]')


def yaml_caveat(strs):
    """'nonprint': U+FFFE/U+FFFF (outside YAML's c-printable: a finding of its own key);
       'lb11': U+2028/U+2029 (line breaks in YAML 1.1 only — PyYAML folds them; not a YAML 1.2 issue)"""
    if any(ord(c) in (0xfffe, 0xffff) for s in strs for c in s):
        return 'nonprint'
    if any(ord(c) in (0x2028, 0x2029) for s in strs for c in s):
        return 'lb11'
    return None


def classify_invalid(text):
    """specific key for a non-JSON output"""
    m = RAW_CTL.search(text)
    if m:
        c = ord(m.group(0))
        if 0x1a <= c <= 0x1f:
            return 'escape-c0-range-1a-1f'
        if c in (9, 10, 13, 32):
            return 'json-invalid'
        return 'escape-raw-control-%02x' % c
    return 'json-invalid'


# ---------------------------------------------------------------- part 1: the escaper

def escaper_strings(rng, tier):
    strs = []
    for c in list(range(0, 0x120)) + SPECIAL_CPS:
        strs.append(chr(c))
    strs += ['', 'abc', '"\\/', '\\u001a', 'a"b\\c/d', '\x7f\x80\x9f\xa0', ''.join(chr(c) for c in range(0, 0x20)),
             '\x19\x1a', '\x1f ', 'tab\there', 'nl\n', '\r\n', 'é日本𝄞', '\U0010ffff\U00010000']
    for _ in range(120 if tier == 'quick' else 1500):
        strs.append(gen_string(rng, 12))
    if tier == 'thorough':
        # every Unicode scalar value once
        allc = [c for c in range(0x110000) if scalar(c)]
        for i in range(0, len(allc), 4096):
            strs.append(''.join(chr(c) for c in allc[i:i + 4096]))
    else:
        # stratified sample of all planes
        for plane in range(17):
            base = plane * 0x10000
            cs = [base + o for o in (0, 1, 0x7f, 0x80, 0xff, 0x7ff, 0x800, 0xfffd, 0xfffe, 0xffff) if scalar(base + o)]
            cs += [c for c in (base + rng.randint(0, 0xffff) for _ in range(24)) if scalar(c)]
            strs.append(''.join(chr(c) for c in cs))
    return strs


def expect_escaped_py(s):
    """independent re-statement of RFC 8259 escaping as the escaper is meant to do it (used only to word messages)"""
    return json.dumps(s, ensure_ascii=False)


def check_escaper(run, impl_exe, model_exe, rng, strs, label='esc'):
    progs, mlines = [], []
    multi = ('local s = std.extVar("s"); local parts = [std.escapeStringJson(s), std.escapeStringPython(s), '
             'std.manifestPython(s), std.manifestJsonMinified(s), std.toString([s]), std.manifestTomlEx({k: s}, ""), '
             'std.manifestYamlDoc(if std.endsWith(s, "\\n") then s + "x" else s)]; '
             'std.join(",", [std.toString(std.length(p)) for p in parts]) + ":" + std.join("", parts)')
    for i, s in enumerate(strs):
        progs.append(('%s%d' % (label, i), 'ml=0;' + ext_opt(s), 'std.extVar("s")'))
        progs.append(('%sm%d' % (label, i), 'str=1;' + ext_opt(s), multi))
        mlines.append('%s%d\tesc\t%s' % (label, i, cps(s)))
    impl = eval_cases(impl_exe, progs)
    model = vlib.run_sharded(model_exe, mlines, 300)
    for i, s in enumerate(strs):
        cid = '%s%d' % (label, i)
        run.evaluations += 1
        run.count('escaper_strings')
        st, text = ok_text(impl.get(cid))
        mf = model.get(cid, 'NOOUTPUT').split('\t')
        replay = {'kind': 'esc', 'string': cps(s)}
        if mf[0].startswith('MODELEXC') or mf[0] == 'NOOUTPUT' or len(mf) != 3:
            run.violation('model-machinery', 'model driver failed on an escaper case: %s' % mf[0][:80], replay, concrete=False)
            continue
        m_hand, m_tbl, m_dec = uncps(mf[0]), uncps(mf[1]), mf[2]
        if text is None:
            run.violation('escape-eval-failed', 'manifesting the string %r failed: %s' % (s[:40], st), replay)
            continue
        # oracle on the implementation alone: strict JSON decoding gives back the string
        bad = None
        try:
            back = json.loads(text, strict=True)
            if back != s or not isinstance(back, str):
                bad = ('json-string-differs', 'decodes to %r' % (back if isinstance(back, str) else type(back).__name__)[:60])
        except Exception as e:
            bad = (classify_invalid(text), 'is not valid JSON (%s)' % str(e)[:60])
        if bad:
            run.violation(bad[0], 'string %r is emitted as %r which %s' % (s[:24], text[:48], bad[1]), replay)
        if len(s) <= 16 and any(ord(c) < 0x20 or c in '"\\' or 0x7f <= ord(c) <= 0x9f for c in s):
            run.nontrivial.add(s)
        # K: hand model, translated table, implementation
        if m_hand != m_tbl:
            run.violation('esc-table-vs-model', 'translated match arms and hand model differ on %r' % s[:24], replay, concrete=False)
        if text != m_hand:
            if not bad:
                run.violation('esc-correspondence', 'escaper: implementation %r / model %r' % (text[:48], m_hand[:48]), replay, concrete=False)
        elif not bad and m_dec != 'D' + cps(s):
            run.violation('esc-model-decode', 'model decoder does not give the string back for %r: %s' % (s[:24], m_dec[:40]), replay, concrete=False)
        # the shared escaper through its other entry points
        st2, joined = ok_text(impl.get('%sm%d' % (label, i)))
        if joined is None:
            run.violation('escape-entrypoints-failed', 'std.escapeStringJson/Python/manifest* of %r failed: %s' % (s[:24], st2), replay)
            continue
        head, _, body = joined.partition(':')
        lens = [int(x) for x in head.split(',')]
        parts, off = [], 0
        for ln in lens:
            parts.append(body[off:off + ln]); off += ln
        names = ['std.escapeStringJson', 'std.escapeStringPython', 'std.manifestPython', 'std.manifestJsonMinified']
        for nm, p in zip(names, parts[:4]):
            run.evaluations += 1
            if p != text:
                run.violation('escaper-entrypoint-differs', '%s(%r) = %r but the manifested string is %r' % (nm, s[:24], p[:40], text[:40]), replay, concrete=False)
        # Python literal
        try:
            if ast.literal_eval(parts[2]) != s:
                run.violation('python-string-differs', 'std.manifestPython(%r) = %r evaluates to a different string in Python' % (s[:24], parts[2][:40]), replay)
        except Exception as e:
            run.violation('python-string-invalid', 'std.manifestPython(%r) = %r is not a Python literal (%s)' % (s[:24], parts[2][:40], str(e)[:40]), replay)
        # std.toString([s])
        if parts[4] != '[' + text + ']':
            run.violation('tostring-differs', 'std.toString([%r]) = %r' % (s[:24], parts[4][:40]), replay, concrete=False)
        # TOML basic string
        if tomllib is not None:
            run.evaluations += 1
            try:
                back = tomllib.loads(parts[5])
                if back != {'k': s}:
                    run.violation('toml-string-differs', 'std.manifestTomlEx({k: %r}) = %r decodes to %r' % (s[:24], parts[5][:40], back), replay)
            except Exception as e:
                key = 'toml-' + classify_invalid(parts[5].replace('\n', ' '))
                run.violation(key, 'std.manifestTomlEx({k: %r}) = %r is not valid TOML (%s)' % (s[:24], parts[5][:40], str(e)[:50]), replay)
        # YAML double-quoted scalar
        if pyyaml is not None:
            run.evaluations += 1
            ys = s + 'x' if s.endswith('\n') else s
            cav = yaml_caveat([ys])
            if cav == 'lb11':
                run.count('yaml11_linebreak_skipped')
            else:
                try:
                    back = pyyaml.safe_load(parts[6])
                    if back != ys:
                        run.violation('yaml-string-differs', 'std.manifestYamlDoc(%r) = %r loads as %r' % (ys[:24], parts[6][:40], back), replay)
                except Exception as e:
                    key = 'yaml-nonprintable-fffe-ffff' if cav == 'nonprint' else 'yaml-' + classify_invalid(parts[6].replace('\n', ' '))
                    run.violation(key, 'std.manifestYamlDoc(%r) = %r is rejected by a YAML loader (%s)' % (ys[:24], parts[6][:40], str(e).replace('\n', ' ')[:60]), replay)


# ---------------------------------------------------------------- part 2: keys (TOML bare / YAML plain)

def check_keys(run, impl_exe, model_exe, rng, keys):
    progs, mlines = [], []
    for i, k in enumerate(keys):
        progs.append(('kt%d' % i, 'str=1;' + ext_opt(k), 'std.manifestTomlEx({[std.extVar("s")]: 1}, "")'))
        progs.append(('ky%d' % i, 'str=1;' + ext_opt(k), 'std.manifestYamlDoc({[std.extVar("s")]: 1}, quote_keys=false)'))
        progs.append(('kq%d' % i, 'str=1;' + ext_opt(k), 'std.manifestYamlDoc({[std.extVar("s")]: 1})'))
        progs.append(('kp%d' % i, 'ml=0;' + ext_opt(k), 'local o = {[std.extVar("s")]: 1}; std.parseYaml(std.manifestYamlDoc(o, quote_keys=false)) == o'))
        mlines.append('kt%d\ttoml\t%s' % (i, cps(k)))
        mlines.append('ky%d\tyaml\t%s' % (i, cps(k)))
    impl = eval_cases(impl_exe, progs)
    model = vlib.run_sharded(model_exe, mlines, 300)
    for i, k in enumerate(keys):
        replay = {'kind': 'key', 'string': cps(k)}
        run.count('key_cases')
        mt = model.get('kt%d' % i, 'NOOUTPUT').split('\t')
        my = model.get('ky%d' % i, 'NOOUTPUT').split('\t')
        if len(mt) != 3 or len(my) != 4:
            run.violation('model-machinery', 'model driver failed on a key case: %s %s' % (mt[0][:40], my[0][:40]), replay, concrete=False)
            continue
        if mt[1] != mt[2] or my[0] != my[1] or my[2] != '1':
            run.violation('key-table-vs-model', 'translated key predicates and hand model differ on %r' % k[:24], replay, concrete=False)
        esc_k = json.dumps(k, ensure_ascii=False)   # only used when the escaper part agreed above
        # TOML
        st, text = ok_text(impl.get('kt%d' % i))
        run.evaluations += 1
        if text is None:
            run.violation('toml-key-failed', 'std.manifestTomlEx({[%r]: 1}) failed: %s' % (k[:24], st), replay)
        else:
            want = uncps(mt[0]) + ' = 1'
            okd = None
            if tomllib is not None:
                try:
                    okd = tomllib.loads(text) == {k: 1}
                except Exception as e:
                    okd = False
                if not okd:
                    run.violation('toml-key-roundtrip', 'std.manifestTomlEx({[%r]: 1}) = %r does not load back' % (k[:24], text[:40]), replay)
            if text != want and okd is not False:
                run.violation('toml-key-correspondence', 'TOML key %r: implementation %r / model %r' % (k[:24], text[:40], want[:40]), replay, concrete=False)
            if mt[1] == '1':
                run.nontrivial.add(('tomlplain', k))
        # YAML, plain keys allowed
        st, text = ok_text(impl.get('ky%d' % i))
        run.evaluations += 1
        if text is None:
            run.violation('yaml-key-failed', 'std.manifestYamlDoc({[%r]: 1}, quote_keys=false) failed: %s' % (k[:24], st), replay)
        else:
            plain = my[0] == '1'
            implain = not text.startswith('"')
            run.count('yaml_key_plain' if implain else 'yaml_key_quoted')
            okd = None
            cav = yaml_caveat([k])
            if pyyaml is not None and cav != 'lb11':
                try:
                    okd = pyyaml.safe_load(text) == {k: 1}
                except Exception:
                    okd = False
                if not okd and implain:
                    run.violation('yaml-plain-key-roundtrip', 'std.manifestYamlDoc({[%r]: 1}, quote_keys=false) = %r does not load back as that object (YAML 1.1 loader)' % (k[:24], text[:40]), replay)
                elif not okd:
                    run.violation('yaml-nonprintable-fffe-ffff' if cav == 'nonprint' else 'yaml-quoted-key-roundtrip',
                                  'std.manifestYamlDoc({[%r]: 1}) = %r does not load back' % (k[:24], text[:40]), replay)
            if implain != plain and okd is not False:
                run.violation('yaml-key-correspondence', 'is_safe_yaml_plain(%r): implementation %s / model %s' % (k[:24], implain, plain), replay, concrete=False)
            if implain:
                run.nontrivial.add(('yamlplain', k))
                # YAML 1.2 core schema: the plain key must still be a string
                core = bool(YAML12_CORE.match(k))
                if core != (my[3] == '1'):
                    run.violation('yaml12-core-spec-transcriptions-differ', 'Coq and Python transcriptions of the YAML 1.2 core schema differ on %r' % k, replay, concrete=False)
                if core:
                    run.violation('yaml12-plain-key-not-string', 'std.manifestYamlDoc({[%r]: 1}, quote_keys=false) = %r: under the YAML 1.2 core schema the plain key is a number, not the string' % (k, text[:40]), replay)
        # the implementation's own YAML reader
        f = impl.get('kp%d' % i)
        st, text = ok_text(f)
        run.evaluations += 1
        if text != 'true':
            run.violation('yaml-key-own-parser', 'std.parseYaml(std.manifestYamlDoc({[%r]: 1}, quote_keys=false)) does not give the object back (%s)' % (k[:24], text if text else st), replay)


# ---------------------------------------------------------------- part 3: values x formats

def fmt_field(fmt):
    if fmt[0] in ('ts', 'ml', 'sj', 'mn'):
        return fmt[0]
    return 'ex/%s/%s/%s' % (cps(fmt[1]), cps(fmt[2]), cps(fmt[3]))


def fmt_is_ws(fmt):
    if fmt[0] in ('ts', 'ml', 'sj', 'mn'):
        return True
    return is_ws_str(fmt[1]) and is_ws_str(fmt[2]) and is_ws_sep(fmt[3], ':')


def program_for(fmt, vsrc, rng):
    """(opts, source) producing the document of value source vsrc under fmt"""
    k = fmt[0]
    if k == 'ts':
        return rng.choice([('ml=0', vsrc), ('str=1', 'std.toString(%s)' % vsrc), ('str=1', '"" + %s' % vsrc)])
    if k == 'ml':
        return ('ml=1', vsrc)
    if k == 'sj':
        return ('str=1', 'std.manifestJson(%s)' % vsrc)
    if k == 'mn':
        return ('str=1', 'std.manifestJsonMinified(%s)' % vsrc)
    dummy = vlib.rng_for(0, 'lit')
    i, n, s = (str_src(x, dummy) for x in fmt[1:4])
    if fmt[2] == '\n' and fmt[3] == ': ' and rng.random() < 0.5:
        return ('str=1', 'std.manifestJsonEx(%s, %s)' % (vsrc, i))
    return ('str=1', 'std.manifestJsonEx(%s, %s, %s, %s)' % (vsrc, i, n, s))


def gen_format(rng):
    r = rng.random()
    if r < 0.12:
        return ('ts',)
    if r < 0.24:
        return ('ml',)
    if r < 0.30:
        return ('sj',)
    if r < 0.36:
        return ('mn',)
    if r < 0.92:
        return ('ex', rng.choice(WS_FORMATS_I), rng.choice(WS_FORMATS_N), rng.choice(WS_FORMATS_K))
    return ('ex',) + rng.choice(NONWS_FORMATS)


def corpus_values():
    s = lambda x: ('s', x)
    vals = [('n',), ('b', True), ('b', False), ('d', 0.0), ('d', -0.0), ('d', 5e-324), ('d', 1.7976931348623157e308),
            s(''), s('\x1a'), s('"\\'), ('a', []), ('o', []), ('a', [('a', [])]), ('o', [('a', ('o', []), False)]),
            ('a', [('a', []), ('o', [])]), ('o', [('b', ('d', 1.0), False), ('a', ('d', 2.0), False), ('h', ('d', 3.0), True)]),
            ('o', [('\x1f', s('\x1e'), False), ('"', s('\\'), False), ('', ('n',), False)]),
            ('o', [('é', ('d', 0.1), False), ('z', ('d', 1e21), False), ('\U0001f600', ('d', 1e-7), False), ('e\u0301', ('n',), False)]),
            ('a', [('d', x) for x in BOUNDARY_DOUBLES]),
            nest('a', 6, ('a', [])), nest('o', 6, ('o', [])), nest('m', 6, s('x')), nest('m', 5, ('d', -0.0)),
            ('o', [('only_hidden', ('d', 1.0), True)]),
            ('a', [('o', [('k', ('a', [('o', [('k', ('a', []), False)])]), False)])])]
    path = os.path.join(vlib.VERIF, 'corpus', 'c05_values.txt')
    if os.path.exists(path):
        for l in open(path):
            l = l.strip()
            if l and not l.startswith('#'):
                vals.append(value_from_json(json.loads(l)))
    return vals


def value_from_json(o):
    """corpus lines are JSON; {"__hidden__": [...]} is not needed there (all fields visible)"""
    if o is None:
        return ('n',)
    if isinstance(o, bool):
        return ('b', o)
    if isinstance(o, (int, float)):
        return ('d', float(o))
    if isinstance(o, str):
        return ('s', o)
    if isinstance(o, list):
        return ('a', [value_from_json(x) for x in o])
    return ('o', [(k, value_from_json(v), False) for k, v in o.items()])


def check_values(run, impl_exe, model_exe, rng, cases, numtab, label='v'):
    """cases: list of (source value, fmt)"""
    progs, mlines, meta = [], [], []
    for i, (v, fmt) in enumerate(cases):
        ev = expected(v)
        vsrc = src_of(v, rng)
        opts, src = program_for(fmt, vsrc, rng)
        if fmt[0] == 'ts' and ev[0] == 's' and opts == 'str=1':
            opts, src = 'ml=0', vsrc          # std.toString of a string is the string itself (checked separately)
        cid = '%s%d' % (label, i)
        progs.append((cid, opts, src))
        nt = numtable_field(numtab, doubles_of(ev, set()))
        mlines.append('%s\tman\t%s\t%s\t%s' % (cid, fmt_field(fmt), nt, enc(ev)))
        meta.append((cid, v, ev, fmt, opts, src, nt))
        if fmt_is_ws(fmt) and fmt[0] != 'ml':
            # the implementation's own reader
            progs.append((cid + 'p', 'ml=0', 'local v = %s; std.parseJson(%s) == v' % (vsrc, src if opts == 'str=1' else 'std.manifestJsonMinified(v)')))
    impl = eval_cases(impl_exe, progs)
    model = vlib.run_sharded(model_exe, mlines, 600)
    dec_lines, dec_meta = [], {}
    for cid, v, ev, fmt, opts, src, nt in meta:
        run.evaluations += 1
        run.count('fmt_' + fmt[0] + ('' if fmt_is_ws(fmt) else '_nonws'))
        run.count('value_' + ev[0])
        replay = {'kind': 'prog', 'opts': opts, 'source': src, 'fmt': list(fmt), 'value': enc(ev), 'numtable': nt}
        st, text = ok_text(impl.get(cid))
        mf = model.get(cid, 'NOOUTPUT').split('\t')
        if mf[0].startswith('MODELEXC') or mf[0] == 'NOOUTPUT' or len(mf) != 4:
            run.violation('model-machinery', 'model driver failed on a value case: %s' % '\t'.join(mf)[:120], replay, concrete=False)
            continue
        m_text, m_dec, m_erased, m_min = uncps(mf[0]), mf[1], uncps(mf[2]), uncps(mf[3])
        if text is None:
            run.violation('manifest-eval-failed', 'manifesting %s failed: %s' % (src[:80], st), replay)
            continue
        bad = None
        strs = strings_of(ev, [])
        if any(any(ord(c) < 0x20 or c in '"\\' or 0x7f <= ord(c) <= 0x9f for c in s) for s in strs) or \
           any(b for b in doubles_of(ev, set()) if not float(from_bits(b)).is_integer()):
            run.nontrivial.add(enc(ev)[:200] + '|' + fmt_field(fmt))
        if fmt_is_ws(fmt):
            # oracle on the implementation alone
            try:
                back = py_json_decode(text)
                if enc(back) != enc(ev):
                    bad = ('json-value-differs', 'decodes to a different value (%s)' % enc(back)[:80])
            except Exception as e:
                bad = (classify_invalid(text), 'is not valid JSON (%s)' % str(e)[:60])
            if bad:
                run.violation(bad[0], '%s is emitted as %r which %s' % (src[:60], text[:60], bad[1]), replay)
            else:
                dec_lines.append('%sd\tdec\t-\t%s\t%s' % (cid, nt, cps(text)))
                dec_meta[cid + 'd'] = (ev, replay, src)
            f = impl.get(cid + 'p')
            if f is not None:
                run.evaluations += 1
                stp, tp = ok_text(f)
                if tp != 'true' and not bad:
                    run.violation('own-parsejson-roundtrip', 'std.parseJson of the document of %s does not give the value back (%s)' % (src[:60], tp if tp else stp), replay)
        # K
        if text != m_text:
            if not bad:
                run.violation('manifest-correspondence', 'manifest: implementation %r / model %r for %s' % (text[:60], m_text[:60], src[:60]), replay, concrete=False)
        elif fmt_is_ws(fmt) and not bad:
            if m_dec != 'OK ' + enc(ev):
                run.violation('model-roundtrip', 'model decoder on the model text of %s: %s' % (src[:60], m_dec[:60]), replay, concrete=False)
            if m_erased != m_min:
                run.violation('model-ws-erasure', 'erase_ws(model text) differs from the minified text for %s' % src[:60], replay, concrete=False)
        if len(run.samples) < 4 and ev[0] in 'ao' and 40 < len(text) < 240 and '\\' in text:
            run.samples.append({'component': 'manifest', 'program': src[:200], 'opts': opts, 'output': text[:200]})
    # the extracted Coq decoder applied to the implementation's documents
    dres = vlib.run_sharded(model_exe, dec_lines, 600)
    for k, (ev, replay, src) in dec_meta.items():
        run.evaluations += 1
        r = dres.get(k, 'NOOUTPUT')
        if r != 'OK ' + enc(ev):
            run.violation('json-spec-decoder-differs', 'the RFC 8259 decoder (Coq) on the document of %s gives %s' % (src[:60], r[:60]), replay)


def check_tostring_strings(run, impl_exe, model_exe, rng, strs):
    progs = [('ts%d' % i, 'str=1;' + ext_opt(s), 'std.toString(std.extVar("s"))') for i, s in enumerate(strs)]
    mlines = ['ts%d\ttostr\t-\t\ts%s' % (i, cps(s)) for i, s in enumerate(strs)]
    impl = eval_cases(impl_exe, progs)
    model = vlib.run_sharded(model_exe, mlines, 120)
    for i, s in enumerate(strs):
        run.evaluations += 1
        st, text = ok_text(impl.get('ts%d' % i))
        m = model.get('ts%d' % i, 'NOOUTPUT')
        if text != s or m != cps(s):
            run.violation('tostring-string', 'std.toString(%r) = %r (model %s)' % (s[:24], (text or st)[:24], m[:24]), {'kind': 'esc', 'string': cps(s)},
                          concrete=(text != s))


# ---------------------------------------------------------------- part 4: the other targets (test-level decoders)

def gen_scalar(rng, nulls=True):
    k = rng.random()
    if k < 0.1 and nulls:
        return ('n',)
    if k < 0.25:
        return ('b', rng.random() < 0.5)
    if k < 0.6:
        return ('d', gen_double(rng))
    return ('s', gen_string(rng, 5))


MIXED_PATTERNS = ['os', 'so', 'oso', 'sos', 'oa', 'ao', 'oe', 'eo', 'oE', 'Eo', 'oeo', 'eE', 'Ee', 'ooS', 'Soo', 'oao', 'aoa', 'oos', 'soo',
                  'oO', 'Oo', 'oOs', 'e', 'ee', 'oo', 'ooo', 'O', 'OO', 'sa', 'as', 'E', 'aE', 'oEe', 'esE']


def gen_mixed_array(rng, depth, keygen):
    """heterogeneous array: o = non-empty object, O = object holding mixed arrays / arrays of tables, e = {}, E = [],
       s/S = scalar, a = (mixed) array"""
    items = []
    for ch in rng.choice(MIXED_PATTERNS):
        if ch == 'o':
            items.append(('o', [(keygen(), gen_scalar(rng), False)] + ([(keygen() + 'x', gen_scalar(rng), False)] if rng.random() < 0.3 else [])))
        elif ch == 'O':
            items.append(gen_mixed_value(rng, depth - 1, keygen, force='o'))
        elif ch == 'e':
            items.append(('o', []))
        elif ch == 'E':
            items.append(('a', []))
        elif ch in 'sS':
            items.append(gen_scalar(rng))
        else:
            items.append(gen_mixed_array(rng, depth - 1, keygen) if depth > 0 else ('a', [gen_scalar(rng)]))
    return ('a', items)


def gen_mixed_value(rng, depth, keygen, force=None):
    """values whose arrays are heterogeneous in every position (tables inside arrays of tables inside tables ...)"""
    if depth <= 0:
        return ('o', [(keygen(), gen_scalar(rng), False)]) if force == 'o' else gen_scalar(rng)
    r = rng.random()
    if force == 'o' or r < 0.6:
        ms, seen = [], set()
        for _ in range(rng.choice([1, 2, 2, 3, 4])):
            k = keygen()
            if k in seen:
                continue
            seen.add(k)
            c = rng.random()
            if c < 0.45:
                fv = gen_mixed_array(rng, depth - 1, keygen)
            elif c < 0.6:      # array of tables whose tables hold mixed arrays
                fv = ('a', [gen_mixed_value(rng, depth - 1, keygen, force='o') for _ in range(rng.randint(1, 3))])
            elif c < 0.75:
                fv = gen_mixed_value(rng, depth - 1, keygen, force='o')
            else:
                fv = gen_scalar(rng)
            ms.append((k, fv, rng.random() < 0.08))
        return ('o', ms)
    return gen_mixed_array(rng, depth - 1, keygen)


def J(o):
    return value_from_json(o)


def mixed_corpus():
    """hand-picked heterogeneous shapes (each also run as a TOML table / YAML / Python document)"""
    shapes = [{'a': [{'b': 1}, 2]}, {'a': [2, {'b': 1}]}, {'a': [{'b': 1}, {}]}, {'a': [{}, {'b': 1}]}, {'a': [{'b': 1}, []]},
              {'a': [[], {'b': 1}]}, {'a': [{'b': 1}, 'x', {'c': 2}]}, {'a': [{'b': 1}, [{'c': 2}]]}, {'a': [[{'c': 2}], {'b': 1}]},
              {'a': [{'b': 1}, True]}, {'a': [{}, {}]}, {'a': [{}]}, {'a': [{}, 1]}, {'a': [[], []]}, {'a': [[{}]]},
              {'t': [{'x': [{'y': 1}, 2]}, {'x': []}]}, {'t': [{'x': [{'y': 1}]}, {'x': [1, {'y': 1}]}]},
              {'t': {'u': [{'v': [{'w': 1}, 'z']}, {'v': {}}]}}, {'t': [{'u': {'v': [{'w': 1}, []]}}, {'u': 3}]},
              {'a': [{'b': [{'c': [{'d': 1}, 2]}]}, {'b': [3, {'c': 4}]}]}, {'a': [1, [2, [3, {'k': 4}]], {'k': [5, {}]}]},
              {'z': 1, 'a': [{'b': 1}, 2], 'm': {'n': [{'o': 1}, 2]}, 'arr': [{'p': 1}, {'q': 2}]},
              {'a': [{'b': 1}, 2.5, 'q', [], {}, [{'b': 1}], {'c': [1, {'d': 2}]}]},
              [{'b': 1}, 2], [2, {'b': 1}], [[{'b': 1}, 2], {'c': [{'d': 1}, 3]}], [{}, [], 1], [[], {}, [[]], [{}]]]
    return [J(x) for x in shapes]


def tomlable(ev):
    """an expected value made fit for std.manifestToml: nulls replaced by false, non-objects wrapped in a table"""
    def strip(v):
        if v[0] == 'n':
            return ('b', False)
        if v[0] == 'a':
            return ('a', [strip(x) for x in v[1]])
        if v[0] == 'o':
            return ('o', [(k, strip(x)) for k, x in v[1]])
        return v
    v = strip(ev)
    return v if v[0] == 'o' else ('o', [('v', v)])


def src_of_expected(ev, rng):
    if ev[0] == 'a':
        return ('a', [src_of_expected(x, rng) for x in ev[1]])
    if ev[0] == 'o':
        return ('o', [(k, src_of_expected(x, rng), False) for k, x in ev[1]])
    return ev


CRASH_STATES = ('PANIC', 'CRASH', 'TIMEOUT', 'NOOUTPUT')


def ident_keygen(rng):
    return lambda: rng.choice(['a', 'b', 'c', 'k1', 'key_2', 'Z', 'x9', 'foo', 'bar', 'v_'])


def check_targets(run, impl_exe, rng, values, model_exe=None, numtab=None):
    progs, meta, mlines = [], [], []
    toml_want = {}
    for i, v in enumerate(values):
        ev = expected(v)
        vsrc = src_of(v, rng)
        cid = 't%d' % i
        progs.append((cid + 'py', 'str=1', 'std.manifestPython(%s)' % vsrc))
        if model_exe is not None:
            mlines.append('%s\tpy\t-\t%s\t%s' % (cid, numtable_field(numtab, doubles_of(ev, set())), enc(ev)))
        yaml_ok = not any(s.endswith('\n') for s in strings_of(ev, []))
        if yaml_ok:
            a, q = rng.random() < 0.5, rng.random() < 0.5
            progs.append((cid + 'ya', 'str=1', 'std.manifestYamlDoc(%s, indent_array_in_object=%s, quote_keys=%s)' % (vsrc, str(a).lower(), str(q).lower())))
            progs.append((cid + 'yp', 'ml=0', 'local v = %s; std.parseYaml(std.manifestYamlDoc(v, indent_array_in_object=%s, quote_keys=%s)) == v' % (vsrc, str(a).lower(), str(q).lower())))
            progs.append((cid + 'ys', 'str=1', 'std.manifestYamlStream([%s, %s], indent_array_in_object=%s, c_document_end=%s, quote_keys=%s)' % (vsrc, vsrc, str(a).lower(), str(rng.random() < 0.5).lower(), str(q).lower())))
        tv = tomlable(ev)
        tsrc = vsrc if tv == ev else src_of(src_of_expected(tv, rng), rng)
        if rng.random() < 0.3:
            progs.append((cid + 'to', 'str=1', 'std.manifestToml(%s)' % tsrc))
        else:
            progs.append((cid + 'to', 'str=1', 'std.manifestTomlEx(%s, %s)' % (tsrc, rng.choice(['""', '"  "', '"\\t"']))))
        toml_want[cid] = to_py(tv)
        # INI / XML: no decoder model; the implementation must answer (a document or a diagnosed error), never crash
        progs.append((cid + 'in', 'str=1', 'std.manifestIni({main: %s, sections: {s: %s, t: {k: %s}}})' % (tsrc, tsrc, vsrc)))
        progs.append((cid + 'xm', 'str=1', 'std.manifestXmlJsonml(["t", {a: "1"}, "x", ["u", %s], %s])' % (vsrc, vsrc)))
        if ev[0] == 'o' and all(re.match(r'[A-Za-z_][A-Za-z0-9_]*\Z', m[0]) and not keyword.iskeyword(m[0]) for m in ev[1]):
            progs.append((cid + 'pv', 'str=1', 'std.manifestPythonVars(%s)' % vsrc))
        meta.append((cid, v, ev, vsrc))
    impl = eval_cases(impl_exe, progs)
    model = vlib.run_sharded(model_exe, mlines, 300) if model_exe is not None else {}
    srcs = {p[0]: p[2] for p in progs}
    for cid, v, ev, vsrc in meta:
        want = to_py(ev)
        for suffix in ('py', 'ya', 'yp', 'ys', 'to', 'pv', 'in', 'xm'):
            k = cid + suffix
            if k not in srcs:
                continue
            run.evaluations += 1
            run.count('target_' + suffix)
            replay = {'kind': 'prog', 'opts': 'ml=0' if suffix == 'yp' else 'str=1', 'source': srcs[k], 'target': suffix}
            st, text = ok_text(impl.get(k))
            if text is None and st.split(' ')[0] in CRASH_STATES:
                # a panic / abort / hang of the implementation while manifesting: concrete for every target
                run.violation('target-crash:' + suffix, '%s: the implementation answers %s instead of a document or a diagnosed error' % (srcs[k][:120], st), replay)
                continue
            if suffix in ('in', 'xm'):
                run.count('target_%s_%s' % (suffix, 'doc' if text is not None else 'diagnosed'))
                continue
            if text is None:
                run.violation('target-eval-failed:' + suffix, '%s failed: %s' % (srcs[k][:80], st), replay)
                continue
            if suffix == 'to':
                want = toml_want[cid]
            else:
                want = to_py(ev)
            if suffix in ('py', 'pv') and model_exe is not None:
                mf = model.get(cid, 'NOOUTPUT').split('\t')
                if len(mf) != 2 or not mf[0].startswith('P'):
                    run.violation('model-machinery', 'model driver failed on a python case: %s' % mf[0][:80], replay, concrete=False)
                else:
                    want_text = uncps(mf[0][1:]) if suffix == 'py' else (uncps(mf[1][1:]) if mf[1] != 'VNONE' else None)
                    if text != want_text:
                        run.violation('python-correspondence', '%s: implementation %r / model %r' % (srcs[k][:60], text[:60], (want_text or 'None')[:60]), replay, concrete=False)
            strs = strings_of(ev, [])
            cav = yaml_caveat(strs)
            nonprint = cav == 'nonprint'
            if suffix in ('ya', 'ys') and cav == 'lb11':
                run.count('yaml11_linebreak_skipped')
                continue
            try:
                if suffix == 'py':
                    got = ast.literal_eval(text)
                    ok = py_same(got, want, signed_zero=False)
                elif suffix == 'pv':
                    tree = ast.parse(text)
                    got = {n.targets[0].id: ast.literal_eval(n.value) for n in tree.body}
                    ok = py_same(got, want, signed_zero=False)
                elif suffix == 'ya':
                    if pyyaml is None:
                        continue
                    got = pyyaml.safe_load(text)
                    ok = py_same(got, want, signed_zero=False)
                elif suffix == 'ys':
                    if pyyaml is None:
                        continue
                    got = list(pyyaml.safe_load_all(text))
                    ok = py_same(got, [want, want], signed_zero=False)
                elif suffix == 'yp':
                    ok = text == 'true'
                    got = text
                else:
                    if tomllib is None:
                        continue
                    got = tomllib.loads(text)
                    ok = py_same(got, want, signed_zero=False)
                if not ok:
                    key = {'py': 'python-value-differs', 'pv': 'pythonvars-value-differs', 'ya': 'yaml-value-differs', 'ys': 'yamlstream-value-differs',
                           'yp': 'yaml-own-parser-differs', 'to': 'toml-value-differs'}[suffix]
                    if suffix in ('ya', 'ys') and nonprint:
                        key = 'yaml-nonprintable-fffe-ffff'
                    run.violation(key, '%s = %r decodes to %r' % (srcs[k][:70], text[:60], str(got)[:60]), replay)
            except Exception as e:
                key = {'py': 'python-invalid', 'pv': 'pythonvars-invalid', 'ya': 'yaml-invalid', 'ys': 'yamlstream-invalid', 'to': 'toml-invalid', 'yp': 'yaml-own'}[suffix]
                if suffix in ('ya', 'ys') and nonprint:
                    key = 'yaml-nonprintable-fffe-ffff'
                elif RAW_CTL.search(text.replace('\n', '')) and classify_invalid(text.replace('\n', '')) != 'json-invalid':
                    key += ':' + classify_invalid(text.replace('\n', ''))
                run.violation(key, '%s = %r is rejected by the target decoder (%s)' % (srcs[k][:70], text[:60], str(e).replace('\n', ' ')[:60]), replay)


# ---------------------------------------------------------------- part 5: the real CLI

def check_cli(run, cli, model_exe, rng, values, numtab):
    from concurrent.futures import ThreadPoolExecutor
    tmp = tempfile.mkdtemp(prefix='rsj-verif-c05.')
    try:
        mlines = []
        for i, v in enumerate(values):
            ev = expected(v)
            mlines.append('c%d\tcli\t-\t%s\t%s' % (i, numtable_field(numtab, doubles_of(ev, set())), enc(ev)))
        model = vlib.run_sharded(model_exe, mlines, 300)
        jobs = []
        for i, v in enumerate(values):
            ev = expected(v)
            src = src_of(v, rng)
            path = os.path.join(tmp, 'p%d.jsonnet' % i)
            open(path, 'w', encoding='utf-8').write(src)
            mf = model.get('c%d' % i, 'NOOUTPUT').split('\t')
            replay = {'kind': 'cli', 'source': src}
            if len(mf) != 3:
                run.violation('model-machinery', 'model driver failed on a cli case: %s' % mf[0][:80], replay, concrete=False)
                continue
            modes = [('default', [], uncps(mf[0][1:]))]
            if ev[0] == 'a':
                modes.append(('yaml', ['-y'], uncps(mf[1][1:]) if mf[1] != 'YNONE' else None))
            multi_ok = ev[0] == 'o' and all(re.match(r'[A-Za-z0-9_][A-Za-z0-9_.-]*\Z', m[0]) for m in ev[1])
            if multi_ok:
                modes.append(('multi', ['-m'], mf[2]))
            for name, flags, want in modes:
                jobs.append((i, ev, src, path, name, flags, want))

        def run_job(job):
            i, ev, src, path, name, flags, want = job
            outdir = os.path.join(tmp, 'out%d' % i)
            if name == 'multi':
                os.makedirs(outdir, exist_ok=True)
                cmd = [cli, '-m', outdir, path]
            else:
                cmd = [cli] + flags + [path]
            try:
                p = subprocess.run(cmd, stdout=subprocess.PIPE, stderr=subprocess.PIPE, timeout=60)
            except subprocess.TimeoutExpired:
                return (None, b'', b'timeout', [])
            files = []
            if name == 'multi' and p.returncode == 0:
                for k, sub in ev[1]:
                    try:
                        content = open(os.path.join(outdir, k), encoding='utf-8').read()
                    except Exception:
                        content = None
                    files.append((k, content))
                shutil.rmtree(outdir, ignore_errors=True)
            return (p.returncode, p.stdout, p.stderr, files)

        with ThreadPoolExecutor(max_workers=vlib.NCPU) as ex:
            results = list(ex.map(run_job, jobs))
        for job, (rc, stdout, stderr, files) in zip(jobs, results):
            i, ev, src, path, name, flags, want = job
            run.evaluations += 1
            run.count('cli_' + name)
            rp = {'kind': 'cli', 'source': src, 'mode': name}
            if rc != 0:
                run.violation('cli-failed', 'rsjsonnet %s on %s exits %s: %s' % (' '.join(flags), src[:60], rc, stderr.decode('utf-8', 'replace')[:80]), rp)
                continue
            try:
                out = stdout.decode('utf-8')
            except UnicodeDecodeError:
                run.violation('cli-not-utf8', 'rsjsonnet %s on %s: output is not UTF-8' % (' '.join(flags), src[:60]), rp)
                continue
            if name == 'multi':
                docs = [(c, sub) for (k, c), (_, sub) in zip(files, ev[1])]
                got = 'M' + ';'.join('%s=%s' % (cps(k), cps(c if c is not None else '<missing>')) for k, c in files)
            elif name == 'yaml':
                got = out
                parts = out.split('---\n')[1:] if out else []
                docs = []
                if out and not out.endswith('...\n'):
                    run.violation('cli-yaml-stream-end', 'rsjsonnet -y on %s: stream does not end with the document-end marker' % src[:60], rp)
                if parts:
                    parts[-1] = parts[-1][:-4] if parts[-1].endswith('...\n') else parts[-1]
                if len(parts) != len(ev[1]):
                    run.violation('cli-yaml-stream-count', 'rsjsonnet -y on %s: %d documents for %d items' % (src[:60], len(parts), len(ev[1])), rp)
                else:
                    docs = list(zip(parts, ev[1]))
            else:
                got = out
                docs = [(out, ev)]
            bad = False
            for text, sub in docs:
                try:
                    if text is None:
                        raise NotJson('file missing')
                    back = py_json_decode(text)
                    if enc(back) != enc(sub):
                        bad = True
                        run.violation('json-value-differs', 'rsjsonnet %s on %s: a document decodes to a different value' % (' '.join(flags), src[:60]), rp)
                    elif not text.endswith('\n'):
                        bad = True
                        run.violation('cli-no-trailing-newline', 'rsjsonnet %s on %s: document does not end with a newline' % (' '.join(flags), src[:60]), rp)
                except Exception as e:
                    bad = True
                    run.violation(classify_invalid(text or ''), 'rsjsonnet %s on %s emits %r which is not valid JSON (%s)' % (' '.join(flags), src[:60], (text or '')[:40], str(e)[:50]), rp)
            if got != want and not bad:
                run.violation('cli-correspondence', 'rsjsonnet %s on %s: output %r / model %r' % (' '.join(flags), src[:60], got[:60], (want or 'None')[:60]), rp, concrete=False)
    finally:
        shutil.rmtree(tmp, ignore_errors=True)


# ---------------------------------------------------------------- main check

def build_all():
    impl_exe = vlib.build_harness()
    esc_exe = vlib.build_model('jsonesc')
    man_exe = vlib.build_model('manifest')
    cli = vlib.build_cli()
    return impl_exe, esc_exe, man_exe, cli


def check(run):
    rng = vlib.rng_for(run.seed, ID)
    quick = run.tier == 'quick'
    run.rule = ('esc: every code point 0..0x11f and the plane-boundary code points one by one, random short strings biased to C0/C1 controls, '
                'quote, backslash, non-characters and all 17 planes (thorough: every Unicode scalar value once); non-trivial = distinct string '
                'containing a code point that needs escaping.  values: JSON values of nesting <= 6 (empty containers, hidden and unsorted fields, '
                'boundary doubles, escape-needing strings and keys) x formats (default single-line, default multi-line, std.manifestJson, Minified, '
                'manifestJsonEx with indent in {"", " ", tab, 4 spaces} x newline in {"", LF, CRLF} x 5 key/value separators, ~8% non-whitespace '
                'formats compared with the model only); non-trivial = distinct (value, format) with an escape-needing string or a non-integer double.  '
                'keys: reserved words, number/date look-alikes and random strings through the TOML bare-key and YAML plain-key predicates.')
    run.assume = ['Rust f64 Display (`{n}`) and FromStr are the section variables show/read: read (show x) = Some x and show x is an RFC 8259 number for finite x; '
                  'validated per run on every double used (reads back bit-exactly with a correctly rounded reader, shortest digits, number grammar) — C06 owns the general statement',
                  'object members reach do_manifest_json in get_visible_fields_order order (sorted, visible only): proved for the object model in C07; here checked per case by the oracle',
                  'String::push/push_str/write! append exactly the given code points; str::chars yields the code points of the string',
                  'Python/TOML/YAML target parsers are not modelled in Coq: string/key well-formedness theorems + test-level decoding with ast.literal_eval, tomllib, PyYAML (YAML 1.1) and std.parseYaml']
    # T
    try:
        translate(vlib.REPO)
        run.add_obligation('T:escape match arms and plain-key predicates translated from manifest.rs', True)
    except Exception as e:
        run.add_obligation('T:escape match arms and plain-key predicates translated from manifest.rs', False, str(e))
    # proofs
    pres = vlib.prove(ID, THEOREMS, ALLOWED_AXIOMS)
    run.add_proof(pres, THEOREMS)
    # build
    impl_exe, esc_exe, man_exe, cli = build_all()

    import time as _t
    T0 = _t.time()
    def lap(name):
        vlib.log('  [C05] %-10s %.1fs' % (name, _t.time() - T0))
    lap('built')
    # 1. escaper
    strs = escaper_strings(rng, run.tier)
    check_escaper(run, impl_exe, esc_exe, rng, strs)
    check_tostring_strings(run, impl_exe, man_exe, rng, [s for s in strs if len(s) < 64][:200])
    lap('escaper')
    # 2. keys
    keys = list(YAML_KEY_WORDS)
    kpath = os.path.join(vlib.VERIF, 'corpus', 'c05_keys.txt')
    if os.path.exists(kpath):
        keys = [json.loads(l) for l in open(kpath) if l.strip() and not l.startswith('#')] + keys
    keys += [gen_key(rng) for _ in range(300 if quick else 6000)]
    keys = list(dict.fromkeys(k for k in keys if all(scalar(ord(c)) for c in k)))
    check_keys(run, impl_exe, esc_exe, rng, keys)
    lap('keys')
    # 3. values x formats
    nvals = 500 if quick else 12000
    vals = corpus_values()
    ncorpus = len(vals)
    for i in range(nvals):
        vals.append(gen_value(rng, rng.choice([1, 2, 3, 4, 6])))
    cases = []
    for i, v in enumerate(vals):
        if i < ncorpus:
            fmts = [('ts',), ('ml',), ('sj',), ('mn',), ('ex', '\t', '\r\n', ' : '), ('ex', '', '\n', ':'), ('ex', ' ', '', ': ')]
        else:
            fmts = [gen_format(rng) for _ in range(2)]
        for f in fmts:
            cases.append((v, f))
    target_vals = [gen_value(rng, rng.choice([1, 2, 3, 4]), ident_keygen(rng) if rng.random() < 0.5 else (lambda: gen_key(rng))) for _ in range(150 if quick else 4000)]
    target_vals += [v for v in vals[:ncorpus]]
    target_vals += mixed_corpus()
    for _ in range(200 if quick else 4000):
        kg = ident_keygen(rng) if rng.random() < 0.6 else (lambda: gen_key(rng))
        target_vals.append(gen_mixed_value(rng, rng.choice([1, 2, 3, 4]), kg, force=rng.choice(['o', 'o', None])))
    run.count('target_mixed_values', len(mixed_corpus()) + (200 if quick else 4000))
    cli_vals = vals[:ncorpus] + [gen_value(rng, rng.choice([1, 2, 3, 5]), ident_keygen(rng) if rng.random() < 0.6 else None) for _ in range(40 if quick else 1200)]
    cli_vals += [('a', [gen_value(rng, 2) for _ in range(rng.randint(0, 4))]) for _ in range(12 if quick else 300)]
    dbl = set()
    for v in vals + cli_vals + target_vals:
        doubles_of(expected(v), dbl)
    numtab = number_texts(run, impl_exe, dbl)
    run.count('distinct_doubles', len(dbl))
    check_values(run, impl_exe, man_exe, rng, cases, numtab)
    lap('values')
    # 4. other targets
    check_targets(run, impl_exe, rng, target_vals, man_exe, numtab)
    lap('targets')
    # 5. CLI
    check_cli(run, cli, man_exe, rng, cli_vals, numtab)
    lap('cli')


def replay(run, path):
    j = json.load(open(path))
    r = j.get('replay', {})
    rng = vlib.rng_for(run.seed, ID)
    if isinstance(r, dict) and r.get('kind') == 'esc':
        impl_exe, esc_exe, man_exe, cli = build_all()
        check_escaper(run, impl_exe, esc_exe, rng, [uncps(r['string'])], label='r')
    elif isinstance(r, dict) and r.get('kind') == 'key':
        impl_exe, esc_exe, man_exe, cli = build_all()
        check_keys(run, impl_exe, esc_exe, rng, [uncps(r['string'])])
    elif isinstance(r, dict) and r.get('kind') == 'prog':
        impl_exe = vlib.build_harness()
        res = eval_cases(impl_exe, [('r0', r['opts'], r['source'])])
        st, text = ok_text(res.get('r0'))
        print('program :', r['source'][:300])
        print('output  :', repr(text) if text is not None else st)
        tgt = r.get('target')
        if text is None:
            run.violation('replay', 'evaluation fails: %s' % st, r)
        elif tgt in (None,) and r.get('fmt') is not None:
            try:
                back = py_json_decode(text)
                if enc(back) != r.get('value'):
                    run.violation('replay', 'document decodes to a different value', r)
            except Exception as e:
                run.violation('replay', 'document is not valid JSON: %s' % e, r)
            man_exe = vlib.build_model('manifest')
            m = vlib.run_lines(man_exe, ['m\tman\t%s\t%s\t%s' % (fmt_field(tuple(r['fmt'])), r.get('numtable', ''), r['value'])]).get('m', '')
            if uncps(m.split('\t')[0]) != text:
                run.violation('replay', 'model text differs: %r' % uncps(m.split('\t')[0])[:200], r, concrete=False)
        else:
            try:
                if tgt == 'py':
                    ast.literal_eval(text)
                elif tgt in ('ya', 'ys') and pyyaml is not None:
                    list(pyyaml.safe_load_all(text))
                elif tgt == 'to' and tomllib is not None:
                    tomllib.loads(text)
                elif tgt == 'yp' and text != 'true':
                    run.violation('replay', 'own parser does not give the value back', r)
                else:
                    json.loads(text, strict=True)
            except Exception as e:
                run.violation('replay', 'output rejected by the target decoder: %s' % e, r)
    elif isinstance(r, dict) and r.get('kind') == 'cli':
        cli = vlib.build_cli()
        tmp = tempfile.mkdtemp(prefix='rsj-verif-c05r.')
        try:
            p = os.path.join(tmp, 'p.jsonnet')
            open(p, 'w', encoding='utf-8').write(r['source'])
            flags = {'default': [], 'yaml': ['-y'], 'multi': ['-m', tmp]}[r.get('mode', 'default')]
            pr = subprocess.run([cli] + flags + [p], stdout=subprocess.PIPE, stderr=subprocess.PIPE, timeout=60)
            print('exit', pr.returncode, 'stdout', repr(pr.stdout[:300]))
            try:
                if r.get('mode', 'default') == 'default':
                    json.loads(pr.stdout.decode('utf-8'), strict=True)
            except Exception as e:
                run.violation('replay', 'CLI output is not valid JSON: %s' % e, r)
        finally:
            shutil.rmtree(tmp, ignore_errors=True)
    else:
        print('replay file names a broken obligation, not an input:', json.dumps(j.get('no_longer_checks', j), indent=1)[:2000])
        try:
            translate(vlib.REPO)
        except Exception as e:
            run.failed_obligations.append('T: %s' % e)
        pres = vlib.prove(ID, THEOREMS, ALLOWED_AXIOMS)
        run.add_proof(pres, THEOREMS)
    for v in run.violations:
        print('REPRODUCED:', v['what'])
    if not run.violations and not run.failed_obligations:
        print('not reproduced')
    return 1 if (run.violations or run.failed_obligations) else 0
