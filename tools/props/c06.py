"""C06 — numbers are always finite doubles, read and printed exactly.

Proof:  Props/C06.v over Model/NumOps.v + Model/Dec.v, with the table "which producer carries the
        finiteness gate" translated from the current source (T: tools/translate_numgates.py).
K:      every operator/builtin on a grid of doubles: the real evaluator (harness component `eval`,
        results observed exactly through std.mantissa/std.exponent, never through printing) vs the
        extracted model (libm answers supplied per case from the implementation's own output);
        literal text -> lexer's (digits, exp) and evaluated value vs Model/Dec (lit_parse, dec_to_f64);
        printed text of every value seen vs the model's proved checker check_printed/shortest_check.
Search: on the implementation alone: every producer result is finite (exponent field), is a number,
        and p - p == 0; printed text re-read by Python float() gives the value back and is as short as repr.
"""
import os, sys, re, json, math, struct
from fractions import Fraction
import vlib
from vlib import hx, hxl, cps, uncps
sys.path.insert(0, os.path.dirname(os.path.dirname(os.path.abspath(__file__))))
import translate_numgates

ID = 'C06'
COMPONENTS = ['numops', 'dec']
THEOREMS = ['C06_gates_ok', 'C06_numop_finite', 'C06_numop_finite_src', 'C06_sum_finite_refuted',
            'C06_literal_finite_or_error', 'C06_compare_total_on_finite', 'C06_cmp_num_no_panic',
            'C06_dec_correctly_rounded', 'C06_dec_monotone', 'C06_shortest_check_sound', 'C06_check_printed_sound',
            'C06_nonvacuous']
REALS = {'ClassicalDedekindReals.sig_forall_dec', 'ClassicalDedekindReals.sig_not_dec',
         'FunctionalExtensionality.functional_extensionality_dep', 'Classical_Prop.classic'}
ALLOWED_AXIOMS = set(REALS)


def translate(repo):
    return translate_numgates.main(repo, os.path.join(vlib.COQ, 'Gen', 'NumGates.v'))


TRANSLATORS = [translate]

# ---------------------------------------------------------------- doubles

def bits_of(x):
    return struct.unpack('<Q', struct.pack('<d', x))[0]


def fl(b):
    return struct.unpack('<d', struct.pack('<Q', b))[0]


INF_BITS = 0x7ff0000000000000
NAN_BITS = 0x7ff8000000000000


def is_finite_bits(b):
    return (b >> 52) & 0x7ff != 0x7ff


def lit_of(b):
    """Jsonnet expression text denoting exactly the finite double with pattern b"""
    x = fl(b)
    if b >> 63:
        return '(-%s)' % repr(-x)
    return repr(x)


GRID = [0.0, 5e-324, 1e-323, 2.2250738585072009e-308, 2.2250738585072014e-308, 2.225073858507202e-308,
        1.7976931348623157e308, 1.7976931348623155e308, 8.98846567431158e307, 1e308, 4.49423283715579e307,
        1.3407807929942597e154, 1.3407807929942596e154, 1e154, 1.157920892373162e77,
        9007199254740991.0, 9007199254740992.0, 9007199254740994.0, 9007199254740990.0, 4503599627370496.0, 4503599627370495.5,
        4503599627370497.0, 2251799813685248.5, 1.0, 2.0, 3.0, 0.5, 1.5, 2.5, 3.5, 0.25, 0.75, 0.1, 0.2, 0.3, 1e-5, 1e-7,
        0.49999999999999994, 0.5000000000000001, 1.0000000000000002, 0.9999999999999999,
        10.0, 63.0, 64.0, 65.0, 127.0, 255.0, 256.0, 1000.0, 2147483647.0, 2147483648.0, 4294967295.0, 4294967296.0,
        9.223372036854776e18, 1.8446744073709552e19, 4611686018427387904.0, 1e22, 1e23, 8.41e21, 123456789.0,
        math.pi, math.e, 180.0, 90.0, 360.0, 45.0, 57.29577951308232, 0.017453292519943295, 709.782712893384, 709.7827128933841,
        710.0, 745.1332191019412, 745.2, 1024.0, 1023.0, 1074.0, 308.0, 308.25471555991675, 1e300, 1e-300, 1e-308, 1e-310, 3e-324,
        6.0, 7.0, 12.0, 100.0, 1e15, 1e16, 1e17, 0.1 + 0.2, 2.0 ** -1022, 2.0 ** -1023, 2.0 ** -1074 * 3, 2.0 ** 1023, 2.0 ** 970, 2.0 ** 971,
        2.0 ** 52, 2.0 ** 53 + 2, 2.0 ** 62, 2.0 ** 63, 2.0 ** 64, 2.0 ** -52, 2.0 ** -53, 33.0, 31.0, 32.0, 62.0]
GRID_BITS = sorted(set([bits_of(x) for x in GRID] + [bits_of(-x) for x in GRID]))


def rand_double(rng):
    k = rng.random()
    if k < 0.35:
        return rng.choice(GRID_BITS)
    if k < 0.55:   # any finite bit pattern
        while True:
            b = rng.getrandbits(64)
            if is_finite_bits(b):
                return b
    if k < 0.70:   # moderate magnitude
        return bits_of(rng.uniform(-1000, 1000))
    if k < 0.80:   # integers
        return bits_of(float(rng.choice([rng.randint(-100, 100), rng.randint(-2 ** 53, 2 ** 53), rng.randint(-2 ** 40, 2 ** 40)])))
    if k < 0.90:   # near a power of two
        e = rng.randint(-1074, 1023)
        b = bits_of(2.0 ** e) + rng.randint(-3, 3)
        b = b if is_finite_bits(b) and b >= 0 else bits_of(2.0 ** e)
        return b | (rng.getrandbits(1) << 63)
    # huge
    return bits_of(rng.choice([-1, 1]) * rng.uniform(1e307, 1.7976931348623157e308))


def rand_int_double(rng):
    k = rng.random()
    if k < 0.3:
        return bits_of(float(rng.randint(-70, 70)))
    if k < 0.5:
        return bits_of(float(rng.choice([2 ** 53 - 1, -(2 ** 53 - 1), 2 ** 53, -(2 ** 53), 2 ** 53 - 2, 2 ** 52, 2 ** 31, 2 ** 32, 2 ** 62, 1, -1, 0])))
    if k < 0.55:
        return bits_of(-0.0)
    if k < 0.85:
        return bits_of(float(rng.randint(-(2 ** 53), 2 ** 53)))
    if k < 0.93:
        return bits_of(rng.uniform(-100, 100))
    return rand_double(rng)


# ---------------------------------------------------------------- op cases

BINOPS = {'add': '+', 'sub': '-', 'mul': '*', 'div': '/', 'rem': '%', 'shl': '<<', 'shr': '>>', 'and': '&', 'or': '|', 'xor': '^'}
UNOPS = {'neg': '-', 'pos': '+', 'not': '~'}
STD1 = ['exp', 'log', 'log2', 'log10', 'sqrt', 'sin', 'cos', 'tan', 'asin', 'acos', 'atan', 'floor', 'ceil', 'round',
        'abs', 'sign', 'mantissa', 'exponent', 'deg2rad', 'rad2deg']
STD2 = ['pow', 'atan2', 'hypot', 'mod', 'modulo', 'max', 'min']
LIBM = {'pow', 'exp', 'log', 'log2', 'log10', 'sin', 'cos', 'tan', 'asin', 'acos', 'atan', 'atan2', 'hypot'}
ALL_OPS = list(BINOPS) + list(UNOPS) + STD1 + STD2 + ['clamp', 'sum', 'avg', 'length', 'codepoint', 'parseInt', 'parseOctal', 'parseHex']

DECOMP = 'local d(x) = [std.mantissa(x) * 9007199254740992, std.exponent(x)]; '


def jstr(s):
    """Jsonnet string literal for a Python str (ASCII-escaped)"""
    out = ['"']
    for ch in s:
        o = ord(ch)
        if ch in '"\\':
            out.append('\\' + ch)
        elif 32 <= o < 127:
            out.append(ch)
        elif o < 0x10000:
            out.append('\\u%04x' % o)
        else:
            o -= 0x10000
            out.append('\\u%04x\\u%04x' % (0xD800 + (o >> 10), 0xDC00 + (o & 0x3ff)))
    out.append('"')
    return ''.join(out)


class OpCase:
    """op on args; args: list of ('n', bits) | ('a', [bits]) | ('s', str) | ('c', (count, expr))"""

    def __init__(self, op, args):
        self.op, self.args = op, args

    def key(self):
        return (self.op, tuple((k, tuple(v) if isinstance(v, list) else v) for k, v in self.args))

    def nums(self):
        out = []
        for k, v in self.args:
            if k == 'n':
                out.append(v)
            elif k == 'a':
                out += v
        return out

    def expr(self):
        """(bindings text, expression text over a0.., decomposition list text)"""
        binds, names, dec = [], [], []
        for i, (k, v) in enumerate(self.args):
            n = 'a%d' % i
            names.append(n)
            if k == 'n':
                binds.append('%s = %s' % (n, lit_of(v)))
                dec.append('d(%s)' % n)
            elif k == 'a':
                binds.append('%s = [%s]' % (n, ', '.join(lit_of(b) for b in v)))
                dec.append('[d(v) for v in %s]' % n)
            elif k == 's':
                binds.append('%s = %s' % (n, jstr(v)))
            elif k == 'c':
                binds.append('%s = %s' % (n, v[1]))
        op = self.op
        if op in BINOPS:
            e = '%s %s %s' % (names[0], BINOPS[op], names[1])
        elif op in UNOPS:
            e = '%s%s' % (UNOPS[op], names[0])
        else:
            e = 'std.%s(%s)' % (op, ', '.join(names))
        return binds, e, dec

    def program(self):
        binds, e, dec = self.expr()
        return DECOMP + 'local ' + ', '.join(binds) + '; local r = ' + e + '; [' + ', '.join(dec + ['d(r)', 'r']) + ']'

    def oracle_program(self):
        binds, e, dec = self.expr()
        return 'local ' + ', '.join(binds) + '; local r = ' + e + '; std.type(r) == "number" && r - r == 0'

    def wire_args(self):
        out = []
        for k, v in self.args:
            if k == 'n':
                out.append('n' + hx(v))
            elif k == 'a':
                out.append('a' + hxl(v))
            elif k == 's':
                out.append('s' + cps(v))
            elif k == 'c':
                out.append('c' + hx(v[0]))
        return ';'.join(out)

    def to_json(self):
        return {'kind': 'op', 'op': self.op, 'args': [[k, list(v) if isinstance(v, (list, tuple)) else v] for k, v in self.args],
                'program': self.program()}

    @staticmethod
    def from_json(j):
        args = []
        for k, v in j['args']:
            if k == 'c':
                v = tuple(v)
            args.append((k, v))
        return OpCase(j['op'], args)


def parse_flat(text):
    """'[[1, 2], [3, -4], 5]' -> ['1','2','3','-4','5']"""
    t = text.replace('[', ' ').replace(']', ' ').replace('\n', ' ')
    return [x.strip() for x in t.split(',') if x.strip()]


def bits_from_me(m, e):
    """(mantissa * 2^53 text, exponent text) -> bit pattern (exact), or None if not understood"""
    try:
        if not re.fullmatch(r'-?\d+', m) or not re.fullmatch(r'-?\d+', e):
            return None
        neg = m.startswith('-')
        mi, ei = abs(int(m)), int(e)
        if ei == 1025:
            if mi == 2 ** 52:
                return INF_BITS | (1 << 63 if neg else 0)
            return NAN_BITS
        if mi == 0:
            return (1 << 63) if neg else 0
        if not (2 ** 52 <= mi < 2 ** 53):
            return None
        x = math.ldexp(float(mi), ei - 53)
        if Fraction(x) != Fraction(mi) * Fraction(2) ** (ei - 53):
            return None
        return bits_of(-x if neg else x)
    except Exception:
        return None


def impl_outcome(res, nnums):
    """canonical implementation outcome of an op/literal program.
       -> ('OK', result bits, [arg bits], printed text) | ('ERR', variant) | ('PANIC',) | ('BAD', raw)"""
    f = res.split('\t')
    if f[0] == 'OK':
        toks = parse_flat(uncps(f[1]))
        if len(toks) != 2 * nnums + 3:
            return ('BAD', uncps(f[1])[:200])
        argbits = [bits_from_me(toks[2 * i], toks[2 * i + 1]) for i in range(nnums)]
        rb = bits_from_me(toks[2 * nnums], toks[2 * nnums + 1])
        if rb is None or any(a is None for a in argbits):
            return ('BAD', uncps(f[1])[:200])
        return ('OK', rb, argbits, toks[-1])
    if f[0] == 'ERR':
        return ('ERR', f[2] if len(f) > 2 else '?')
    if f[0] == 'PANIC':
        return ('PANIC',)
    return ('BAD', res[:200])


def gen_strings_radix(rng, radix):
    digs = '01234567' if radix == 8 else '0123456789abcdefABCDEF'
    maxd = 42 if radix == 8 else 32
    k = rng.random()
    n = rng.choice([1, 2, 5, maxd - 1, maxd, maxd + 1, maxd + 2, maxd + 10, 60, rng.randint(1, 80), rng.randint(300, 360)])
    s = ''.join(rng.choice(digs) for _ in range(n))
    if k < 0.15:
        s = '0' * rng.randint(1, 5) + s
    elif k < 0.22:
        pos = rng.randint(0, len(s))
        s = s[:pos] + rng.choice(['g', '8' if radix == 8 else 'G', ' ', '-', '_', 'x']) + s[pos:]
    elif k < 0.27:
        s = rng.choice(['', '0', '000', '7' * 43 if radix == 8 else 'f' * 33, 'f' * 300 if radix == 16 else '7' * 400])
    elif k < 0.30:
        # a digit just past the exact window decides a tie (value beyond 2^128)
        s = ('1' + '0' * 12 + '2' + '8' + '0' * 17 + '1') if radix == 16 else s
    return s


def gen_parse_int(rng):
    k = rng.random()
    n = rng.choice([1, 2, 15, 16, 17, 18, 19, 20, 25, 40, 100, 308, 309, 310, 400, rng.randint(1, 330)])
    s = ''.join(rng.choice('0123456789') for _ in range(n))
    if k < 0.3:
        s = '-' + s
    elif k < 0.36:
        s = rng.choice(['', '-', '+1', '1.5', '1e5', ' 1', '1 ', '--1', '0x10', '1_0', '-0', '0', '00012', '-00'])
    elif k < 0.40:
        pos = rng.randint(0, len(s))
        s = s[:pos] + rng.choice(['a', '.', '-', 'e', '٣']) + s[pos:]
    elif k < 0.5:
        s = rng.choice(['17976931348623157' + '0' * 292, '17976931348623158' + '0' * 292, '17976931348623159' + '0' * 292,
                        '179769313486231580793728971405303415079934132710037826936173778980444968292764750946649017977587207096330286416692887910946555547851940402630657488671505820681908902000708383676273854845817711531764475730270069855571366959622842914819860834936475292719074168444365510704342711559699508093042880177904174497791',
                        '179769313486231580793728971405303415079934132710037826936173778980444968292764750946649017977587207096330286416692887910946555547851940402630657488671505820681908902000708383676273854845817711531764475730270069855571366959622842914819860834936475292719074168444365510704342711559699508093042880177904174497792',
                        '9007199254740993', '9007199254740992', '9007199254740995', '18014398509481985', '1' + '0' * 400])
    return s


CHARS = ['a', 'Z', '0', ' ', 'é', '߿', 'ࠀ', '日', '￿', '\U00010000', '\U0001d11e', '\U0010ffff', '\x7f', '\x01']


def gen_op_case(rng, op):
    R = lambda: ('n', rand_double(rng))
    if op in ('shl', 'shr'):
        a = ('n', rand_int_double(rng))
        k = rng.random()
        if k < 0.6:
            b = ('n', bits_of(float(rng.choice([0, 1, 2, 9, 10, 30, 31, 32, 33, 52, 53, 61, 62, 63, 64, 65, 127, 128, rng.randint(0, 70)]))))
        elif k < 0.7:
            b = ('n', bits_of(rng.choice([-0.0, -1.0, -5e-324, 1.5, 0.5, 63.9])))
        else:
            b = ('n', rand_int_double(rng))
        return OpCase(op, [a, b])
    if op in ('and', 'or', 'xor'):
        return OpCase(op, [('n', rand_int_double(rng)), ('n', rand_int_double(rng))])
    if op == 'not':
        return OpCase(op, [('n', rand_int_double(rng))])
    if op in BINOPS or op in STD2:
        a, b = R(), R()
        if rng.random() < 0.15:
            b = a
        if op in ('rem', 'mod', 'modulo', 'div') and rng.random() < 0.5:
            b = ('n', bits_of(rng.choice([1.0, 2.0, 3.0, 0.1, 10.0, 5e-324, 1.7976931348623157e308, -3.0, 0.0, -0.0, 2.0 ** -1022, 7.0, 1e-300])))
        if op == 'pow' and rng.random() < 0.5:
            a = ('n', bits_of(rng.choice([2.0, 10.0, 0.5, -2.0, 0.0, -0.0, 1.0, -1.0, 1.5, 1e10, 1e-10, 1e308])))
            b = ('n', bits_of(rng.choice([0.0, 1.0, 2.0, 0.5, -1.0, 3.0, 1023.0, 1024.0, 1025.0, -1074.0, -1075.0, 308.0, 309.0, 400.0, -400.0, 0.3333333333333333, 1e308, -1e308])))
        return OpCase(op, [a, b])
    if op in UNOPS or op in STD1:
        a = R()
        if op in ('asin', 'acos') and rng.random() < 0.6:
            a = ('n', bits_of(rng.choice([rng.uniform(-1, 1), 1.0, -1.0, 1.0000000000000002, 0.0, -0.0, 0.5])))
        if op in ('exp',) and rng.random() < 0.5:
            a = ('n', bits_of(rng.choice([709.782712893384, 709.7827128933841, 710.0, -745.1332191019412, -745.2, -746.0, 1.0, 0.0, -1.0, 100.0, 1e308])))
        if op in ('floor', 'ceil', 'round') and rng.random() < 0.5:
            a = ('n', bits_of(rng.choice([-1, 1]) * (rng.choice([0, 1, 2, 7, 2 ** 52 - 1, 2 ** 51, 2 ** 53 - 2, 1e15]) + rng.choice([0.0, 0.5, 0.25, 0.75, 0.49999999999999994, 0.5000000000000001]))))
        return OpCase(op, [a])
    if op == 'clamp':
        return OpCase(op, [R(), R(), R()])
    if op in ('sum', 'avg'):
        n = rng.choice([0, 1, 2, 2, 3, 4, 6, 9])
        k = rng.random()
        if k < 0.35:
            big = [bits_of(x) for x in (1e308, -1e308, 1.7976931348623157e308, -1.7976931348623157e308, 8.98846567431158e307, 1.0, 2.0 ** 970, -8.98846567431158e307)]
            arr = [rng.choice(big) for _ in range(n)]
        elif k < 0.6:
            arr = [bits_of(float(rng.randint(-1000, 1000)) / rng.choice([1, 2, 4, 10])) for _ in range(n)]
        else:
            arr = [rand_double(rng) for _ in range(n)]
        return OpCase(op, [('a', arr)])
    if op == 'length':
        k = rng.random()
        n = rng.choice([0, 1, 2, 3, 10, 255, 256, 1000, rng.randint(0, 3000)])
        if k < 0.4:
            return OpCase(op, [('c', (n, 'std.range(1, %d)' % n))])
        if k < 0.7:
            return OpCase(op, [('c', (n, 'std.repeat(%s, %d)' % (jstr(rng.choice(CHARS)), n)))])
        if k < 0.85:
            n = rng.randint(0, 12)
            return OpCase(op, [('c', (n, '{' + ', '.join(['f%d: %d' % (i, i) for i in range(n)] + ['h:: 1']) + '}'))])
        n = rng.randint(0, 6)
        return OpCase(op, [('c', (n, 'function(' + ', '.join('p%d' % i for i in range(n)) + ') 0'))])
    if op == 'codepoint':
        k = rng.random()
        if k < 0.75:
            return OpCase(op, [('s', rng.choice(CHARS + [chr(rng.choice([rng.randint(1, 0xd7ff), rng.randint(0xe000, 0x10ffff)]))]))])
        return OpCase(op, [('s', rng.choice(['', 'ab', '日本', 'á']))])
    if op == 'parseInt':
        return OpCase(op, [('s', gen_parse_int(rng))])
    if op == 'parseOctal':
        s = gen_strings_radix(rng, 8)
        return OpCase(op, [('s', s)])
    if op == 'parseHex':
        s = gen_strings_radix(rng, 16)
        if rng.random() < 0.08:   # a multi-byte character around the 32-byte window
            pos = rng.choice([30, 31, 32, 33])
            s = '1' * pos + rng.choice(['é', '日', '\U0001d11e']) + '1' * rng.randint(0, 3)
        return OpCase(op, [('s', s)])
    raise ValueError(op)


def model_line_for(cid, case, impl):
    """numops model case; libm answer taken from the implementation's own outcome"""
    libm = '-'
    if case.op in LIBM:
        if impl[0] == 'OK':
            libm = hx(impl[1])
        elif impl[0] == 'ERR' and impl[1] == 'NumberOverflow':
            libm = hx(INF_BITS)
        elif impl[0] == 'ERR' and impl[1] == 'NumberNan':
            libm = hx(NAN_BITS)
    return '\t'.join([cid, case.op, case.wire_args(), libm])


def run_op_cases(run, cases, impl_exe, numops_exe, dec_exe, label):
    """cases: list of (cid, OpCase).  K + oracle + printed-text check."""
    lines = [vlib.impl_line((cid, 'eval', ['', hxl(list(c.program().encode('utf-8')))])) for cid, c in cases]
    ires = vlib.run_sharded(impl_exe, lines, timeout=300)
    outs = {}
    mlines = []
    for cid, c in cases:
        o = impl_outcome(ires.get(cid, 'NOOUTPUT'), len(c.nums()))
        outs[cid] = o
        mlines.append(model_line_for(cid, c, o))
    mres = vlib.run_sharded(numops_exe, mlines, timeout=300)
    # oracle programs for cases that produced a value
    olines = [vlib.impl_line(('O/' + cid, 'eval', ['', hxl(list(c.oracle_program().encode('utf-8')))])) for cid, c in cases if outs[cid][0] == 'OK']
    ores = vlib.run_sharded(impl_exe, olines, timeout=300)
    plines = []
    for cid, c in cases:
        run.evaluations += 1
        o = outs[cid]
        mr = mres.get(cid, 'NOOUTPUT')
        rp = c.to_json()
        rp['impl'] = list(o)
        rp['model'] = mr
        run.count('%s:%s' % (label, o[0] if o[0] != 'ERR' else 'ERR_' + o[1]))
        run.count('op_' + c.op)
        if mr.startswith('MODELEXC') or mr == 'NOOUTPUT':
            run.violation('machinery:model', 'model driver failed on %s: %s' % (c.op, mr), rp, concrete=False)
            continue
        if o[0] == 'BAD':
            run.violation('observe:' + c.op, 'result of %s cannot be observed as (mantissa, exponent): %s  program: %s' % (c.op, o[1], c.program()), rp)
            continue
        if o[0] == 'OK':
            want = c.nums()
            if o[2] != want:
                run.violation('literal-arg-misread', 'argument literals of %s read as %s, written as %s' % (c.program(), [hx(b) for b in o[2]], [hx(b) for b in want]), rp)
                continue
            # ---- oracle on the implementation alone
            if not is_finite_bits(o[1]):
                run.violation('nonfinite:' + c.op, 'std/operator %s yields %s on finite arguments, exit 0: %s' % (c.op, o[3], c.program()), rp)
                continue
            orr = ores.get('O/' + cid, 'NOOUTPUT').split('\t')
            otext = uncps(orr[1]) if orr[0] == 'OK' else orr[0] + ' ' + ' '.join(orr[1:3])
            if otext != 'true':
                run.violation('oracle-type-or-self-difference:' + c.op, 'std.type(p) == "number" && p - p == 0 is %s for p = %s' % (otext, c.oracle_program()), rp)
                continue
            plines.append((cid, o[1], o[3], c))
        # ---- correspondence
        if o[0] == 'OK':
            canon = 'OK\t' + hx(o[1])
        elif o[0] == 'ERR':
            canon = 'ERR\t' + o[1]
        else:
            canon = 'PANIC'
        mcanon = 'PANIC' if mr.startswith('PANIC') else mr
        if canon != mcanon:
            concrete = o[0] == 'PANIC' or (o[0] == 'OK' and mr.startswith('ERR\tNumber')) or (c.op not in LIBM and o[0] == 'OK' and mr.startswith('OK'))
            run.violation('numop-differs:' + c.op, 'operator/builtin %s: implementation %s, model %s on %s' % (c.op, canon.replace('\t', ' '), mcanon.replace('\t', ' '), c.program()), rp, concrete=concrete)
            continue
        if o[0] != 'OK' or o[1] not in c.nums():
            run.nontrivial.add(c.key())
        if len(run.samples) < 4 and o[0] == 'OK' and c.op in ('div', 'sum', 'pow', 'parseHex'):
            run.samples.append({'component': 'numops', 'program': c.program()[60:260], 'impl': canon, 'model': mcanon})
    check_printed(run, [(cid, b, t, c.to_json()) for cid, b, t, c in plines], dec_exe)


def py_digits(x):
    """(digits, exp) of Python's shortest repr of |x| (test oracle only)"""
    r = repr(abs(x))
    m = re.fullmatch(r'(\d+)(?:\.(\d+))?(?:e([+-]?\d+))?', r)
    ip, fp, ex = m.group(1), m.group(2) or '', int(m.group(3) or 0)
    d = (ip + fp).lstrip('0')
    e = ex - len(fp)
    while d.endswith('0'):
        d, e = d[:-1], e + 1
    return d or '0', e


def check_printed(run, items, dec_exe):
    """items: (cid, bits, printed text, replay-json).  Model checker + Python re-read (test oracle)."""
    lines = ['\t'.join(['P/' + cid, 'print', hx(b), cps(t)]) for cid, b, t, _ in items]
    res = vlib.run_sharded(dec_exe, lines, timeout=300)
    for cid, b, t, rj in items:
        run.evaluations += 1
        rp = {'kind': 'print', 'bits': hx(b), 'text': t, 'from': rj}
        ok = res.get('P/' + cid, 'NOOUTPUT')
        try:
            back = bits_of(float(t))
        except Exception:
            back = None
        if back != b:
            run.violation('printed-not-roundtrip', 'value %s (%r) is printed as %s, which reads back as %s' % (hx(b), fl(b), t[:80], 'n/a' if back is None else hx(back)), rp)
            continue
        if ok == '1':
            run.count('printed_ok')
            sig = len(t.replace('-', '').replace('.', '').strip('0'))
            if sig >= 16:
                run.nontrivial.add(('print', b))
            continue
        if ok != '0':
            run.violation('machinery:model', 'dec model driver failed on print: ' + ok, rp, concrete=False)
            continue
        pd, pe = py_digits(fl(b))
        sig = t.replace('-', '').replace('.', '').lstrip('0').rstrip('0')
        if len(sig) > len(pd):
            run.violation('printed-not-shortest', 'value %s (%r) is printed with %d significant digits (%s), %d suffice (%s)' % (hx(b), fl(b), len(sig), t[:60], len(pd), pd), rp)
        else:
            run.violation('printed-check-differs', 'model check_printed rejects %s for %s although Python finds it shortest' % (t[:80], hx(b)), rp, concrete=False)


# ---------------------------------------------------------------- literals

def exact_decimal(fr):
    """exact decimal text of a non-negative dyadic Fraction"""
    n, d = fr.numerator, fr.denominator
    k = d.bit_length() - 1       # d = 2^k
    if k == 0:
        return str(n)
    s = str(n * 5 ** k)
    if len(s) <= k:
        s = '0' * (k - len(s) + 1) + s
    return s[:-k] + '.' + s[-k:]


def underscore(rng, s):
    """insert single underscores between digits"""
    out = []
    for i, ch in enumerate(s):
        out.append(ch)
        if i + 1 < len(s) and ch.isdigit() and s[i + 1].isdigit() and rng.random() < 0.15:
            out.append('_')
    return ''.join(out)


FIXED_LITS = ['0', '1', '0.0', '0e0', '0e99999999999', '0.1', '1e0', '1E5', '1e+5', '1e-5', '1.5e3', '1_000', '1_0.0_5e-0_3', '1e1_0',
              '1.7976931348623157e308', '1.7976931348623158e308', '1.797693134862315807e308', '1.797693134862315808e308',
              '179769313486231580793728971405303415079934132710037826936173778980444968292764750946649017977587207096330286416692887910946555547851940402630657488671505820681908902000708383676273854845817711531764475730270069855571366959622842914819860834936475292719074168444365510704342711559699508093042880177904174497791',
              '179769313486231580793728971405303415079934132710037826936173778980444968292764750946649017977587207096330286416692887910946555547851940402630657488671505820681908902000708383676273854845817711531764475730270069855571366959622842914819860834936475292719074168444365510704342711559699508093042880177904174497792',
              '1e308', '1e309', '2e308', '1.8e308', '1e400', '1e5000', '1e9223372036854775807', '1e9223372036854775808', '1e18446744073709551615', '1e18446744073709551616',
              '1e-9223372036854775807', '1e-9223372036854775808', '0.1e-9223372036854775807', '0.01e-9223372036854775807', '0.0e-9223372036854775808', '1e99999999999999999999',
              '4.9406564584124654e-324', '4.9e-324', '5e-324', '3e-324', '2.4703282292062327e-324', '2.4703282292062328e-324', '2.47032822920623272e-324', '2.4703282292062327208e-324', '2.4703282292062327209e-324',
              '2.2250738585072011e-308', '2.2250738585072012e-308', '2.2250738585072009e-308', '2.2250738585072014e-308', '1e-323', '1e-324', '1e-325', '1e-400',
              '9007199254740993', '9007199254740992', '9007199254740991', '9007199254740995', '9007199254740993.0000000000000000000000000001', '9007199254740993.00000000000000000000000000000',
              '9007199254740994.99999999999999999999999', '18014398509481985', '0.30000000000000004', '0.3', '0.1e1', '100e-2', '1e23', '8.41e21', '6.3e-322', '123456789012345678901234567890',
              '1' + '0' * 400, '0.' + '0' * 400 + '1', '1' * 400, '0.' + '9' * 400, '1' + '0' * 308, '1' + '0' * 309, '0.' + '0' * 323 + '5', '0.' + '0' * 323 + '2', '0.' + '0' * 323 + '25',
              # malformed
              '01', '00', '1.', '1.e5', '1e', '1e+', '1e-', '1_', '1__0', '1_.5', '1._5', '1.5_', '1.5__5', '1e_5', '1e5_', '1e5__5', '0_1', '1e+_5', '0x10', '1.5.5', '1ee5']


def gen_literal(rng):
    k = rng.random()
    if k < 0.35:   # generic shape
        ni = rng.choice([1, 1, 2, 5, 16, 17, 18, 20, 30, rng.randint(1, 40)])
        ip = ''.join(rng.choice('0123456789') for _ in range(ni)).lstrip('0') or '0'
        s = ip
        if rng.random() < 0.6:
            nf = rng.choice([1, 2, 5, 16, 17, 20, 30, rng.randint(1, 40)])
            s += '.' + ''.join(rng.choice('0123456789') for _ in range(nf))
        if rng.random() < 0.6:
            ex = rng.choice([0, 1, 5, 22, 23, 300, 307, 308, 309, 310, 323, 324, 325, 330, 400, 1000, rng.randint(0, 340)])
            s += rng.choice('eE') + rng.choice(['', '+', '-', '-']) + str(ex)
        if rng.random() < 0.3:
            s = underscore(rng, s)
        return s
    if k < 0.50:   # long digit strings
        n = rng.choice([50, 100, 200, 400, rng.randint(40, 400)])
        d = ''.join(rng.choice('0123456789') for _ in range(n))
        d = (d.lstrip('0') or '1')
        mode = rng.random()
        if mode < 0.4:
            return d + 'e' + str(rng.randint(-400 - n, 320 - n))
        if mode < 0.7:
            p = rng.randint(1, len(d))
            return (d[:p] or '0') + '.' + (d[p:] or '0') + rng.choice(['', 'e%d' % rng.randint(-330, 310)])
        return d
    if k < 0.80:   # ties and near-ties that need many digits
        while True:
            b = rng.choice([rng.getrandbits(63), bits_of(rng.uniform(1e-5, 1e25)), bits_of(2.0 ** rng.randint(-60, 80)) - rng.randint(0, 1), rng.choice(GRID_BITS) & ~(1 << 63)])
            if is_finite_bits(b) and is_finite_bits(b + 1):
                lo, hi = Fraction(fl(b)), Fraction(fl(b + 1))
                mid = (lo + hi) / 2
                t = exact_decimal(mid)
                if len(t) <= 395:
                    break
        v = rng.random()
        if v < 0.4:
            s = t
        elif v < 0.7:
            s = (t if '.' in t else t + '.') + '0' * rng.randint(0, 6) + '1'
        else:
            # just below: decrement the last digit (it is a 5 for a dyadic midpoint) and pad with nines
            s = t[:-1] + '4' + '9' * rng.randint(1, 8) if t[-1] == '5' else t
        if rng.random() < 0.3:
            # move the point: write with an exponent
            if '.' in s:
                ip, fp = s.split('.')
                sh = rng.randint(0, len(fp))
                s = (ip + fp[:sh]).lstrip('0') or '0'
                s += ('.' + fp[sh:] if fp[sh:] else '') + 'e-%d' % sh
        return s
    if k < 0.92:   # around the range limits
        base = rng.choice(['1.7976931348623157', '1.7976931348623158', '1.79769313486231570', '1.797693134862315708', '1.79769313486231581', '1.797693134862316',
                           '4.9406564584124654', '2.4703282292062327', '2.4703282292062328', '2.2250738585072014', '2.2250738585072011', '9.88131291682493', '1', '9.99999999999999999999'])
        ex = rng.choice([308, 307, 309, -324, -323, -325, -308, -307, -309, rng.randint(-330, 310)])
        return base + 'e' + str(ex)
    # far beyond
    return '%d%se%s%d' % (rng.randint(0, 99), rng.choice(['', '.5']), rng.choice(['', '-']), rng.choice([10 ** 5, 10 ** 10, 2 ** 63 - 1, 2 ** 63, 2 ** 63 - 2, 2 ** 64 - 1, 2 ** 64, 10 ** 30, 400, 4000]))


def run_literal_cases(run, cases, impl_exe, dec_exe, label):
    """cases: list of (cid, text)"""
    l1 = [vlib.impl_line((cid, 'front', ['lex0', hxl(list(t.encode()))])) for cid, t in cases]
    l2 = [vlib.impl_line(('E/' + cid, 'eval', ['', hxl(list((DECOMP + 'local r = ' + t + '; [d(r), r]').encode()))])) for cid, t in cases]
    # the same text through std.parseJson / std.parseYaml (their own number scanners, same conversion + gate)
    JSON_NUM = re.compile(r'(0|[1-9][0-9]*)(\.[0-9]+)?([eE][+-]?[0-9]+)?')
    l3 = []
    for cid, t in cases:
        if JSON_NUM.fullmatch(t) and len(t) < 450:
            for tag, fn, sign in (('J/', 'parseJson', ''), ('Jn/', 'parseJson', '-'), ('Y/', 'parseYaml', '')):
                l3.append(vlib.impl_line((tag + cid, 'eval', ['', hxl(list((DECOMP + 'local r = std.%s("%s%s"); [d(r), r]' % (fn, sign, t)).encode()))])))
    ires = vlib.run_sharded(impl_exe, l1 + l2 + l3, timeout=300)
    mres = vlib.run_sharded(dec_exe, ['\t'.join([cid, 'lit', cps(t)]) for cid, t in cases], timeout=300)
    printed = []
    for cid, t in cases:
        run.evaluations += 1
        rp = {'kind': 'lit', 'text': t}
        lx = ires.get(cid, 'NOOUTPUT').split('\t')
        ev = impl_outcome(ires.get('E/' + cid, 'NOOUTPUT'), 0)
        mr = mres.get(cid, 'NOOUTPUT').split('\t')
        rp['lex'], rp['eval'], rp['model'] = lx[:3], list(ev), mr
        if mr[0] in ('MODELEXC', 'NOOUTPUT'):
            run.violation('machinery:model', 'dec model driver failed on literal %s: %s' % (t[:60], mr), rp, concrete=False)
            continue
        # --- the lexer's split
        if lx[0] == 'OK':
            m = re.fullmatch(r'\(Num ([0-9a-f,]+) (-?[0-9a-f]+) [0-9a-f]+:[0-9a-f]+\) \(EOF [0-9a-f:]+\)', lx[1])
            if not m:
                run.count(label + ':not-a-single-number-token')
                if mr[0] == 'OK':
                    run.violation('literal-lex-differs', 'text %s: lexer does not see one number token, model reads (%s, %s)' % (t[:80], mr[1], mr[2]), rp, concrete=False)
                continue
            digits = int(uncps(m.group(1)))
            exp = int(m.group(2), 16)
            if mr[0] != 'OK' or int(mr[1], 16) != digits or int(mr[2], 16) != exp:
                run.violation('literal-lex-differs', 'text %s: lexer gives digits=%d exp=%d, model %s' % (t[:80], digits, exp, mr[:3]), rp, concrete=False)
                continue
        elif lx[0] == 'ERR':
            run.count(label + ':LEX_' + lx[2])
            if mr[0] != 'ERR' or (mr[1] != lx[2] and mr[1] != 'Trailing'):
                run.violation('literal-lex-differs', 'text %s: lexer error %s, model %s' % (t[:80], lx[2], mr[:3]), rp, concrete=False)
            else:
                run.nontrivial.add(('lit-err', lx[2], t[:20]))
            continue
        else:
            run.violation('literal-crash', 'lexer %s on %s' % (lx[0], t[:80]), rp)
            continue
        # --- the value
        txt = t.replace('_', '')
        try:
            pyv = float(txt)
        except Exception:
            pyv = None
        if ev[0] == 'OK':
            canon = 'V\t' + hx(ev[1])
            if not is_finite_bits(ev[1]):
                run.violation('nonfinite:literal', 'literal %s evaluates to %s, exit 0' % (t[:80], ev[3]), rp)
                continue
        elif ev[0] == 'ERR':
            canon = 'E\t' + ev[1]
        else:
            run.violation('literal-crash', 'evaluating literal %s: %s' % (t[:80], ev), rp)
            continue
        mcanon = '\t'.join(mr[3:5])
        run.count(label + ':' + (ev[0] if ev[0] == 'OK' else ev[1]))
        if canon != mcanon:
            pyb = None if pyv is None else ('E\tNumberOverflow' if math.isinf(pyv) else 'V\t' + hx(bits_of(pyv)))
            run.violation('literal-value', 'literal %s: implementation %s, correctly rounded (model) %s, Python float %s' % (t[:100], canon.replace('\t', ' '), mcanon.replace('\t', ' '), (pyb or '?').replace('\t', ' ')),
                          rp, concrete=(pyb == mcanon))
            continue
        if pyv is not None:
            pyb = 'E\tNumberOverflow' if math.isinf(pyv) else 'V\t' + hx(bits_of(pyv))
            if pyb != mcanon:
                run.violation('machinery:python-float', 'Python float(%s) = %s but model and implementation agree on %s' % (t[:80], pyb, mcanon), rp, concrete=False)
                continue
        # parseJson / parseYaml on the same text: same value (negated for "-text"), or an error where the literal overflows
        for tag, neg in (('J/', False), ('Jn/', True), ('Y/', False)):
            if tag + cid not in ires:
                continue
            run.evaluations += 1
            pj = impl_outcome(ires[tag + cid], 0)
            if ev[0] == 'OK':
                want = ev[1] ^ (1 << 63 if neg else 0)
                if pj[0] != 'OK' or pj[1] != want:
                    what = 'std.parseJson' if tag != 'Y/' else 'std.parseYaml'
                    key = 'nonfinite:' + what if (pj[0] == 'OK' and not is_finite_bits(pj[1])) else 'text-number-differs:' + what
                    run.violation(key, '%s("%s%s") gives %s, the literal %s' % (what, '-' if neg else '', t[:80], pj[:2], hx(want)), dict(rp, via=tag))
            elif pj[0] == 'OK':
                what = 'std.parseJson' if tag != 'Y/' else 'std.parseYaml'
                run.violation('nonfinite:' + what if not is_finite_bits(pj[1]) else 'text-number-differs:' + what,
                              '%s("%s%s") gives %s where the literal overflows' % (what, '-' if neg else '', t[:80], pj[3][:40]), dict(rp, via=tag))
            run.count('text_number_' + tag.strip('/') + ':' + pj[0])
        sig = len(str(digits).rstrip('0'))
        if ev[0] != 'OK' or sig > 17 or (pyv is not None and pyv != 0 and Fraction(pyv) != Fraction(digits) * Fraction(10) ** exp):
            run.nontrivial.add(('lit', digits, exp))
        if ev[0] == 'OK':
            printed.append((cid, ev[1], ev[3], rp))
        if len(run.samples) < 7 and sig > 25:
            run.samples.append({'component': 'dec', 'literal': t[:120], 'impl': canon, 'model': mcanon})
    check_printed(run, printed, dec_exe)


# ---------------------------------------------------------------- values to print

def run_print_cases(run, bitlist, impl_exe, dec_exe):
    cases = []
    for i, b in enumerate(bitlist):
        cases.append(('v:%d' % i, b))
    lines = [vlib.impl_line((cid, 'eval', ['', hxl(list((DECOMP + 'local r = ' + lit_of(b) + '; [d(r), r]').encode()))])) for cid, b in cases]
    ires = vlib.run_sharded(impl_exe, lines, timeout=300)
    items = []
    for cid, b in cases:
        run.evaluations += 1
        o = impl_outcome(ires.get(cid, 'NOOUTPUT'), 0)
        rp = {'kind': 'value', 'bits': hx(b)}
        if o[0] != 'OK':
            run.violation('value-literal-fails', 'finite double %s written as %s does not evaluate: %s' % (hx(b), lit_of(b), o), rp)
        elif o[1] != b:
            run.violation('literal-arg-misread', 'double %s written as %s reads as %s' % (hx(b), lit_of(b), hx(o[1])), rp)
        else:
            items.append((cid, b, o[3], rp))
    check_printed(run, items, dec_exe)


# ---------------------------------------------------------------- main

def load_corpus():
    ops, lits = [], []
    p = os.path.join(vlib.VERIF, 'corpus', 'c06_ops.txt')
    if os.path.exists(p):
        for l in open(p):
            l = l.strip()
            if l and not l.startswith('#'):
                ops.append(OpCase.from_json(json.loads(l)))
    p = os.path.join(vlib.VERIF, 'corpus', 'c06_literals.txt')
    if os.path.exists(p):
        for l in open(p):
            l = l.strip()
            if l and not l.startswith('#'):
                lits.append(l)
    return ops, lits


def check(run):
    rng = vlib.rng_for(run.seed, ID)
    run.rule = ('ops: each of %d operators/builtins on arguments from a boundary grid (+-0, subnormals, 2^53+-1, powers of two, max double, '
                'halves) U random bit patterns U op-specific boundaries (shift counts, safe-integer limits, digit-window strings); arrays for sum/avg; '
                'non-trivial = distinct (op, args) whose outcome is an error or a value different from every argument.  '
                'literals: digits/fraction/exponent/underscore shapes, up to 400 digits, exponents around +-308/+-324 and far beyond, exact midpoints '
                'between adjacent doubles +- one unit in a late digit; non-trivial = error, > 17 significant digits, or value not exactly representable.  '
                'printing: every value produced above + grid + random patterns; non-trivial = >= 16 significant digits.' % len(ALL_OPS))
    run.assume = ['libm (Rust std f64::powf/exp/ln/log2/log10/sin/cos/tan/asin/acos/atan/atan2/hypot) is a Section variable without hypotheses; per case the model is given the implementation\'s own answer',
                  'Rust str::parse::<f64> and f64 Display are not trusted: each generated case is compared with Model/Dec (dec_to_f64 / check_printed); Python float()/repr are test oracles of the harness only',
                  'core f64::to_radians/to_degrees are x * (PI/180) and x * (180/PI) with PI = 0x400921FB54442D18 (checked per case)',
                  'results are observed as (std.mantissa(x) * 2^53, std.exponent(x)), exact integers; the sign bit of a NaN is not modelled',
                  'hosts can inject any f64 through the public API Value::number (not a producer inside the language; not modelled)']
    # T
    try:
        table, lit_gated = translate(vlib.REPO)
        run.add_obligation('T:gate table (which producers call check_number_value / is_finite) translated from expr.rs, mod.rs, stdlib.rs', True)
        for op, gd in sorted(table.items()):
            run.count('gate_%s_%s' % (op, 'yes' if gd else 'no'))
    except Exception as e:
        run.add_obligation('T:gate table (which producers call check_number_value / is_finite) translated from expr.rs, mod.rs, stdlib.rs', False, str(e))
    # proofs
    pres = vlib.prove(ID, THEOREMS, ALLOWED_AXIOMS)
    run.add_proof(pres, THEOREMS)
    # build
    impl_exe = vlib.build_harness()
    numops_exe = vlib.build_model('numops')
    dec_exe = vlib.build_model('dec')
    quick = run.tier == 'quick'
    # corpus first
    cops, clits = load_corpus()
    run_op_cases(run, [('k:%d' % i, c) for i, c in enumerate(cops)], impl_exe, numops_exe, dec_exe, 'corpus')
    run_literal_cases(run, [('kl:%d' % i, t) for i, t in enumerate(FIXED_LITS + clits)], impl_exe, dec_exe, 'lit')
    # generated ops
    per_op = 60 if quick else 800
    cases = []
    for op in ALL_OPS:
        for i in range(per_op):
            cases.append(('%s:%d' % (op, i), gen_op_case(rng, op)))
    for chunk in range(0, len(cases), 20000):
        run_op_cases(run, cases[chunk:chunk + 20000], impl_exe, numops_exe, dec_exe, 'ops')
    # generated literals
    nl = 1200 if quick else 20000
    lits = [('l:%d' % i, gen_literal(rng)) for i in range(nl)]
    for chunk in range(0, len(lits), 20000):
        run_literal_cases(run, lits[chunk:chunk + 20000], impl_exe, dec_exe, 'lit')
    # values to print
    nv = 1200 if quick else 20000
    vals = list(GRID_BITS) + [rand_double(rng) for _ in range(nv)]
    run_print_cases(run, vals, impl_exe, dec_exe)


def replay(run, path):
    j = json.load(open(path))
    r = j.get('replay', {})
    if isinstance(r, dict) and r.get('kind') in ('op', 'lit', 'print', 'value'):
        impl_exe = vlib.build_harness()
        numops_exe = vlib.build_model('numops')
        dec_exe = vlib.build_model('dec')
        if r['kind'] == 'print':
            r = r.get('from', r)
        if r['kind'] == 'op':
            c = OpCase.from_json(r)
            print('program:', c.program())
            run_op_cases(run, [('r0', c)], impl_exe, numops_exe, dec_exe, 'replay')
        elif r['kind'] == 'lit':
            run_literal_cases(run, [('r0', r['text'])], impl_exe, dec_exe, 'replay')
        elif r['kind'] == 'value':
            run_print_cases(run, [int(r['bits'], 16)], impl_exe, dec_exe)
    else:
        print('replay file names a broken obligation, not an input:', json.dumps(j.get('no_longer_checks', j), indent=1)[:2000])
        try:
            translate(vlib.REPO)
        except Exception as e:
            run.add_obligation('T:gate table', False, str(e))
        pres = vlib.prove(ID, THEOREMS, ALLOWED_AXIOMS)
        run.add_proof(pres, THEOREMS)
    for v in run.violations:
        print('REPRODUCED:', v['what'])
    if not run.violations and not run.failed_obligations:
        print('not reproduced')
    return 1 if (run.violations or run.failed_obligations) else 0
