"""C18 — strings are sequences of Unicode code points in every string function.

Proof:  Props/C18.v over Model/StrFns.v (code-point lists; Rust std's
        find/split/splitn/rsplitn/replace/trim_matches specified by their documented behaviour).
K:      `std.f(args)` / `s[i]` / `s[a:b:c]` programs through the real library (harness
        component `eval`) vs the extracted model on the same arguments; values compared
        structurally (numbers as bit patterns), errors by variant (+ arg_index).
Search: a code-point reference in Python applied to the implementation's answers alone
        (length = number of code points, index/slice/substr by code point, findSubstr =
        every and only match position, join(split) identity, no separator inside a piece,
        strip maximality, splitLimit(R) piece counts and sides, reverse, char/codepoint)
        plus compound identity programs evaluated by the implementation itself
        (std.join(c, std.split(s, c)) == s, substr re-check of findSubstr, ...).
"""
import os, sys, re, json, struct
import vlib
from vlib import hx, hxl

ID = 'C18'
COMPONENTS = ['strfns']
THEOREMS = []          # filled below (kept in one place: THEOREM_LIST)
ALLOWED_AXIOMS = set()
TRANSLATORS = []

THEOREM_LIST = [
    'C18_length_counts_cps', 'C18_utf8_len_ge_length', 'C18_utf8_len_eq_length_iff_ascii', 'C18_index_is_nth',
    'C18_index_rejected', 'C18_index_small_is_nth', 'C18_substr_small', 'C18_substr_slice_agree', 'C18_slice_is_skip_take_step', 'C18_slice_no_panic',
    'C18_split_total', 'C18_join_split', 'C18_split_no_sep_inside', 'C18_std_join_split',
    'C18_findSubstr_sound_complete', 'C18_findSubstr_in', 'C18_strip_decomposes', 'C18_strip_maximal',
    'C18_lstrip_spec', 'C18_rstrip_spec', 'C18_splitLimit_first_n', 'C18_splitLimitR_last_n',
    'C18_splitLimitR_mirror', 'C18_rsplit_exists_clean', 'C18_splitLimit_join', 'C18_splitLimitR_join', 'C18_decoded_limit_positive',
    'C18_strReplace_is_join_split', 'C18_reverse_involutive', 'C18_char_codepoint_inverse',
    'C18_char_rejects_non_scalar', 'C18_codepoint_char_inverse', 'C18_stringChars_join', 'C18_map_length',
    'C18_flatMap_id', 'C18_nonvacuous_split', 'C18_nonvacuous_numbers', 'C18_nonvacuous_strip',
]
THEOREMS = THEOREM_LIST


# ---------------------------------------------------------------- values

class Obj:      # the literal {}
    def __repr__(self): return 'OBJ'
OBJ = Obj()


class Fun:
    SRC = {0: 'function(c) c', 1: 'function(c) c + c', 2: 'function(c) std.codepoint(c)',
           3: 'function(c) std.length(c)', 4: 'function(c) null', 5: 'function(c) [c]',
           6: 'function(c) if c == "a" then null else c + "-"'}

    def __init__(self, tag): self.tag = tag
    def __repr__(self): return 'Fun(%d)' % self.tag

    def apply(self, c):
        t = self.tag
        if t == 0: return c
        if t == 1: return c + c
        if t == 2: return float(ord(c))
        if t == 3: return 1.0
        if t == 4: return None
        if t == 5: return [c]
        if t == 6: return None if c == 'a' else c + '-'


def bits(x):
    return struct.unpack('<Q', struct.pack('<d', x))[0]


def wire(v):
    """python value -> model wire syntax"""
    if v is None: return 'n'
    if v is True: return 't'
    if v is False: return 'f'
    if isinstance(v, float): return 'd%x' % bits(v)
    if isinstance(v, int): return 'd%x' % bits(float(v))
    if isinstance(v, str): return 's' + vlib.cps(v)
    if isinstance(v, list): return 'a(' + ';'.join(wire(x) for x in v) + ')'
    if isinstance(v, Obj): return 'o'
    if isinstance(v, Fun): return 'F%x' % v.tag
    raise ValueError(v)


def lit_str(s, rng):
    """a Jsonnet string literal for s: raw UTF-8 or escapes, chosen per character"""
    out = ['"']
    for ch in s:
        o = ord(ch)
        if ch in '"\\':
            out.append('\\' + ch)
        elif o < 0x20 or o == 0x7f or (0x80 <= o < 0xa0):
            out.append('\\u%04x' % o)
        elif o < 0x80:
            out.append(ch if rng.random() < 0.9 else '\\u%04x' % o)
        elif rng.random() < 0.6:
            out.append(ch)
        elif o < 0x10000:
            out.append('\\u%04X' % o)
        else:
            o -= 0x10000
            out.append('\\u%04x\\u%04x' % (0xd800 + (o >> 10), 0xdc00 + (o & 0x3ff)))
    out.append('"')
    return ''.join(out)


def lit_num(x):
    r = repr(float(x))
    if r.endswith('.0') and 'e' not in r:
        r = r[:-2] if abs(x) < 1e15 and not (x == 0 and r.startswith('-')) else r
    return '(%s)' % r if r.startswith('-') else r


def lit(v, rng):
    if v is None: return 'null'
    if v is True: return 'true'
    if v is False: return 'false'
    if isinstance(v, (float, int)): return lit_num(v)
    if isinstance(v, str): return lit_str(v, rng)
    if isinstance(v, list): return '[' + ', '.join(lit(x, rng) for x in v) + ']'
    if isinstance(v, Obj): return '{}'
    if isinstance(v, Fun): return '(' + Fun.SRC[v.tag] + ')'
    raise ValueError(v)


def program(fn, args, rng):
    a = [lit(x, rng) for x in args]
    if fn == 'index':
        return '(%s)[%s]' % (a[0], a[1])
    if fn == 'sliceExpr':
        parts = [('' if (args[i] is None and rng.random() < 0.7) else a[i]) for i in (1, 2, 3)]
        if parts[2] == '' and rng.random() < 0.5:
            return '(%s)[%s:%s]' % (a[0], parts[0], parts[1])
        return '(%s)[%s:%s:%s]' % (a[0], parts[0], parts[1], parts[2])
    return 'std.%s(%s)' % (fn, ', '.join(a))


def canon_json(j):
    """parsed JSON of the implementation's answer -> the model's value syntax"""
    if j is None: return 'n'
    if j is True: return 't'
    if j is False: return 'f'
    if isinstance(j, (int, float)): return 'd%x' % bits(float(j))
    if isinstance(j, str): return 's' + vlib.cps(j)
    if isinstance(j, list): return 'a(' + ';'.join(canon_json(x) for x in j) + ')'
    if isinstance(j, dict) and not j: return 'o'
    raise ValueError('unexpected JSON %r' % (j,))


def parse_impl(res):
    """harness eval answer -> ('OK', python value, canon) | ('ERR', variant) | ('BAD', text)"""
    f = res.split('\t')
    if f[0] == 'OK':
        try:
            text = vlib.uncps(f[1])
            j = json.loads(text, strict=False)
            return ('OK', j, canon_json(j))
        except Exception as e:
            return ('BAD', 'unparsable output %r (%s)' % (f[1][:80], e))
    if f[0] == 'ERR':
        variant = f[2] if len(f) > 2 else '?'
        if f[1] != 'EVAL':
            return ('BAD', 'not an evaluation error: %s %s' % (f[1], variant))
        if variant == 'InvalidStdFuncArgType':
            d = next((x for x in f if x.startswith('D=')), 'D=')
            m = re.search(r'arg_index: (\d+)', vlib.uncps(d[2:]))
            variant += ':%x' % int(m.group(1)) if m else ':?'
        return ('ERR', variant)
    return ('BAD', res[:120])


# ---------------------------------------------------------------- generators

ASCII = ['a', 'b', 'A', 'z', 'Z', ' ', ',', '-', '\t', '\n', '/']
TWO = ['\u00e9', '\u00df', '\u0301', '\u00a0', '\u0085', '\u03a9']        # e-acute, sharp s, combining acute, NBSP, NEL, Omega
THREE = ['\u65e5', '\u672c', '\u20ac', '\u200d', '\u0e01', '\ufeff']        # CJK x2, euro, ZWJ, Thai, BOM
FOUR = ['\U0001d11e', '\U0001f600', '\U00010000', '\U0010ffff']
ODD = ['"', '\\', '\u0000', '\u001b', '\u007f', '\u000c', '\r']
SEPS = ['a', 'ab', 'aba', 'aa', 'b', ',', ', ', '\u00e9', '\u00e9\u00e9', '\u65e5', '\u65e5\u672c', '\U0001d11e',
        'a\u0301', '\u0301', '\U0001d11ea', '\u00e9a\u00e9', '--', '-', ' ']


def pick_alphabet(rng):
    k = rng.random()
    if k < 0.12:
        pool = ASCII
    elif k < 0.2:
        pool = ['a', 'b']
    else:
        pool = ASCII[:4] + TWO + THREE + FOUR + (ODD if rng.random() < 0.25 else [])
    n = rng.choice([1, 2, 2, 3, 3, 4, 6])
    return [rng.choice(pool) for _ in range(n)]


def rand_str(rng, alpha=None, maxlen=12):
    alpha = alpha or pick_alphabet(rng)
    n = rng.choice([0, 1, 1, 2, 3, 4, 5, 6, 8, maxlen, rng.randint(0, maxlen)])
    return ''.join(rng.choice(alpha) for _ in range(n))


def str_with_seps(rng):
    """(s, sep) where s is built from pieces joined by sep-like strings (overlaps included)"""
    sep = rng.choice(SEPS) if rng.random() < 0.8 else rand_str(rng, maxlen=3) or 'a'
    alpha = pick_alphabet(rng) + list(sep)
    n = rng.choice([0, 1, 2, 3, 4, 6])
    glue = [sep, sep, sep, sep + sep, sep[:-1] or sep, sep[1:] or sep, sep + sep[:1]]
    parts = [rand_str(rng, alpha, 4)]
    for _ in range(n):
        parts.append(rng.choice(glue))
        parts.append(rand_str(rng, alpha, 4))
    s = ''.join(parts)
    if rng.random() < 0.15:
        s = sep * rng.randint(1, 4)
    return s, sep


def rand_num(rng, n):
    """an index-like double around the length n, boundary- and garbage-biased"""
    k = rng.random()
    if k < 0.55:
        return float(rng.choice([0, 1, 2, 3, n - 1, n, n + 1, n // 2, -1, -2, -n, -n - 1, -n + 1, rng.randint(-n - 2, n + 2)]))
    if k < 0.7:
        return rng.choice([0.5, 1.5, -0.5, -1.5, n + 0.25, 1e-300, 5e-324, -5e-324, 0.9999999999999999, 2.0000000000000004])
    if k < 0.75:
        return -0.0
    return rng.choice([2.0 ** 31, 2.0 ** 31 - 1, 2.0 ** 32, 2.0 ** 32 + 1, 2.0 ** 53, 2.0 ** 53 + 2, 2.0 ** 63, 2.0 ** 64,
                       2.0 ** 64 + 4096, 2.0 ** 64 - 2048, 1e300, 1.7976931348623157e308,
                       -2.0 ** 31, -2.0 ** 32, -2.0 ** 53, -2.0 ** 63, -2.0 ** 64, -2.0 ** 64 - 4096, -1e300])


def wrong(rng, not_types):
    cands = [(None, 'null'), (True, 'bool'), (3.0, 'num'), ('aé', 'str'), ([], 'arr'), (['a'], 'arr'), (OBJ, 'obj'), (Fun(0), 'fun')]
    return rng.choice([v for v, t in cands if t not in not_types])


CHAR_NUMS = [0, 0x41, 0x7f, 0x80, 0xe9, 0x7ff, 0x800, 0xd7ff, 0xd800, 0xdbff, 0xdc00, 0xdfff, 0xe000, 0xfffd, 0xffff, 0x10000,
             0x1d11e, 0x10ffff, 0x110000, 2 ** 31, 2 ** 32 - 1, 2 ** 32, 2 ** 32 + 0x41, 2 ** 53, 2 ** 64]

FNS = ['length', 'index', 'sliceExpr', 'slice', 'substr', 'findSubstr', 'stringChars', 'codepoint', 'char', 'reverse',
       'split', 'splitLimit', 'splitLimitR', 'join', 'stripChars', 'lstripChars', 'rstripChars', 'strReplace', 'trim',
       'asciiUpper', 'asciiLower', 'startsWith', 'endsWith', 'map', 'flatMap']
WEIGHT = {'index': 3, 'sliceExpr': 3, 'slice': 2, 'substr': 3, 'findSubstr': 3, 'split': 3, 'splitLimit': 3, 'splitLimitR': 3,
          'stripChars': 2, 'strReplace': 2, 'join': 2}
# argument kinds per function, used for the wrong-type stream ('s' string, 'n' number, 'N' null-or-number, 'a' array, 'f' function,
# 'S' string-or-array)
SIG = {'length': 'S', 'index': 'Sn', 'sliceExpr': 'SNNN', 'slice': 'SNNN', 'substr': 'snn', 'findSubstr': 'ss', 'stringChars': 's',
       'codepoint': 's', 'char': 'n', 'reverse': 'S', 'split': 'ss', 'splitLimit': 'ssn', 'splitLimitR': 'ssn', 'join': 'Sa',
       'stripChars': 'ss', 'lstripChars': 'ss', 'rstripChars': 'ss', 'strReplace': 'sss', 'trim': 's', 'asciiUpper': 's',
       'asciiLower': 's', 'startsWith': 'ss', 'endsWith': 'ss', 'map': 'fS', 'flatMap': 'fS'}


def gen_case(rng):
    fn = rng.choice([f for f in FNS for _ in range(WEIGHT.get(f, 1))])
    s = rand_str(rng)
    n = len(s)
    if fn == 'length':
        args = [s if rng.random() < 0.9 else [rand_str(rng) for _ in range(rng.randint(0, 3))]]
    elif fn == 'index':
        args = [s, rand_num(rng, n)]
    elif fn in ('sliceExpr', 'slice'):
        def part(p_null):
            return None if rng.random() < p_null else rand_num(rng, n)
        step = None if rng.random() < 0.45 else rng.choice([1.0, 2.0, 3.0, float(max(1, n - 1)), float(n), float(n + 1), 0.0, -1.0, 1.5, 0.5,
                                                              2.0 ** 32, 2.0 ** 64, 2.0 ** 64 + 4096, 1e300])
        target = s if rng.random() < 0.9 else [rng.choice(['a', 'é', 1.0, None]) for _ in range(rng.randint(0, 5))]
        args = [target, part(0.25), part(0.25), step]
    elif fn == 'substr':
        args = [s, rand_num(rng, n), rand_num(rng, n)]
    elif fn == 'findSubstr':
        s, sep = str_with_seps(rng)
        k = rng.random()
        if k < 0.5:
            pat = sep
        elif k < 0.8 and s:
            i = rng.randrange(len(s)); pat = s[i:i + rng.randint(1, 3)]
        elif k < 0.9:
            pat = ''
        else:
            pat = rand_str(rng, maxlen=3)
        args = [pat, s]
    elif fn == 'stringChars':
        args = [s]
    elif fn == 'codepoint':
        alpha = pick_alphabet(rng)
        args = [''.join(rng.choice(alpha) for _ in range(rng.choice([1, 1, 1, 1, 0, 2, 3])))]
    elif fn == 'char':
        k = rng.random()
        if k < 0.6:
            x = float(rng.choice(CHAR_NUMS))
        elif k < 0.8:
            x = float(rng.randint(0, 0x110000))
        else:
            x = rng.choice([-1.0, -0.5, -0.0, 65.5, 65.99, 0x10ffff + 0.5, 55295.5, 1e300, -1e300, 0.5, 5e-324])
        args = [x]
    elif fn == 'reverse':
        args = [s if rng.random() < 0.85 else [rng.choice(['a', 'é日', 2.0, None]) for _ in range(rng.randint(0, 4))]]
    elif fn in ('split', 'splitLimit', 'splitLimitR'):
        s, sep = str_with_seps(rng)
        if rng.random() < 0.06:
            sep = ''
        args = [s, sep]
        if fn != 'split':
            cnt = len(s.split(sep)) - 1 if sep else 0
            k = rng.random()
            if k < 0.6:
                m = float(rng.choice([-1, 0, 1, 2, 3, cnt - 1, cnt, cnt + 1, max(0, cnt // 2)]))
            elif k < 0.75:
                m = rng.choice([-2.0, -1.5, 0.5, 1.5, -0.5, -0.0, -1e300, -2.0 ** 64])
            else:
                m = rng.choice([2.0 ** 31, 2.0 ** 32, 2.0 ** 53, 2.0 ** 63, 2.0 ** 64 - 2048, 2.0 ** 64, 2.0 ** 64 + 4096, 1e300])
            args.append(m)
    elif fn == 'join':
        if rng.random() < 0.8:
            s2, sep = str_with_seps(rng)
            items = [rand_str(rng, list(s2) or None, 4) if rng.random() < 0.85 else None for _ in range(rng.choice([0, 1, 2, 3, 5]))]
            if rng.random() < 0.08:
                items.insert(rng.randint(0, len(items)), rng.choice([1.0, True, ['a'], OBJ]))
            args = [sep if rng.random() < 0.9 else '', items]
        else:
            sep = [rng.choice(['é', 1.0, None]) for _ in range(rng.randint(0, 2))]
            items = [[rng.choice(['a', '\U0001d11e', 2.0]) for _ in range(rng.randint(0, 3))] if rng.random() < 0.85 else None
                     for _ in range(rng.choice([0, 1, 2, 4]))]
            if rng.random() < 0.1:
                items.insert(rng.randint(0, len(items)), rng.choice(['a', 1.0]))
            args = [sep, items]
    elif fn in ('stripChars', 'lstripChars', 'rstripChars'):
        alpha = pick_alphabet(rng)
        cs = ''.join(rng.choice(alpha) for _ in range(rng.choice([0, 1, 2, 2, 3])))
        core = rand_str(rng, alpha, 6)
        pre = ''.join(rng.choice(cs) for _ in range(rng.randint(0, 3))) if cs else ''
        post = ''.join(rng.choice(cs) for _ in range(rng.randint(0, 3))) if cs else ''
        args = [pre + core + post, cs]
    elif fn == 'trim':
        ws = ['\t', '\n', '\u000c', '\r', ' ', '\u0085', '\u00a0', '\u000b', '\u2003', '\u200b', '\ufeff', '\u001f', 'a', '\u00e9']
        pre = ''.join(rng.choice(ws) for _ in range(rng.randint(0, 3)))
        post = ''.join(rng.choice(ws) for _ in range(rng.randint(0, 3)))
        args = [pre + rand_str(rng, maxlen=5) + post]
    elif fn == 'strReplace':
        s, sep = str_with_seps(rng)
        frm = sep if rng.random() < 0.85 else ''
        to = rng.choice(['', sep, sep + sep, 'X', '\U0001d11e', sep[:1], rand_str(rng, maxlen=3)])
        args = [s, frm, to]
    elif fn in ('asciiUpper', 'asciiLower'):
        pool = ['a', 'z', 'A', 'Z', 'm', 'M', '`', '{', '@', '[', '\u00e9', '\u00c9', '\u00df', '\u03c9', '\u0131', '\u017f', '\u212a',
                '\uff41', '\U0001d11e', '1']
        args = [''.join(rng.choice(pool) for _ in range(rng.randint(0, 8)))]
    elif fn in ('startsWith', 'endsWith'):
        s, sep = str_with_seps(rng)
        k = rng.random()
        if k < 0.4 and s:
            m = rng.randint(0, len(s))
            b = s[:m] if fn == 'startsWith' else s[len(s) - m:]
        elif k < 0.6:
            b = sep
        elif k < 0.7:
            b = s + rng.choice(['a', 'é'])
        else:
            b = rand_str(rng, list(s) or None, 3)
        args = [s, b]
    elif fn in ('map', 'flatMap'):
        if rng.random() < 0.3:
            s = ''.join(rng.choice(['a', 'b', 'é', '\U0001d11e']) for _ in range(rng.randint(0, 6)))
        args = [Fun(rng.choice([0, 1, 2, 3, 4, 5, 6] if fn == 'map' else [0, 0, 1, 1, 4, 6, 6, 2, 3, 5])), s]
    # wrong-type stream
    if rng.random() < 0.07:
        i = rng.randrange(len(args))
        kind = SIG[fn][i]
        allowed = {'s': ['str'], 'n': ['num'], 'N': ['num', 'null'], 'a': ['arr'], 'f': ['fun'], 'S': ['str', 'arr']}[kind]
        if fn in ('length',):
            allowed = allowed + ['obj', 'fun']
        if fn == 'index' and i == 0:
            allowed = allowed + ['obj']
        if fn in ('map', 'flatMap') and i == 1:
            allowed = ['str', 'arr']
        args[i] = wrong(rng, allowed)
    return fn, args


# ---------------------------------------------------------------- code-point reference (oracle on the implementation alone)

USIZE_MAX = 2 ** 64 - 1


def is_int(x):
    return isinstance(x, float) and x == x and abs(x) != float('inf') and x == int(x)


def sat(x):
    """Rust `x as usize` for an integral double"""
    return 0 if x < 0 else min(int(x), USIZE_MAX)


def all_strs(args):
    return all(isinstance(a, str) for a in args)


def reference(fn, args):
    """what the property demands: ('ok', python value) | ('err',) | None when undetermined here"""
    try:
        if fn == 'length':
            a, = args
            if isinstance(a, (str, list)): return ('ok', float(len(a)))
            if isinstance(a, (Obj, Fun)): return None
            return ('err',)
        if fn == 'index':
            s, i = args
            if not isinstance(s, (str, list)): return None if isinstance(s, Obj) else ('err',)
            if not isinstance(i, float) or isinstance(i, bool): return ('err',)
            if not is_int(i) or i < 0 or i >= len(s): return ('err',)
            return ('ok', s[int(i)])
        if fn in ('sliceExpr', 'slice'):
            s, a, b, c = args
            if not isinstance(s, (str, list)): return ('err',)
            for x in (a, b, c):
                if x is not None and (not isinstance(x, float) or isinstance(x, bool)): return ('err',)
                if x is not None and not is_int(x): return ('err',)
            if c is not None and c < 1: return ('err',)
            r = s[(None if a is None else int(a)):(None if b is None else int(b)):(None if c is None else int(c))]
            return ('ok', r)
        if fn == 'substr':
            s, f, l = args
            if not isinstance(s, str): return ('err',)
            for x in (f, l):
                if not isinstance(x, float) or isinstance(x, bool) or not is_int(x) or x < 0: return ('err',)
            return ('ok', s[int(f):int(f) + int(l)])
        if fn == 'findSubstr':
            p, s = args
            if not all_strs(args): return ('err',)
            if p == '': return ('ok', [])
            return ('ok', [float(i) for i in range(len(s)) if s.startswith(p, i)])
        if fn == 'stringChars':
            s, = args
            return ('ok', list(s)) if isinstance(s, str) else ('err',)
        if fn == 'codepoint':
            s, = args
            if not isinstance(s, str) or len(s) != 1: return ('err',)
            return ('ok', float(ord(s)))
        if fn == 'char':
            x, = args
            if not isinstance(x, float) or isinstance(x, bool): return ('err',)
            if x != x or abs(x) == float('inf'): return ('err',)
            t = int(x)      # toward zero
            if t < 0 or t > 0x10ffff or 0xd800 <= t <= 0xdfff: return ('err',)
            return ('ok', chr(t))
        if fn == 'reverse':
            s, = args
            if isinstance(s, str): return ('ok', list(reversed(s)))
            if isinstance(s, list): return ('ok', list(reversed(s)))
            return ('err',)
        if fn in ('split', 'splitLimit', 'splitLimitR'):
            s, c = args[0], args[1]
            if not isinstance(s, str) or not isinstance(c, str): return ('err',)
            if fn != 'split':
                m = args[2]
                if not isinstance(m, float) or isinstance(m, bool): return ('err',)
            if c == '': return ('err',)
            if fn == 'split': return ('ok', s.split(c))
            if not is_int(m) or (m < 0 and m != -1): return ('err',)
            if m == -1: return ('ok', s.split(c))          # -1 = unlimited, left to right in both (as upstream)
            lim = min(int(m), len(s) + 1)
            return ('ok', s.split(c, lim) if fn == 'splitLimit' else s.rsplit(c, lim))
        if fn == 'join':
            sep, arr = args
            if not isinstance(arr, list): return ('err',)
            if isinstance(sep, str):
                items = [x for x in arr if x is not None]
                if not all(isinstance(x, str) for x in items): return ('err',)
                return ('ok', sep.join(items))
            if isinstance(sep, list):
                items = [x for x in arr if x is not None]
                if not all(isinstance(x, list) for x in items): return ('err',)
                out = []
                for k, it in enumerate(items):
                    if k: out += sep
                    out += it
                return ('ok', out)
            return ('err',)
        if fn in ('stripChars', 'lstripChars', 'rstripChars'):
            if not all_strs(args): return ('err',)
            s, cs = args
            if cs == '': return ('ok', s)
            return ('ok', {'stripChars': s.strip, 'lstripChars': s.lstrip, 'rstripChars': s.rstrip}[fn](cs))
        if fn == 'trim':
            s, = args
            if not isinstance(s, str): return ('err',)
            return ('ok', s.strip('\t\n\x0c\r \x85\xa0'))
        if fn == 'strReplace':
            if not all_strs(args): return ('err',)
            s, f, t = args
            return ('ok', s.replace(f, t))
        if fn in ('asciiUpper', 'asciiLower'):
            s, = args
            if not isinstance(s, str): return ('err',)
            if fn == 'asciiUpper':
                return ('ok', ''.join(chr(ord(c) - 32) if 'a' <= c <= 'z' else c for c in s))
            return ('ok', ''.join(chr(ord(c) + 32) if 'A' <= c <= 'Z' else c for c in s))
        if fn in ('startsWith', 'endsWith'):
            if not all_strs(args): return ('err',)
            a, b = args
            return ('ok', a.startswith(b) if fn == 'startsWith' else a.endswith(b))
        if fn == 'map':
            f, s = args
            if not isinstance(f, Fun): return ('err',)
            if isinstance(s, list): return None
            if not isinstance(s, str): return ('err',)
            return ('ok', [f.apply(c) for c in s])
        if fn == 'flatMap':
            f, s = args
            if not isinstance(f, Fun): return ('err',)
            if isinstance(s, list): return None
            if not isinstance(s, str): return ('err',)
            parts = [f.apply(c) for c in s]
            if not all(p is None or isinstance(p, str) for p in parts): return ('err',)
            return ('ok', ''.join(p for p in parts if p is not None))
    except OverflowError:
        return None
    return None


def py_canon(v):
    if isinstance(v, Obj): return 'o'
    if isinstance(v, list): return 'a(' + ';'.join(py_canon(x) for x in v) + ')'
    return wire(v)


def identity_oracle(fn, args, got):
    """the defining identities of the property, checked on the implementation's own answer `got`
    (a parsed JSON value of a successful call).  Returns (key, text) or None."""
    if fn in ('split', 'splitLimit', 'splitLimitR') and all_strs(args[:2]) and isinstance(got, list):
        s, c = args[0], args[1]
        if not all(isinstance(p, str) for p in got) or not got:
            return ('split-shape', 'split result is not a non-empty array of strings')
        if c.join(got) != s:
            return ('join-split-identity', 'std.join(c, std.%s(s, c, ..)) != s' % fn)
        full = len(s.split(c)) if c else 1
        if fn == 'split':
            if any(c in p for p in got):
                return ('split-sep-inside-piece', 'a piece of std.split(s, c) still contains c')
        else:
            m = args[2]
            n = full if (m == -1 or m >= full) else int(m) + 1
            if len(got) != n:
                return ('splitLimit-piece-count', 'std.%s gives %d pieces, expected %d' % (fn, len(got), n))
            closed = got[:-1] if fn == 'splitLimit' else got[1:]
            if any(c in p for p in closed):
                return ('splitLimit-sep-inside-piece', 'std.%s: a delimited piece contains the separator' % fn)
    if fn == 'findSubstr' and all_strs(args) and isinstance(got, list):
        p, s = args
        if got != sorted(set(got)):
            return ('findSubstr-order', 'findSubstr positions not strictly increasing')
        for i in got:
            if not (isinstance(i, (int, float)) and i == int(i) and s[int(i):int(i) + len(p)] == p and p):
                return ('findSubstr-unsound', 'findSubstr reports %r which is not a match position' % (i,))
        if p and len(got) != sum(1 for i in range(len(s)) if s.startswith(p, i)):
            return ('findSubstr-incomplete', 'findSubstr misses a match position')
    if fn in ('stripChars', 'lstripChars', 'rstripChars') and all_strs(args) and isinstance(got, str):
        s, cs = args
        k = s.find(got) if got else -2
        if got and k < 0:
            return ('strip-not-infix', 'strip result is not an infix of the input')
        if fn != 'rstripChars' and got and got[0] in cs:
            return ('strip-not-maximal', 'a listed character remains at the stripped start')
        if fn != 'lstripChars' and got and got[-1] in cs:
            return ('strip-not-maximal', 'a listed character remains at the stripped end')
    if fn == 'length' and isinstance(args[0], str) and got != len(args[0]):
        return ('length-not-codepoints', 'std.length(%r) = %r, the literal has %d code points (%d UTF-8 bytes, %d UTF-16 units)'
                % (args[0], got, len(args[0]), len(args[0].encode()), len(args[0].encode('utf-16-le')) // 2))
    return None


KEYS = {'length': 'length-not-codepoints', 'index': 'index-not-codepoint', 'sliceExpr': 'slice-not-codepoints',
        'slice': 'slice-not-codepoints', 'substr': 'substr-not-codepoints', 'findSubstr': 'findSubstr-positions',
        'stringChars': 'stringChars-not-codepoints', 'codepoint': 'codepoint-value', 'char': 'char-value',
        'reverse': 'reverse-not-codepoints', 'split': 'split-pieces', 'splitLimit': 'splitLimit-pieces',
        'splitLimitR': 'splitLimitR-pieces', 'join': 'join-value', 'stripChars': 'strip-not-maximal',
        'lstripChars': 'strip-not-maximal', 'rstripChars': 'strip-not-maximal', 'strReplace': 'strReplace-value',
        'trim': 'trim-value', 'asciiUpper': 'asciiCase-value', 'asciiLower': 'asciiCase-value',
        'startsWith': 'startsEndsWith-value', 'endsWith': 'startsEndsWith-value', 'map': 'map-over-string',
        'flatMap': 'flatMap-over-string'}


def str_class(args):
    txt = ''.join(a for a in args if isinstance(a, str)) + ''.join(x for a in args if isinstance(a, list) for x in a if isinstance(x, str))
    if not txt: return 'nostr'
    m = max(len(c.encode()) for c in txt)
    return {1: 'ascii', 2: 'upto2byte', 3: 'upto3byte', 4: 'upto4byte'}[m]


# ---------------------------------------------------------------- compound identity programs (implementation alone)

def gen_identity(rng):
    """(name, program text, description) — each program must evaluate to true"""
    k = rng.choice(['joinsplit', 'findsub', 'revrev', 'charcp', 'len', 'substr_slice', 'limit', 'limitR', 'strip', 'chars'])
    s, c = str_with_seps(rng)
    L = lambda x: lit_str(x, rng)
    if k == 'joinsplit':
        return k, 'local s = %s, c = %s; std.join(c, std.split(s, c)) == s' % (L(s), L(c))
    if k == 'findsub':
        return k, ('local s = %s, p = %s, r = std.findSubstr(p, s), n = std.length(s), m = std.length(p); '
                   'std.all([std.substr(s, i, m) == p for i in r]) && '
                   'r == [i for i in std.range(0, n - 1) if std.substr(s, i, m) == p]') % (L(s), L(c))
    if k == 'revrev':
        return k, 'local s = %s; std.reverse(std.reverse(s)) == std.stringChars(s) && std.join("", std.reverse(std.reverse(s))) == s' % L(s)
    if k == 'charcp':
        ch = rng.choice(list(s) or ['\U0001d11e'])
        return k, 'local c = %s; std.char(std.codepoint(c)) == c && std.length(c) == 1' % L(ch)
    if k == 'len':
        return k, 'local s = %s; std.length(s) == %d && std.length(std.stringChars(s)) == %d && std.length(std.map(function(x) x, s)) == %d' % (L(s), len(s), len(s), len(s))
    if k == 'substr_slice':
        a = rng.randint(0, len(s) + 1); l = rng.randint(0, len(s) + 1)
        return k, 'local s = %s; std.substr(s, %d, %d) == s[%d:%d] && std.substr(s, %d, %d) == std.slice(s, %d, %d, 1)' % (L(s), a, l, a, a + l, a, l, a, a + l)
    if k in ('limit', 'limitR'):
        n = rng.randint(0, 4)
        f = 'splitLimit' if k == 'limit' else 'splitLimitR'
        tail = ('r[:std.length(r) - 1] == full[:std.length(r) - 1]' if k == 'limit'
                else 'std.all([std.length(std.findSubstr(c, x)) == 0 for x in r[1:]])')
        return k, ('local s = %s, c = %s, n = %d, r = std.%s(s, c, n), full = std.split(s, c); '
                   'std.join(c, r) == s && std.length(r) == std.min(n, std.length(full) - 1) + 1 && %s') % (L(s), L(c), n, f, tail)
    if k == 'strip':
        cs = c + rng.choice(['', 'a', '\u00e9'])
        return k, ('local s = %s, cs = %s, r = std.stripChars(s, cs), isin(x) = std.length(std.findSubstr(x, cs)) > 0; '
                   'std.lstripChars(std.rstripChars(s, cs), cs) == r && '
                   '(r == "" || (!isin(r[0]) && !isin(r[std.length(r) - 1]) && std.length(std.findSubstr(r, s)) > 0)) && '
                   'std.all([isin(x) for x in std.stringChars(std.substr(s, 0, std.length(s) - std.length(std.lstripChars(s, cs))))])') % (L(s), L(cs))
    if k == 'chars':
        return k, 'local s = %s; std.join("", std.stringChars(s)) == s && [s[i] for i in std.range(0, std.length(s) - 1)] == std.stringChars(s) && std.flatMap(function(x) x, s) == s' % L(s)
    raise AssertionError(k)


# ---------------------------------------------------------------- running

def run_cases(run, cases, impl_exe, model_exe, label):
    """cases: list of (cid, fn, args, program_text)"""
    impl_lines = ['%s\teval\t\t%s' % (cid, hxl(list(src.encode('utf-8')))) for cid, fn, args, src in cases]
    model_lines = ['\t'.join([cid, fn] + [wire(a) for a in args]) for cid, fn, args, src in cases]
    impl = vlib.run_sharded(impl_exe, impl_lines, timeout=300)
    model = vlib.run_sharded(model_exe, model_lines, timeout=300)
    for cid, fn, args, src in cases:
        run.evaluations += 1
        ir, mr = impl.get(cid, 'NOOUTPUT'), model.get(cid, 'NOOUTPUT')
        replay = {'kind': 'call', 'fn': fn, 'args': [wire(a) for a in args], 'program': src, 'impl': ir[:400], 'model': mr[:400]}
        pi = parse_impl(ir)
        run.count(label)
        run.count('fn_' + fn)
        run.count('alphabet_' + str_class(args))
        if pi[0] == 'BAD':
            run.count('outcome_bad')
            run.violation('strfns-crash:' + fn, 'implementation answered %s for %s' % (pi[1], src), replay)
            continue
        run.count('outcome_' + ('ok' if pi[0] == 'OK' else 'err_' + pi[1].split(':')[0]))
        # --- oracle on the implementation alone
        fired = False
        ref = reference(fn, args)
        if pi[0] == 'OK':
            why = identity_oracle(fn, args, pi[1])
            if why:
                run.violation(why[0], '%s: %s  [program %s -> %s]' % (fn, why[1], src, json.dumps(pi[1])[:200]), replay)
                fired = True
        if not fired and ref is not None:
            if ref[0] == 'err' and pi[0] == 'OK':
                run.violation('error-expected:' + fn, '%s must be an error, the implementation returns %s' % (src, json.dumps(pi[1])[:200]), replay)
                fired = True
            elif ref[0] == 'ok' and pi[0] == 'ERR':
                run.violation('value-expected:' + fn, '%s must have a value, the implementation fails with %s' % (src, pi[1]), replay)
                fired = True
            elif ref[0] == 'ok' and pi[2] != py_canon(ref[1]):
                run.violation(KEYS[fn], '%s: code-point semantics give %s, the implementation returns %s  [program %s]'
                              % (fn, json.dumps(ref[1], default=str)[:200], json.dumps(pi[1])[:200], src), replay)
                fired = True
        # --- correspondence
        mf = mr.split('\t')
        if mf[0] in ('MODELEXC', 'NOOUTPUT', 'TIMEOUT', 'CRASH', 'OUTOFFUEL', 'PANIC') or (mf[0] == 'ERR' and mf[1] == 'NOTMODELLED'):
            if mf[0] == 'ERR':
                run.count('model_not_modelled')
            else:
                run.violation('strfns-model-machinery', 'model driver answered %s on %s' % (mr[:100], src), replay, concrete=False)
            continue
        agree = (pi[0] == 'OK' and mf[0] == 'OK' and pi[2] == mf[1]) or (pi[0] == 'ERR' and mf[0] == 'ERR' and pi[1] == mf[1])
        if not agree and not fired:
            # the model provably meets the identities; the oracle above did not decide this input
            run.violation('strfns-correspondence:' + fn, 'correspondence strfns/%s: implementation %s / model %s on %s'
                          % (fn, (pi[2] if pi[0] == 'OK' else pi[1])[:120], '\t'.join(mf[:2])[:120], src), replay, concrete=False)
        if pi[0] == 'OK' and str_class(args) not in ('ascii', 'nostr'):
            run.nontrivial.add((fn, tuple(wire(a) for a in args)))
        if len(run.samples) < 6 and str_class(args) == 'upto4byte' and pi[0] == 'OK':
            run.samples.append({'program': src, 'implementation': ir[:200], 'model': mr[:200]})


def run_identities(run, progs, impl_exe):
    lines = ['%s\teval\t\t%s' % (cid, hxl(list(src.encode('utf-8')))) for cid, name, src in progs]
    impl = vlib.run_sharded(impl_exe, lines, timeout=300)
    for cid, name, src in progs:
        run.evaluations += 1
        run.count('identity_' + name)
        r = impl.get(cid, 'NOOUTPUT')
        pi = parse_impl(r)
        if pi[0] == 'OK' and pi[1] is True:
            continue
        run.violation('identity:' + name, 'identity program does not evaluate to true (%s): %s' % (r[:100], src),
                      {'kind': 'identity', 'name': name, 'program': src})


# ---------------------------------------------------------------- format field widths (implementation alone; theorem owned by C19)

def gen_format(rng):
    """(form, program text, expected python str): %Ns / %-Ns / %Nc / %(k)Ns / %*s with widths around the
    code-point, UTF-16 and UTF-8 lengths of the argument"""
    form = rng.choice(['s', 's', '-s', 'c', '-c', 'ks', '-ks', '*s', '-*s'])
    if 'c' in form:
        s = rng.choice(TWO + THREE + FOUR + ['a', 'Z'])
    else:
        s = rand_str(rng, maxlen=6)
        if rng.random() < 0.4:
            s = ''.join(rng.choice(TWO + THREE + FOUR) for _ in range(rng.randint(1, 4)))
    ncp, n16, n8 = len(s), len(s.encode('utf-16-le')) // 2, len(s.encode('utf-8'))
    w = max(1, rng.choice([ncp, ncp + 1, ncp + 2, n16, n16 + 1, n16 - 1, n8, n8 + 1, n8 - 1, ncp - 1, 2 * n8, rng.randint(1, 12)]))
    left = form.startswith('-')
    exp = s.ljust(w) if left else s.rjust(w)
    minus = '-' if left else ''
    kind = form.lstrip('-')
    if kind == 's':
        src = '"%%%s%ds" %% %s' % (minus, w, lit_str(s, rng))
        if rng.random() < 0.3:
            src = 'std.format("%%%s%ds", [%s])' % (minus, w, lit_str(s, rng))
    elif kind == 'c':
        arg = str(ord(s)) if rng.random() < 0.6 else lit_str(s, rng)
        src = '"%%%s%dc" %% %s' % (minus, w, arg)
    elif kind == 'ks':
        src = '"%%(k)%s%ds" %% {k: %s}' % (minus, w, lit_str(s, rng))
    else:
        src = '"%%%s*s" %% [%d, %s]' % (minus, w, lit_str(s, rng))
    return form, src, exp


def run_formats(run, progs, impl_exe):
    """progs: (cid, form, program, expected)"""
    lines = ['%s\teval\tstr=1\t%s' % (cid, hxl(list(src.encode('utf-8')))) for cid, form, src, exp in progs]
    impl = vlib.run_sharded(impl_exe, lines, timeout=300)
    for cid, form, src, exp in progs:
        run.evaluations += 1
        run.count('format_' + form)
        r = impl.get(cid, 'NOOUTPUT')
        f = r.split('\t')
        replay = {'kind': 'format', 'form': form, 'program': src, 'expected': vlib.cps(exp), 'impl': r[:300]}
        if f[0] != 'OK':
            run.violation('format-width-crash', 'field-width program fails: %s -> %s' % (src, r[:120]), replay)
            continue
        got = vlib.uncps(f[1])
        if got != exp:
            core = exp.strip(' ') if exp.strip(' ') else exp
            run.violation('format-width-not-code-points',
                          'field width must count code points: %s gives %r (%d code points), expected %r (%d code points, '
                          'argument has %d code points / %d UTF-16 units / %d UTF-8 bytes)'
                          % (src, got, len(got), exp, len(exp), len(core), len(core.encode('utf-16-le')) // 2, len(core.encode('utf-8'))), replay)
        elif any(ord(ch) > 0x7f for ch in exp) and exp != exp.strip(' '):
            run.nontrivial.add(('format', src))



def corpus_cases():
    out = []
    path = os.path.join(vlib.VERIF, 'corpus', 'c18_calls.txt')
    if os.path.exists(path):
        for i, l in enumerate(open(path, encoding='utf-8')):
            l = l.rstrip('\n')
            if not l or l.startswith('#'):
                continue
            f = l.split('\t')
            out.append((f[0], [unwire(a) for a in f[1:]]))
    return out


def unwire(w):
    """model wire syntax -> python value"""
    pos = [0]

    def tok():
        st = pos[0]
        while pos[0] < len(w) and w[pos[0]] in '0123456789abcdef,':
            pos[0] += 1
        return w[st:pos[0]]

    def val():
        c = w[pos[0]]; pos[0] += 1
        if c == 'n': return None
        if c == 't': return True
        if c == 'f': return False
        if c == 'o': return OBJ
        if c == 'd': return struct.unpack('<d', struct.pack('<Q', int(tok(), 16)))[0]
        if c == 's': return vlib.uncps(tok())
        if c == 'F': return Fun(int(tok(), 16))
        if c == 'a':
            assert w[pos[0]] == '('; pos[0] += 1
            items = []
            if w[pos[0]] == ')':
                pos[0] += 1; return items
            items.append(val())
            while w[pos[0]] == ';':
                pos[0] += 1; items.append(val())
            assert w[pos[0]] == ')'; pos[0] += 1
            return items
        raise ValueError(w)
    v = val()
    assert pos[0] == len(w), w
    return v


def check(run):
    rng = vlib.rng_for(run.seed, ID)
    run.rule = ('calls: one of 25 string builtins / s[i] / s[a:b:c] applied to generated arguments: strings over per-case sub-alphabets '
                'drawn from ASCII, 2-byte (incl. a combining mark, NBSP, NEL), 3-byte and 4-byte characters (plus quotes, backslash, '
                'NUL, ESC in a quarter of the cases), strings assembled from separators that are prefixes/overlaps of each other '
                '("a","aa","ab","aba", "éé", "a"+combining ...); index/length/limit doubles around 0, +-len, fractional, -0, '
                '2^31, 2^32, 2^53, 2^63, 2^64, 2^64+4096, 1e300; ~7% wrong-type arguments.  non-trivial = distinct (function, arguments) '
                'with a successful result and at least one non-ASCII character in a string argument.  identities: compound programs '
                '(join/split, findSubstr/substr, reverse/reverse, char/codepoint, length, substr/slice, splitLimit(R), strip, stringChars'
                ') that must evaluate to true on the implementation.  format: %Ns, %-Ns, %Nc, %(k)Ns, %*s with widths around the '
                'code-point / UTF-16 / UTF-8 lengths of the argument: the result must be the argument padded with spaces to max(N, code points) '
                '(theorem: C19_pad_reaches_width, owned by C19).')
    run.assume = ["Rust std str::find/split/splitn/rsplitn/replace/trim_matches/strip_prefix/strip_suffix/starts_with/ends_with/"
                  "to_ascii_uppercase/chars behave as documented (specified on code points in Model/StrFns.v; modelled, not verified)",
                  'a byte-level substring match between two well-formed UTF-8 strings is a code-point-level match (self-synchronisation)',
                  'the Jsonnet literal written by the generator (shortest round-trip decimal, \\u escapes) denotes the intended double / string '
                  '(lexer and number parsing belong to C14/C06)',
                  'Python str operations (code-point based) as the reference of the violation search']
    pres = vlib.prove(ID, THEOREMS, ALLOWED_AXIOMS)
    run.add_proof(pres, THEOREMS)
    impl_exe = vlib.build_harness()
    model_exe = vlib.build_model('strfns')
    n = 6000 if run.tier == "quick" else 80000
    nid = 1500 if run.tier == "quick" else 15000
    cases = []
    for i, (fn, args) in enumerate(corpus_cases()):
        cases.append(('k%d' % i, fn, args, program(fn, args, rng)))
    for i in range(n):
        fn, args = gen_case(rng)
        cases.append(('g%d' % i, fn, args, program(fn, args, rng)))
    chunk = 20000
    for st in range(0, len(cases), chunk):
        run_cases(run, cases[st:st + chunk], impl_exe, model_exe, 'calls')
    progs = []
    for i in range(nid):
        name, src = gen_identity(rng)
        progs.append(('i%d' % i, name, src))
    run_identities(run, progs, impl_exe)
    nf = 1200 if run.tier == "quick" else 12000
    fprogs = [('f0', 's', '"%4s" % "\u00e9\u00e9"', '  \u00e9\u00e9'), ('f1', 's', '"%3s" % "\u20ac"', '  \u20ac'),
              ('f2', '-s', '"%-6s" % "\U0001f60e\U0001f60e"', '\U0001f60e\U0001f60e    '), ('f3', 'c', '"%3c" % 128526', '  \U0001f60e'),
              ('f4', 'ks', '"%(k)2s" % {k: "\u044f"}', ' \u044f'), ('f5', '*s', '"%*s" % [3, "\u00e9"]', '  \u00e9')]
    for i in range(nf):
        form, src, exp = gen_format(rng)
        fprogs.append(('fg%d' % i, form, src, exp))
    run_formats(run, fprogs, impl_exe)


def replay(run, path):
    j = json.load(open(path))
    r = j.get('replay', {})
    impl_exe = vlib.build_harness()
    if isinstance(r, dict) and r.get('kind') == 'call':
        model_exe = vlib.build_model('strfns')
        args = [unwire(a) for a in r['args']]
        run_cases(run, [('r0', r['fn'], args, r['program'])], impl_exe, model_exe, 'replay')
    elif isinstance(r, dict) and r.get('kind') == 'identity':
        run_identities(run, [('r0', r['name'], r['program'])], impl_exe)
    elif isinstance(r, dict) and r.get('kind') == 'format':
        run_formats(run, [('r0', r['form'], r['program'], vlib.uncps(r['expected']))], impl_exe)
    else:
        print('replay file names a broken obligation, not an input:', json.dumps(j.get('no_longer_checks', j), indent=1)[:2000])
        pres = vlib.prove(ID, THEOREMS, ALLOWED_AXIOMS)
        run.add_proof(pres, THEOREMS)
    for v in run.violations:
        print('REPRODUCED:', v['what'])
    if not run.violations and not run.failed_obligations:
        print('not reproduced')
    return 1 if (run.violations or run.failed_obligations) else 0
