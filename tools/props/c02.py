"""C02 — the core language evaluates as the Jsonnet specification defines.

Proof:  Props/C02.v over Model/RefCore.v (desugaring), RefValue.v, RefEval.v (reference interpreter
        written from the specification: call-by-name, environments, object layer lists).
K:      end to end on source text: the implementation (`eval`: load_source -> eval_value ->
        manifest_json) against the extracted interpreter fed with the AST dump of the same text
        (`front parse`).  JSON values are compared structurally with numbers as bit patterns; errors
        by variant name (+ user message for error / assert).
Anchor: every ui-tests/pass program the model supports must reproduce its blessed output.
Search: oracle on the implementation alone — the specification's desugaring laws as program
        rewrites (e1 != e2 / !(e1 == e2), e {..} / e + {..}, if-without-else, local f(x) / function,
        value-preserving wrappers): both texts must have the same outcome.
"""
import os, sys, re, json, struct, glob, resource
import vlib
from vlib import hxl, cps, uncps
sys.path.insert(0, os.path.dirname(os.path.dirname(os.path.abspath(__file__))))
import gen_prog

ID = 'C02'
COMPONENTS = ['refsem']
THEOREMS = ['C02_refsem_deterministic', 'C02_fuel_monotone', 'C02_limit_monotone', 'C02_evaluates_functional',
            'C02_ne_desugars', 'C02_objext_desugars', 'C02_if_no_else_desugars', 'C02_local_function_desugars',
            'C02_field_function_desugars', 'C02_paren_transparent', 'C02_dollar_is_outermost_self', 'C02_desugar_eq_run',
            'C02_ne_is_not_eq', 'C02_assert_is_if_error', 'C02_assert_true_transparent', 'C02_if_true', 'C02_if_false',
            'C02_error_message_string', 'C02_error_message', 'C02_assert_message', 'C02_assert_no_message',
            'C02_defaults_see_all_params', 'C02_named_positional_disjoint', 'C02_nonvacuous',
            'C02_core_no_static_error', 'C02_static_ok_closed', 'C02_refeval_no_static_error', 'C02_static_nonvacuous',
            'C02_plus_assoc', 'C02_plus_empty_l', 'C02_plus_empty_r', 'C02_override_wins', 'C02_inherited_field',
            'C02_self_field_is_top_lookup', 'C02_self_is_final', 'C02_rw_array_proj', 'C02_rw_identity', 'C02_rw_local_name',
            'C02_laws_nonvacuous', 'C02_builtin_sim', 'C02_dead_local_core', 'C02_dead_local_irrelevant',
            'C02_extra_frame_invisible', 'C02_rw_local_name_bare', 'C02_rw_local_name_source',
            'C02_depth_shift', 'C02_rw_local_name_full']
ALLOWED_AXIOMS = set()
TRANSLATORS = []

STACK = 200
FUEL = 4000
KNOWN_DEVIATIONS = {
    (1, 0): 'comprehension-specs-evaluated-level-by-level',
    (0, 1): 'tailstrict-ignored-outside-tail-position',
    (1, 1): 'comprehension-level-order+tailstrict-outside-tail',
}
LIMIT_CLASS = ('StackOverflow', 'InfiniteRecursion')


# ---------------------------------------------------------------- canonical forms

def f64_bits(x):
    return struct.unpack('<Q', struct.pack('<d', x))[0]


def canon_json_text(text):
    """implementation JSON text -> canonical tree (numbers as bit patterns, objects as ordered pairs)"""
    def num(s):
        return ('n', f64_bits(float(s)))
    def pairs(ps):
        return ('o', tuple((k, v) for k, v in ps))
    def conv(v):
        if isinstance(v, list):
            return ('a', tuple(conv(x) for x in v))
        if isinstance(v, str):
            return ('s', v)
        if isinstance(v, tuple) and v and v[0] == 'o':
            return ('o', tuple((k, conv(x)) for k, x in v[1]))
        return v
    v = json.loads(text, parse_float=num, parse_int=num, object_pairs_hook=pairs)
    return conv(v)


def parse_model_json(w):
    toks = w.split(' ')
    pos = [0]

    def val():
        t = toks[pos[0]]
        pos[0] += 1
        if t == 'N':
            return None
        if t == 'T':
            return True
        if t == 'F':
            return False
        if t == 'FUNC':
            return ('func',)
        if t[0] == '#':
            return ('n', int(t[1:], 16))
        if t[0] == '"':
            return ('s', uncps(t[1:]))
        if t == '[':
            items = []
            while toks[pos[0]] != ']':
                items.append(val())
            pos[0] += 1
            return ('a', tuple(items))
        if t == '{':
            fs = []
            while toks[pos[0]] != '}':
                k = toks[pos[0]]
                pos[0] += 1
                fs.append((uncps(k[1:]), val()))
            pos[0] += 1
            return ('o', tuple(fs))
        raise ValueError('bad model json token ' + t)
    return val()


def trace_set(field):
    body = field[2:] if field.startswith('T=') else field
    return frozenset(x for x in body.split('/')) if body else frozenset()


def canon_impl(r):
    """-> (class, payload...) ; class in value | error | static | machinery"""
    f = r.split('\t')
    if f[0] == 'OK':
        try:
            return ('value', canon_json_text(uncps(f[1])), trace_set(f[2]))
        except Exception as e:
            return ('machinery', 'unparsable JSON output: %s' % e)
    if f[0] == 'ERR':
        if f[1] in ('LEX', 'PARSE', 'ANALYZE'):
            return ('static', f[1], f[2])
        msg = None
        if f[2] in ('ExplicitError', 'AssertFailed'):
            msg = None if f[3] == '-' else uncps(f[3])
            if f[2] == 'ExplicitError' and f[3] == '-':
                msg = ''
        tr = trace_set(f[5]) if len(f) > 5 else frozenset()
        return ('error', f[2], msg, tr)
    return ('machinery', r[:200])


def canon_model(r):
    f = r.split('\t')
    if f[0] == 'OK':
        return ('value', parse_model_json(f[1]), trace_set(f[2]))
    if f[0] == 'ERR':
        msg = None
        if f[1] in ('ExplicitError', 'AssertFailed'):
            msg = None if f[2] == '-' else uncps(f[2])
        return ('error', f[1], msg, trace_set(f[3]) if len(f) > 3 else frozenset())
    if f[0] == 'STATIC':
        return ('static', 'ANALYZE', f[1])
    if f[0] == 'UNSUPPORTED':
        return ('unsupported', uncps(f[1]) if len(f) > 1 else '')
    if f[0] == 'FUEL':
        return ('fuel',)
    return ('machinery', r[:200])


def same_outcome(a, b, traces=True):
    """a, b canonical outcomes of class value/error"""
    if a[0] != b[0]:
        return False
    if a[0] == 'value':
        return a[1] == b[1] and (not traces or a[2] == b[2])
    if a[0] == 'error':
        if a[1] in LIMIT_CLASS and b[1] in LIMIT_CLASS:
            return True
        return a[1] == b[1] and a[2] == b[2] and (not traces or a[3] == b[3])
    return a == b


def short(c):
    if c[0] == 'value':
        return 'value'
    if c[0] == 'error':
        return c[1]
    return c[0]


def describe(c):
    if c[0] == 'value':
        return 'value %s traces=%s' % (render(c[1])[:200], sorted(c[2]))
    if c[0] == 'error':
        return 'error %s%s' % (c[1], '' if c[2] is None else ' message=%r' % c[2])
    return ' '.join(str(x) for x in c)


def render(v):
    if v is None:
        return 'null'
    if v is True:
        return 'true'
    if v is False:
        return 'false'
    if v[0] == 'n':
        return repr(struct.unpack('<d', struct.pack('<Q', v[1]))[0])
    if v[0] == 's':
        return json.dumps(v[1], ensure_ascii=False)
    if v[0] == 'a':
        return '[' + ', '.join(render(x) for x in v[1]) + ']'
    if v[0] == 'o':
        return '{' + ', '.join(json.dumps(k, ensure_ascii=False) + ': ' + render(x) for k, x in v[1]) + '}'
    return str(v)


# ---------------------------------------------------------------- running

class Sides:
    def __init__(self):
        self.impl = vlib.build_harness()
        self.model = vlib.build_model('refsem')
        try:
            resource.setrlimit(resource.RLIMIT_STACK, (resource.RLIM_INFINITY, resource.RLIM_INFINITY))
        except Exception:
            try:
                soft, hard = resource.getrlimit(resource.RLIMIT_STACK)
                resource.setrlimit(resource.RLIMIT_STACK, (hard, hard))
            except Exception:
                pass

    def run_impl(self, texts, stack=STACK):
        self.tokens = {}
        lines = []
        for i, t in enumerate(texts):
            h = hxl(list(t.encode('utf-8')))
            lines.append('e%d\teval\tstack=%x\t%s' % (i, stack, h))
            lines.append('p%d\tfront\tparse\t%s' % (i, h))
        res = vlib.run_sharded(self.impl, lines, timeout=300)
        out = []
        for i in range(len(texts)):
            ev = res.get('e%d' % i, 'NOOUTPUT')
            pa = res.get('p%d' % i, 'NOOUTPUT').split('\t')
            ast = pa[2] if pa[0] == 'OK' and len(pa) > 2 else None
            self.tokens[texts[i]] = pa[1] if pa[0] == 'OK' and len(pa) > 2 else None
            out.append((ev, ast))
        return out

    def run_model(self, asts, fuel=FUEL, limit=STACK, bfs=0, tst=0, timeout=300):
        lines = ['m%d\tfuel=%x;limit=%x;bfs=%d;tst=%d\t%s' % (i, fuel, limit, bfs, tst, a) for i, a in enumerate(asts)]
        res = vlib.run_sharded(self.model, lines, timeout=timeout)
        return [res.get('m%d' % i, 'NOOUTPUT') for i in range(len(asts))]

    def model_decided(self, ast, first, impl_c):
        """escalate fuel / limit until the model gives a verdict; returns canonical outcome or ('undecided', why)"""
        c = canon_model(first)
        fuel, limit = FUEL, STACK
        for _ in range(2):
            if c[0] == 'fuel':
                fuel *= 8
            elif c[0] == 'error' and c[1] == 'StackOverflow' and not (impl_c[0] == 'error' and impl_c[1] in LIMIT_CLASS):
                limit *= 8
                fuel *= 8
            else:
                return c
            c = canon_model(self.run_model([ast], fuel=fuel, limit=limit, timeout=120)[0])
        if c[0] == 'fuel':
            return ('undecided', 'fuel')
        if c[0] == 'error' and c[1] == 'StackOverflow' and not (impl_c[0] == 'error' and impl_c[1] in LIMIT_CLASS):
            return ('undecided', 'limit')
        return c


OPS = set('Add Sub Mul Div Rem Shl Shr Lt Le Gt Ge Eq Ne In BitwiseAnd BitwiseOr BitwiseXor LogicAnd LogicOr Minus Plus BitwiseNot LogicNot Default Hidden ForceVisible'.split())


def count_ast(run, ast):
    """histogram of the AST constructors / operators / visibilities the parser produced (from the AST dump)"""
    for name in re.findall(r'\((\w+)[ )]', ast):
        run.count('ast_' + name)
    for w in re.findall(r' (\w+)(?= )', ast):
        if w in OPS:
            run.count('ast_op_' + w)
    for m in re.finditer(r'\(FValue \(Fn\w+ [^()]*(?:\([^()]*\))?[^()]*\) ([01]) (\w+) ', ast):
        run.count('ast_field_sep_%s%s' % ('+' if m.group(1) == '1' else '', {'Default': ':', 'Hidden': '::', 'ForceVisible': ':::'}.get(m.group(2), m.group(2))))
    for m in re.finditer(r'\(Slice \S+ ', ast):
        pass


def sexp(text):
    toks = text.replace('(', ' ( ').replace(')', ' ) ').split()
    pos = [0]

    def rd():
        t = toks[pos[0]]
        pos[0] += 1
        if t == '(':
            l = []
            while toks[pos[0]] != ')':
                l.append(rd())
            pos[0] += 1
            return l
        return t
    return rd()


def field_separators(ast_text):
    """(plus, visibility) of every object field of the AST, as a sorted list of separator spellings"""
    vis = {'Default': ':', 'Hidden': '::', 'ForceVisible': ':::'}
    out = []

    def walk(n):
        if not isinstance(n, list) or not n:
            return
        if n[0] == 'FValue':
            out.append(('+' if n[2] == '1' else '') + vis[n[3]])
        elif n[0] == 'FFunc':
            out.append(vis[n[4]])
        elif n[0] == 'Comp':
            out.append(('+' if n[3] == '1' else '') + ':')
        for c in n[1:]:
            walk(c)
    walk(sexp(ast_text))
    return out


SEP_TOKENS = {'PlusColon': '+:', 'PlusColonColon': '+::', 'PlusColonColonColon': '+:::', 'ColonColonColon': ':::'}


def separator_oracle(run, text, tokens, ast):
    """oracle on the implementation alone: each unambiguous field-separator token of the token stream
    (+: +:: +::: :::) is one object field of the AST with exactly that plus flag and visibility"""
    got = {}
    for sp in field_separators(ast):
        got[sp] = got.get(sp, 0) + 1
    want = {}
    for name in re.findall(r'\(S (\w+) ', tokens):
        if name in SEP_TOKENS:
            want[SEP_TOKENS[name]] = want.get(SEP_TOKENS[name], 0) + 1
    for sp in SEP_TOKENS.values():
        if want.get(sp, 0) != got.get(sp, 0):
            run.violation('parser-field-separator:' + sp,
                          'the token stream has %d `%s` separators but the AST has %d fields with that plus flag / visibility: %r'
                          % (want.get(sp, 0), sp, got.get(sp, 0), text), {'kind': 'program', 'text': text})
            return
    run.count('oracle_separator_tokens_vs_ast')


def compare_programs(run, sides, progs, label, count_nontrivial=True):
    """progs: list of (name, text, info).  K: implementation vs model."""
    texts = [p[1] for p in progs]
    impl = sides.run_impl(texts)
    idx = [i for i, (ev, ast) in enumerate(impl) if ast is not None]
    model = dict(zip(idx, sides.run_model([impl[i][1] for i in idx])))
    disagreements = []
    for i, (name, text, info) in enumerate(progs):
        run.evaluations += 1
        ev, ast = impl[i]
        ic = canon_impl(ev)
        if ic[0] == 'machinery':
            run.violation('crash:' + ev.split('\t')[0], 'implementation %s on program %r' % (ev[:80], text),
                          {'kind': 'program', 'text': text})
            continue
        run.count('%s_impl_%s' % (label, short(ic) if ic[0] != 'error' else 'error'))
        if ic[0] == 'error':
            run.count('impl_error_' + ic[1])
        if ast is not None and label != 'replay':
            count_ast(run, ast)
        if ast is not None and sides.tokens.get(text):
            separator_oracle(run, text, sides.tokens[text], ast)
        if ic[0] == 'static' or ast is None:
            run.count(label + '_skipped_static_error')
            continue
        mc = sides.model_decided(ast, model[i], ic)
        if mc[0] == 'unsupported':
            run.count(label + '_skipped_unsupported')
            run.count('unsupported:' + mc[1][:40])
            continue
        if mc[0] == 'undecided':
            run.count(label + '_undecided_' + mc[1])
            continue
        if mc[0] == 'machinery':
            run.violation('model-machinery', 'model driver failed (%s) on %r' % (mc[1], text), {'kind': 'program', 'text': text}, concrete=False)
            continue
        # K for C02_refeval_no_static_error: a program the implementation accepts statically never yields a
        # static-kind error (unbound variable / self / super / $) in the model either
        run.count('statically_accepted_programs')
        if mc[0] != 'static':
            run.count('statically_accepted_no_static_error_in_model')
        if mc[0] == 'static':
            run.violation('static-vs-dynamic', 'model rejects statically (%s) what the implementation evaluates: %r' % (mc[2], text),
                          {'kind': 'program', 'text': text}, concrete=False)
            continue
        if same_outcome(ic, mc):
            run.count(label + '_agree')
            if count_nontrivial and info is not None and len([k for k in info.get('kinds', {}) if k not in ('leaf',)]) >= 3:
                run.nontrivial.add(text)
            if len(run.samples) < 6 and info is not None:
                run.samples.append({'program': text[:400], 'outcome': describe(ic)[:200]})
            continue
        disagreements.append((name, text, ast, ic, mc))
    # attribute disagreements: documented deviations of the implementation first
    for name, text, ast, ic, mc in disagreements:
        key = None
        for (bfs, tst), k in KNOWN_DEVIATIONS.items():
            m2 = sides.model_decided(ast, sides.run_model([ast], bfs=bfs, tst=tst)[0], ic)
            if m2[0] in ('value', 'error') and same_outcome(ic, m2):
                key = k
                break
        what = 'implementation: %s / specification model: %s / program: %r' % (describe(ic), describe(mc), text)
        if key is None:
            key = 'semantics:%s-vs-%s' % (short(ic), short(mc))
            if ic[0] == 'value' and mc[0] == 'value' and ic[1] == mc[1]:
                key = 'trace-messages-differ'
        run.count('disagree:' + key)
        run.violation(key, what, {'kind': 'program', 'text': text, 'impl': describe(ic), 'model': describe(mc)})
    return len(disagreements)


# ---------------------------------------------------------------- oracle on the implementation alone

def twin(n):
    """rewrite the AST by the specification's desugaring laws"""
    if not isinstance(n, tuple):
        if isinstance(n, list):
            return [twin(x) for x in n]
        return n
    k = n[0] if n and isinstance(n[0], str) else None
    if k == 'bin' and n[1] == '!=':
        return ('un', '!', ('bin', '==', twin(n[2]), twin(n[3])))
    if k == 'objext':
        return ('bin', '+', twin(n[1]), ('obj', twin(n[2])))
    if k == 'if' and n[3] is None:
        return ('if', twin(n[1]), twin(n[2]), ('null',))
    if k == 'local' and isinstance(n[1], str):        # object member: local f(x) = e
        if n[2] is not None:
            return ('local', n[1], None, ('func', twin(n[2]), twin(n[3])))
        return ('local', n[1], None, twin(n[3]))
    if k == 'field' and len(n) == 7:                  # object member: f(x): e  is  f: function(x) e
        if n[5] is not None:
            return ('field', n[1], twin(n[2]) if n[1] == 'expr' else n[2], n[3], n[4], None, ('func', twin(n[5]), twin(n[6])))
        return ('field', n[1], twin(n[2]) if n[1] == 'expr' else n[2], n[3], n[4], None, twin(n[6]))
    if k == 'local':
        binds = []
        for nm, ps, e in n[1]:
            if ps is not None:
                binds.append((nm, None, ('func', twin(ps), twin(e))))
            else:
                binds.append((nm, None, twin(e)))
        return ('local', binds, twin(n[2]))
    if k in ('num', 'str', 'var', 'std', 'superf'):
        return n
    return tuple(twin(x) for x in n)


WRAPPERS = [
    lambda p: '(' + p + ')',
    lambda p: 'local v__ = (' + p + '); v__',
    lambda p: '[(' + p + ')][0]',
    lambda p: 'if true then (' + p + ') else error "no"',
    lambda p: '(function() (' + p + '))()',
    lambda p: '(function(x) x)((' + p + '))',
    lambda p: 'std.foldl(function(a, b) b, [(' + p + ')], null)',
    lambda p: 'assert true : error "dead"; (' + p + ')',
]


def law_oracle(run, sides, asts, rng):
    """impl(P) must equal impl(twin(P)) and impl(wrapper(P)) — no model involved"""
    base, variants = [], []
    for ast in asts:
        seed = rng.getrandbits(32)
        import random as _r
        p = gen_prog.pp(ast, _r.Random(seed), plain=True)
        t = gen_prog.pp(twin(ast), _r.Random(seed), plain=True)
        w = rng.choice(WRAPPERS)
        # no wrapper places the program inside an object: that would re-bind `$`
        variants.append((p, t, 'desugaring-law'))
        variants.append((p, w(p), 'wrapper'))
    texts = []
    for p, v, _ in variants:
        texts += [p, v]
    res = sides.run_impl(texts)
    for j, (p, v, kind) in enumerate(variants):
        run.evaluations += 1
        a, b = canon_impl(res[2 * j][0]), canon_impl(res[2 * j + 1][0])
        if a[0] == 'static' or b[0] == 'static':
            if a[0] != b[0]:
                run.count('oracle_static_mismatch')
            continue
        run.count('oracle_' + kind)
        if not same_outcome(a, b, traces=True):
            run.violation('law:%s:%s-vs-%s' % (kind, short(a), short(b)),
                          'the implementation gives different outcomes for %r (%s) and its %s form %r (%s)' % (p, describe(a), kind, v, describe(b)),
                          {'kind': 'pair', 'a': p, 'b': v})


# ---------------------------------------------------------------- ui-tests anchor

def uitests(run, sides):
    root = os.path.join(vlib.REPO, 'ui-tests', 'pass')
    files = sorted(glob.glob(os.path.join(root, '**', '*.jsonnet'), recursive=True))
    progs = []
    for f in files:
        rel = os.path.relpath(f, root)
        if rel.startswith(('import', 'tla')) or 'extVar' in rel or 'output' in rel:
            continue
        try:
            text = open(f, encoding='utf-8', newline='').read()
        except Exception:
            continue
        out = f[:-len('.jsonnet')] + '.stdout'
        expected = open(out, encoding='utf-8', newline='').read() if os.path.exists(out) else 'true\n'
        progs.append((rel, text, expected))
    impl = sides.run_impl([p[1] for p in progs], stack=500)
    idx = [i for i, (ev, ast) in enumerate(impl) if ast is not None]
    model = dict(zip(idx, sides.run_model([impl[i][1] for i in idx], fuel=20000, limit=500, timeout=600)))
    covered = 0
    for i, (rel, text, expected) in enumerate(progs):
        if i not in model:
            run.count('uitests_not_parsed')
            continue
        run.evaluations += 1
        mc = canon_model(model[i])
        if mc[0] == 'unsupported':
            run.count('uitests_unsupported')
            continue
        if mc[0] in ('fuel', 'undecided') or (mc[0] == 'error' and mc[1] == 'StackOverflow'):
            run.count('uitests_undecided')
            continue
        try:
            want = ('value', canon_json_text(expected), frozenset())
        except Exception:
            run.count('uitests_expected_not_json')
            continue
        if mc[0] == 'value' and mc[1] == want[1]:
            covered += 1
            run.nontrivial.add('uitest:' + rel)
        else:
            run.violation('uitests:' + rel, 'the specification model does not reproduce the blessed output of ui-tests/pass/%s: model %s, blessed %s'
                          % (rel, describe(mc), expected.strip()[:100]), {'kind': 'uitest', 'file': rel}, concrete=False)
    run.count('uitests_covered', covered)
    run.count('uitests_total', len(progs))
    run.extra['uitests_pass_covered'] = '%d of %d ui-tests/pass programs reproduced by the model (the rest use builtins or features outside the modelled fragment)' % (covered, len(progs))


# ---------------------------------------------------------------- corpus

def corpus_programs():
    out = []
    for p in sorted(glob.glob(os.path.join(vlib.VERIF, 'corpus', 'c02_*.txt'))):
        for ln, l in enumerate(open(p, encoding='utf-8')):
            l = l.strip()
            if not l or l.startswith('#'):
                continue
            try:
                out.append(('%s:%d' % (os.path.basename(p), ln + 1), json.loads(l), None))
            except Exception:
                pass
    return out


# ---------------------------------------------------------------- main

def check(run):
    rng = vlib.rng_for(run.seed, ID)
    run.rule = ('programs generated as abstract syntax by tools/gen_prog.py (typed generation, 5 binder names / 4 field names, '
                'feature-interaction bias, ~70% built to be error free with dead errors planted in unforced positions, ~30% with a '
                'deliberate live error) and printed with random parentheses / whitespace / comments / string literal forms; '
                'the same text goes to the implementation (eval) and, through front parse + the AST wire, to the extracted '
                'interpreter; non-trivial = distinct program text using >= 3 construct kinds on which both sides were compared; '
                'plus the hand corpus, the ui-tests/pass anchor and the law oracle on the implementation alone.')
    run.assume = ['the specification side is this development\'s Gallina transcription of the Jsonnet specification (no upstream binary offline); '
                  'ui-tests/pass blessed outputs are the only upstream anchor',
                  'number literal -> double and double -> text are exercised only where exact (decimal parsing by exact rational rounding; '
                  'text of integral doubles below 2^53); other number texts are skipped and counted',
                  'std.trace messages are compared as sets (the model is call-by-name; exactly-once is C04)',
                  'StackOverflow and InfiniteRecursion are one class (the model has no thunk states; its frame count is an upper bound of the implementation\'s)']
    import time as _t
    t0 = _t.time()
    pres = vlib.prove(ID, THEOREMS, ALLOWED_AXIOMS)
    run.add_proof(pres, THEOREMS)
    vlib.log('C02: proofs %.0fs' % (_t.time() - t0)); t0 = _t.time()
    sides = Sides()
    vlib.log('C02: builds %.0fs' % (_t.time() - t0)); t0 = _t.time()
    # corpus first
    corp = corpus_programs()
    if corp:
        compare_programs(run, sides, corp, 'corpus', count_nontrivial=False)
    vlib.log('C02: corpus %.0fs' % (_t.time() - t0)); t0 = _t.time()
    uitests(run, sides)
    vlib.log('C02: ui-tests anchor %.0fs' % (_t.time() - t0)); t0 = _t.time()
    n = 700 if run.tier == 'quick' else 20000
    sizes = [12, 25, 40, 60] if run.tier == 'quick' else [12, 25, 40, 60, 100, 150]
    batch = 400 if run.tier == 'quick' else 2000
    done = 0
    ndis = 0
    # targeted scenario streams: object reuse (observe / extend / observe again) and the separator matrix
    nre = 150 if run.tier == 'quick' else 1500
    reps = 3 if run.tier == 'quick' else 30
    scen = []
    for i in range(nre):
        text, info = gen_prog.gen_reuse_program(rng)
        scen.append(('r%d' % i, text, info))
        for kname, c in info['kinds'].items():
            run.count('reuse_' + kname, c)
    j = 0
    for sep in gen_prog.SEPARATORS:
        for inh in (True, False):
            for body in ('value', 'error'):
                for _ in range(reps):
                    text, info = gen_prog.gen_separator_program(rng, sep, inh, body)
                    scen.append(('s%d' % j, text, info))
                    j += 1
                    run.count('sepcell %s %s %s' % info['cell'])
                    for kname, c in info['kinds'].items():
                        run.count(kname, c)
    # shadowing matrix: every (inner binder kind, outer binder kind) pair, the same name rebound
    sreps = 2 if run.tier == 'quick' else 25
    j = 0
    for inner in gen_prog.BINDERS:
        for outer in gen_prog.BINDERS:
            for _ in range(sreps if inner != outer or inner not in ('comp', 'objcomp') else 3 * sreps):
                text, info = gen_prog.gen_shadow_program(rng, inner, outer)
                scen.append(('h%d' % j, text, info))
                j += 1
                run.count('shadow %s over %s' % info['pair'])
    compare_programs(run, sides, scen, 'scenario')
    vlib.log('C02: scenario streams %.0fs' % (_t.time() - t0)); t0 = _t.time()
    import random as _r
    while done < n:
        progs, asts = [], []
        for i in range(min(batch, n - done)):
            errors = rng.random() < 0.3
            g = gen_prog.Gen(rng, rng.choice(sizes), errors)
            ast = g.program()
            text = gen_prog.pp(ast, rng)
            info = {'nodes': g.nodes, 'kinds': g.kinds, 'planted': g.planted}
            progs.append(('g%d' % (done + i), text, info))
            run.count('gen_stream_' + ('errors' if errors else 'clean'))
            run.count('gen_nodes_%s' % ('<20' if g.nodes < 20 else '<50' if g.nodes < 50 else '<100' if g.nodes < 100 else '>=100'))
            for kname, c in g.kinds.items():
                run.count('kind_' + kname, c)
            if not errors and len(asts) < (60 if run.tier == 'quick' else 150):
                asts.append(ast)
        ndis += compare_programs(run, sides, progs, 'gen')
        law_oracle(run, sides, asts, rng)
        done += len(progs)
        if ndis > 40:
            break
    vlib.log('C02: generated programs + oracle %.0fs' % (_t.time() - t0))


def replay(run, path):
    j = json.load(open(path))
    r = j.get('replay', {})
    sides = Sides()
    if isinstance(r, dict) and r.get('kind') == 'program':
        compare_programs(run, sides, [('replay', r['text'], None)], 'replay', count_nontrivial=False)
    elif isinstance(r, dict) and r.get('kind') == 'pair':
        res = sides.run_impl([r['a'], r['b']])
        a, b = canon_impl(res[0][0]), canon_impl(res[1][0])
        if not same_outcome(a, b):
            run.violation('law', 'outcomes differ: %s / %s' % (describe(a), describe(b)), r)
    elif isinstance(r, dict) and r.get('kind') == 'uitest':
        uitests(run, sides)
        run.violations = [v for v in run.violations if v['key'] == 'uitests:' + r['file']]
    else:
        print('replay file names a broken obligation, not an input:', json.dumps(j.get('no_longer_checks', j), indent=1)[:2000])
        pres = vlib.prove(ID, THEOREMS, ALLOWED_AXIOMS)
        run.add_proof(pres, THEOREMS)
    for v in run.violations:
        print('REPRODUCED:', v['what'][:600])
    if not run.violations and not run.failed_obligations:
        print('not reproduced')
    return 1 if (run.violations or run.failed_obligations) else 0
