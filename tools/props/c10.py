"""C10 — recursion depth is bounded by the configured limit and fails gracefully.

T:      tools/translate_tracepush.py (handler push trees -> Gen/TraceWords.v) and
        tools/translate_callgraph.py (evaluator call graph -> Gen/EvalCallGraph.v).
Proof:  Props/C10.v over Model/TraceLen.v (accounting invariant, tree analysis,
        acyclic call graph) and Model/DepthSem.v (limit monotonicity, depth bound,
        cycle detection).
K:      DepthSem programs printed to Jsonnet, model (extracted) vs the real
        evaluator (harness component `eval`, option stack=): one-sided frame
        sandwich + equal values + equal divergence class.
Search: recursion shapes x limits x depths on the implementation alone (monotone
        in the limit, only StackOverflow / InfiniteRecursion failures, trace
        length consistent with the limit, flat programs independent of size,
        no crash / hang), the same through the real CLI (exit status, streams),
        and a very large -s with deep finite recursion.
"""
import os, sys, re, json, subprocess, tempfile, shutil, time
import vlib
from vlib import hx, hxl
sys.path.insert(0, os.path.dirname(os.path.dirname(os.path.abspath(__file__))))
import translate_tracepush, translate_callgraph, translate_tailpos

ID = 'C10'
COMPONENTS = ['tracelen']
THEOREMS = ['C10_handler_words_balanced', 'C10_handler_words_balanced_sound', 'C10_handler_gain_bounded',
            'C10_eval_callgraph_acyclic', 'C10_tail_positions_spec', 'C10_core_thunk_forces_framed', 'C10_tracelen_invariant', 'C10_dec_no_underflow',
            'C10_len_zero_at_end', 'C10_get_stack_trace_pop_ok', 'C10_len_never_exceeds',
            'C10_overflow_trace_exceeds_limit', 'C10_tracelen_nonvacuous',
            'C10_limit_monotone', 'C10_limit_monotone_outcome', 'C10_depth_never_exceeds',
            'C10_top_depth_never_exceeds', 'C10_force_in_progress', 'C10_cycle_detected',
            'C10_depthsem_nonvacuous',
            'C10_refeval_limit_monotone']
ALLOWED_AXIOMS = set()
GAIN_BOUND = 16          # = handler_gain_bound in Props/C10.v
BIG = 4096               # "no limit" for the model (generated programs that terminate stay far below)
IMPL_BIG = 200000        # "no limit" for the implementation
FUEL = 150000


def translate_words(repo):
    return translate_tracepush.main(repo, os.path.join(vlib.COQ, 'Gen', 'TraceWords.v'))


def translate_graph(repo):
    return translate_callgraph.main(repo, os.path.join(vlib.COQ, 'Gen', 'EvalCallGraph.v'))


def translate_tail(repo):
    return translate_tailpos.main(repo, os.path.join(vlib.COQ, 'Gen', 'TailPos.v'))


TRANSLATORS = [translate_words, translate_graph, translate_tail]


# ================================================================ DepthSem programs
# expr = ('n', z) ('l', i) ('x',) ('c', f, e) ('+', a, b) ('d', a) ('z', c, a, b) ('a', [e..]) ('i', idx, e)
#        ('=', a, b) ('<', a, b) ('s', a)

def wire_e(e):
    k = e[0]
    if k == 'n':
        return 'n%s' % (('-%x' % -e[1]) if e[1] < 0 else '%x' % e[1])
    if k == 'l':
        return 'l%x' % e[1]
    if k == 'x':
        return 'x'
    if k == 'c':
        return 'c%x %s' % (e[1], wire_e(e[2]))
    if k in '+=<':
        return '%s %s %s' % (k, wire_e(e[1]), wire_e(e[2]))
    if k in 'ds':
        return '%s %s' % (k, wire_e(e[1]))
    if k == 'z':
        return 'z %s %s %s' % (wire_e(e[1]), wire_e(e[2]), wire_e(e[3]))
    if k == 'a':
        return ' '.join(['a%x' % len(e[1])] + [wire_e(x) for x in e[1]])
    if k == 'i':
        return 'i%x %s' % (e[1], wire_e(e[2]))
    raise ValueError(e)


def wire_prog(p):
    funs, locs, main = p
    return ' '.join(['F', '%x' % len(funs)] + [wire_e(f) for f in funs] +
                    ['L', '%x' % len(locs)] + [wire_e(l) for l in locs] + ['M', wire_e(main)])


def js_e(e):
    k = e[0]
    if k == 'n':
        return '(%d)' % e[1] if e[1] < 0 else '%d' % e[1]
    if k == 'l':
        return 'l%d' % e[1]
    if k == 'x':
        return 'x'
    if k == 'c':
        return 'f%d(%s)' % (e[1], js_e(e[2]))
    if k == '+':
        return '(%s + %s)' % (js_e(e[1]), js_e(e[2]))
    if k == 'd':
        return '(%s - 1)' % js_e(e[1])
    if k == 'z':
        return '(if %s == 0 then %s else %s)' % (js_e(e[1]), js_e(e[2]), js_e(e[3]))
    if k == 'a':
        return '[%s]' % ', '.join(js_e(x) for x in e[1])
    if k == 'i':
        return '%s[%d]' % (js_e(e[2]), e[1])
    if k == '=':
        return '(if %s == %s then 1 else 0)' % (js_e(e[1]), js_e(e[2]))
    if k == '<':
        return '(if %s < %s then 1 else 0)' % (js_e(e[1]), js_e(e[2]))
    if k == 's':
        return 'std.length(std.toString(%s))' % js_e(e[1])
    raise ValueError(e)


def js_prog(p):
    funs, locs, main = p
    binds = ['f%d(x) = %s' % (i, js_e(f)) for i, f in enumerate(funs)] + \
            ['l%d = %s' % (i, js_e(l)) for i, l in enumerate(locs)]
    if not binds:
        return js_e(main)
    return 'local ' + ',\n      '.join(binds) + ';\n' + js_e(main)


N = lambda z: ('n', z)
X = ('x',)


def shape_programs(d):
    """named recursion-shaped programs of depth parameter d (model side shapes)"""
    out = []
    # direct recursion: f0(x) = if x == 0 then 0 else 1 + f0(x - 1)
    out.append(('direct', ([('z', X, N(0), ('+', N(1), ('c', 0, ('d', X))))], [], ('c', 0, N(d)))))
    # mutual recursion
    out.append(('mutual', ([('z', X, N(0), ('+', N(1), ('c', 1, ('d', X)))),
                            ('z', X, N(0), ('+', N(2), ('c', 0, ('d', X))))], [], ('c', 0, N(d)))))
    # nested arrays built by recursion, manifested
    nest = ('z', X, ('a', []), ('a', [('c', 0, ('d', X))]))
    out.append(('nest-manifest', ([nest], [], ('c', 0, N(d)))))
    # two-element nesting, compared deeply
    nest2 = ('z', X, ('a', [N(7)]), ('a', [N(1), ('c', 0, ('d', X))]))
    out.append(('nest-eq', ([nest2], [('c', 0, N(d)), ('c', 0, N(d))], ('=', ('l', 0), ('l', 1)))))
    out.append(('nest-lt', ([nest2], [('c', 0, N(d)), ('c', 0, N(d))], ('<', ('l', 0), ('l', 1)))))
    out.append(('nest-tostring', ([nest2], [('c', 0, N(d))], ('s', ('l', 0)))))
    # chain of local thunks l0 = l1 + 1, ..., l_{d} = 0 (each forces the next)
    dd = min(d, 60)
    locs = [('+', ('l', i + 1), N(1)) for i in range(dd)] + [N(0)]
    out.append(('thunk-chain', ([], locs, ('l', 0))))
    # thunk cycle of length d+1
    locs = [('l', i + 1) for i in range(dd)] + [('l', 0)]
    out.append(('thunk-cycle', ([], locs, ('l', 0))))
    # cycle through an array element and an index
    out.append(('array-cycle', ([], [('a', [('i', 0, ('l', 0))])], ('i', 0, ('l', 0)))))
    # infinite recursion
    out.append(('infinite-call', ([('c', 0, ('+', X, N(1)))], [], ('c', 0, N(0)))))
    out.append(('infinite-mutual', ([('c', 1, X), ('a', [('i', 0, ('c', 0, X))])], [], ('i', 0, ('c', 0, N(0))))))
    # lazily unused argument: the diverging argument is never forced
    out.append(('unused-diverging-arg', ([N(5), ('c', 1, X)], [], ('c', 0, ('c', 1, N(0))))))
    return out


def rand_expr(rng, depth, nf, nl, in_fun):
    """random closed expression; calls always pass a decremented/small argument so most programs terminate"""
    leaves = [lambda: N(rng.randint(0, 3))]
    if nl:
        leaves.append(lambda: ('l', rng.randrange(nl)))
    if in_fun:
        leaves.append(lambda: X)
        leaves.append(lambda: X)
    if depth <= 0:
        return rng.choice(leaves)()
    r = rng.random()
    sub = lambda: rand_expr(rng, depth - 1, nf, nl, in_fun)
    if r < 0.15:
        return rng.choice(leaves)()
    if r < 0.30 and nf:
        arg = ('d', X) if (in_fun and rng.random() < 0.8) else N(rng.randint(0, 4))
        return ('c', rng.randrange(nf), arg)
    if r < 0.42:
        return ('+', sub(), sub())
    if r < 0.55:
        c = X if (in_fun and rng.random() < 0.7) else sub()
        return ('z', c, sub(), sub())
    if r < 0.68:
        return ('a', [sub() for _ in range(rng.randint(0, 3))])
    if r < 0.76:
        return ('i', rng.randint(0, 1), sub())
    if r < 0.84:
        return ('=', sub(), sub())
    if r < 0.90:
        return ('<', sub(), sub())
    if r < 0.95:
        return ('s', sub())
    return ('d', sub())


def rand_program(rng):
    nf = rng.randint(0, 3)
    nl = rng.randint(0, 4)
    funs = []
    for _ in range(nf):
        body = rand_expr(rng, rng.randint(1, 3), nf, nl, True)
        # guard the recursion on the argument reaching 0 most of the time
        if rng.random() < 0.85:
            body = ('z', X, rand_expr(rng, 1, 0, nl, True), body)
        funs.append(body)
    locs = [rand_expr(rng, rng.randint(0, 3), nf, nl, False) for _ in range(nl)]
    main = rand_expr(rng, rng.randint(1, 3), nf, nl, False)
    return (funs, locs, main)


def parse_impl(r):
    """harness eval answer -> (class, payload, ntrace)   class in ok|so|inf|other|bad"""
    f = r.split('\t')
    if f[0] == 'OK':
        return ('ok', f[1], None)
    if f[0] == 'ERR' and len(f) > 2 and f[1] == 'EVAL':
        n = None
        for x in f:
            if x.startswith('N='):
                n = int(x[2:], 16)
        if f[2] == 'StackOverflow':
            return ('so', '', n)
        if f[2] == 'InfiniteRecursion':
            return ('inf', '', n)
        return ('other', f[2], n)
    if f[0] == 'ERR':
        return ('bad', '%s %s' % (f[1], f[2] if len(f) > 2 else ''), None)
    return ('bad', r[:60], None)


def parse_model(r):
    f = r.split('\t')
    if f[0] == 'OK':
        return ('ok', f[1], int(f[2][2:], 16))
    if f[0] == 'ERR':
        return ({'StackOverflow': 'so', 'InfiniteRecursion': 'inf', 'TypeError': 'other', 'BadProgram': 'bad'}[f[1]], '', None)
    return ('bad', r[:60], None)


def src_field(text):
    return hxl(list(text.encode('utf-8')))


# frame sandwich between the model's count and the evaluator's (documented in notes/C10.md):
#   model succeeds under L            => implementation succeeds under L, same value
#   implementation succeeds under s   => model succeeds under RATIO*s + SLACK
RATIO, SLACK = 4, 8


def model_unanswered(r):
    return (r in ('NOOUTPUT', 'TIMEOUT', 'UNDECIDED') or r.startswith('CRASH') or r.startswith('MODELEXC'))


def run_model(model_exe, cases, timeout=900):
    """model side: a TIMEOUT / CRASH / MODELEXC / NOOUTPUT is a machinery condition (a loaded machine, a shard that
    ran out of time), never a verdict: such cases are re-run alone with a generous timeout; what still does not
    answer is UNDECIDED (counted in evidence, excluded from every comparison and from distinct_nontrivial)"""
    lines = {c[0]: vlib.model_line(c) for c in cases}
    res = vlib.run_sharded(model_exe, list(lines.values()), timeout, shards=4 * vlib.NCPU)
    again = [cid for cid in lines if model_unanswered(res.get(cid, 'NOOUTPUT'))]
    if again:
        vlib.log('C10: re-running %d model case(s) alone' % len(again))
        from concurrent.futures import ThreadPoolExecutor
        with ThreadPoolExecutor(max_workers=vlib.NCPU) as ex:
            outs = list(ex.map(lambda cid: vlib.run_lines(model_exe, [lines[cid]], timeout=900).get(cid, 'NOOUTPUT'), again))
        for cid, r in zip(again, outs):
            res[cid] = 'UNDECIDED' if model_unanswered(r) else r
    return res


def check_depthsem(run, impl_exe, model_exe, rng, tier, stops=True):
    progs = []
    depths = [0, 1, 2, 5, 13] if tier == 'quick' else [0, 1, 2, 3, 4, 5, 6, 8, 11, 13, 17, 21, 34, 55]
    for d in depths:
        for name, p in shape_programs(d):
            progs.append(('%s/%d' % (name, d), p))
    corpus = os.path.join(vlib.VERIF, 'corpus', 'c10_depthsem.txt')
    if os.path.exists(corpus):
        for i, l in enumerate(open(corpus)):
            l = l.strip()
            if l and not l.startswith('#'):
                progs.append(('corpus/%d' % i, eval(l, {'__builtins__': {}}, {})))
    nrand = 120 if tier == 'quick' else 4000
    for i in range(nrand):
        progs.append(('rand/%d' % i, rand_program(rng)))
    # 1. model without limit: final outcome and peak
    mcases = [('m%d' % i, 'tracelen', ['ds', hx(BIG), hx(FUEL), wire_prog(p)]) for i, (_, p) in enumerate(progs)]
    mres = run_model(model_exe, mcases)
    icases, mcases2, plan = [], [], []
    for i, (name, p) in enumerate(progs):
        mr = mres.get('m%d' % i, 'NOOUTPUT')
        mc, mtext, peak = parse_model(mr)
        run.count('ds_model_' + (mc if mc != 'bad' else 'bad:' + mr[:20]))
        if model_unanswered(mr):
            run.count('undecided_model_no_answer')
            continue
        if mr == 'PANIC':
            run.violation('ds-model-machinery', 'model driver failed on %s: %s' % (name, mr[:80]),
                          {'kind': 'ds', 'prog': repr(p)}, concrete=False)
            continue
        if mr == 'FUEL':
            continue     # did not finish within the model's fuel: no statement
        if mc == 'so' and not stops:
            continue     # the canary already reported that unbounded recursion is not stopped
        src = js_prog(p)
        limits = set()
        if mc == 'ok':
            limits.update([peak, peak + 1, peak + rng.randint(2, 50), max(0, peak - 1), peak // 2,
                           max(0, (peak - SLACK) // RATIO - 1), rng.randint(0, max(1, peak))])
        elif mc == 'inf':
            limits.update([IMPL_BIG, 2000, 500, rng.randint(1, 64), rng.randint(1, 64)])
        elif mc == 'so':
            limits.update([rng.randint(1, 64), 100, 500, 2000])
        else:
            limits.update([500, 2000])
        for s in sorted(limits):
            cid = 'd%d_%x' % (i, s)
            icases.append((cid, 'eval', ['stack=%x' % s, src_field(src)]))
            if s != IMPL_BIG:
                mcases2.append((cid, 'tracelen', ['ds', hx(s), hx(FUEL), wire_prog(p)]))
            plan.append((cid, i, s))
    ires = vlib.run_sharded(impl_exe, [vlib.impl_line(c) for c in icases], timeout=300)
    mres2 = run_model(model_exe, mcases2)
    for cid, i, s in plan:
        name, p = progs[i]
        run.evaluations += 1
        fc, ftext, peak = parse_model(mres['m%d' % i])
        ir = ires.get(cid, 'NOOUTPUT')
        ic, itext, ntr = parse_impl(ir)
        if s != IMPL_BIG and model_unanswered(mres2.get(cid, 'NOOUTPUT')):
            run.count('undecided_model_no_answer')
            run.evaluations -= 1
            continue
        mc, mtext, _ = parse_model(mres2[cid]) if s != IMPL_BIG else (fc, ftext, peak)
        replay = {'kind': 'ds', 'name': name, 'prog': repr(p), 'stack': s, 'source': js_prog(p), 'impl': ir[:300], 'model': mres2.get(cid, mres['m%d' % i])[:300]}
        run.count('ds_impl_' + ic)
        if ic == 'bad':
            run.violation('ds-impl-crash:' + ir.split('\t')[0], 'implementation %s on DepthSem program %s under stack=%d' % (ir[:60], name, s), replay)
            continue
        # the model's own monotonicity (extraction sanity): under s it either overflows or gives the final outcome
        if mc != 'so' and (mc, mtext) != (fc, ftext):
            run.violation('ds-model-not-monotone', 'extracted model under L=%d gives %s/%s, without limit %s/%s (%s)' % (s, mc, mtext[:40], fc, ftext[:40], name), replay, concrete=False)
        if ic == 'so' and ntr is not None and not (s < ntr <= s + GAIN_BOUND):
            run.violation('overflow-trace-length', 'StackOverflow under stack=%d reported with a trace of %d frames (%s)' % (s, ntr, name), replay)
        if ic in ('inf', 'other') and ntr is not None and ntr > s + GAIN_BOUND:
            run.violation('error-trace-exceeds-limit', 'error under stack=%d reported with a trace of %d frames (%s)' % (s, ntr, name), replay)
        if fc == 'ok':
            if ic == 'ok' and itext != ftext:
                run.violation('ds-value-differs', 'value differs under stack=%d for %s: implementation %s, model %s' % (s, name, vlib.uncps(itext)[:80], vlib.uncps(ftext)[:80]), replay)
            elif ic in ('inf', 'other'):
                run.violation('ds-class-differs', 'model evaluates %s to a value, implementation fails with %s under stack=%d' % (name, ir.split('\t')[2], s), replay)
            elif mc == 'ok' and ic != 'ok':
                # model succeeds under s => implementation must (the model counts at least as many frames)
                run.violation('ds-frame-bound', 'model succeeds under L=%d (peak %d) but the implementation overflows for %s' % (s, peak, name), replay, concrete=False)
            elif ic == 'ok' and RATIO * s + SLACK < peak:
                run.violation('ds-limit-not-enforced', 'implementation succeeds under stack=%d for %s whose model depth is %d (> %d*s+%d)' % (s, name, peak, RATIO, SLACK), replay)
            if ic == 'ok':
                run.nontrivial.add(('ds', name.split('/')[0] if not name.startswith('rand') else wire_prog(p), 'ok'))
        elif fc == 'inf':
            if ic not in ('inf', 'so'):
                run.violation('ds-cycle-not-detected', 'self-dependent program %s: implementation answers %s under stack=%d' % (name, ir[:60], s), replay)
            elif s == IMPL_BIG and ic != 'inf':
                run.violation('ds-cycle-not-detected', 'self-dependent program %s: implementation answers %s without a limit' % (name, ir[:60]), replay)
            elif mc == 'inf' and ic != 'inf':
                run.violation('ds-frame-bound', 'model reaches the cycle under L=%d but the implementation overflows first for %s' % (s, name), replay, concrete=False)
            run.nontrivial.add(('ds', name.split('/')[0] if not name.startswith('rand') else wire_prog(p), 'inf'))
        elif fc == 'so':
            # did not finish within 2^20 frames: infinite recursion
            if ic != 'so':
                run.violation('ds-unbounded-recursion-not-stopped', 'unbounded recursion %s: implementation answers %s under stack=%d' % (name, ir[:60], s), replay)
            run.nontrivial.add(('ds', name.split('/')[0] if not name.startswith('rand') else wire_prog(p), 'so'))
        elif fc == 'other':
            if ic in ('ok', 'inf'):
                run.violation('ds-class-differs', 'model reports a type error for %s, implementation %s under stack=%d' % (name, ir[:60], s), replay, concrete=False)
        if len(run.samples) < 3 and name.startswith('mutual'):
            run.samples.append({'component': 'tracelen/ds', 'program': js_prog(p)[:200], 'stack': s, 'impl': ir[:80], 'model': mres2.get(cid, '')[:80]})


# ================================================================ trace accounting self-check (model vs a direct Python reading)

def py_tracelen(maxs, init, script):
    stack, ln = [], 0

    def trace():
        tr = []
        for it in stack:
            if it >= 2:
                tr.append(it - 2)
            elif it == 1:
                if not tr:
                    return None
                tr.pop()
        return tr

    def push(c):
        nonlocal ln
        stack.append(c)
        if c >= 2:
            ln += 1
        elif c == 1:
            if ln == 0:
                return False
            ln -= 1
        return True

    for c in init:
        if not push(c):
            return 'PANIC'
    for codes, fail in script:
        if not stack:
            continue
        top = stack.pop()
        if top >= 2:
            if ln == 0:
                return 'PANIC'
            ln -= 1
        elif top == 1:
            ln += 1
        else:
            for c in codes:
                if not push(c):
                    return 'PANIC'
            if fail:
                tr = trace()
                return 'PANIC' if tr is None else 'HERR\t' + hxl(tr)
        if ln > maxs:
            tr = trace()
            return 'PANIC' if tr is None else 'OVERFLOW\t' + hxl(tr)
    tr = trace()
    return 'PANIC' if tr is None else 'OK\t%x\t%x\t%s' % (ln, len(stack), hxl(tr))


def check_tracelen_model(run, model_exe, rng, tier):
    cases, exp = [], {}
    n = 150 if tier == 'quick' else 2000
    for i in range(n):
        balanced = rng.random() < 0.8

        def word():
            w, bal = [], 0
            for _ in range(rng.randint(0, 6)):
                r = rng.random()
                if r < 0.4:
                    w.append(0)
                elif r < 0.75 or (balanced and bal == 0):
                    w.append(2 + rng.randint(0, 9)); bal += 1
                else:
                    w.append(1); bal -= 1
            return w
        init = [0] + word()
        script = [(word() if rng.random() < 0.5 else [], rng.random() < 0.03) for _ in range(rng.randint(1, 40))]
        maxs = rng.choice([0, 1, 2, 3, 5, 100])
        cid = 't%d' % i
        cases.append((cid, 'tracelen', ['tl', hx(maxs), hxl(init), ';'.join('%s:%d' % (hxl(c), 1 if f else 0) for c, f in script)]))
        exp[cid] = (py_tracelen(maxs, init, script), balanced)
    res = run_model(model_exe, cases)
    for cid, _, fields in cases:
        want, balanced = exp[cid]
        got = res.get(cid, 'NOOUTPUT')
        if model_unanswered(got):
            run.count('undecided_model_no_answer')
            continue
        run.evaluations += 1
        run.count('tl_' + got.split('\t')[0])
        if got != want:
            run.violation('tl-model-reading', 'extracted TraceLen model answers %s, the direct reading of the Rust loop %s' % (got[:60], want[:60]),
                          {'kind': 'tl', 'fields': fields}, concrete=False)
        if balanced and got.startswith('PANIC'):
            run.violation('tl-balanced-panics', 'balanced script panics in the model (contradicts C10_dec_no_underflow)', {'kind': 'tl', 'fields': fields}, concrete=False)
        if not got.startswith('PANIC'):
            run.nontrivial.add(('tl', fields[1], fields[3]))


# ================================================================ implementation-only sweep

# frames per level of depth, calibrated on the unchanged tree by bisection at depths 30 and 90 (notes/C10.md): every
# depthful family needs exactly ratio*d + b frames with b in 0..6
RATIO2 = {'fn-accumulator-thunks', 'inh-super-method'}


def fam(name, src, expect, depthful=True, cyc=None, infinite=False, flat=False):
    return {'name': name, 'src': src, 'expect': expect, 'depthful': depthful, 'cycle': cyc, 'infinite': infinite, 'flat': flat,
            'ratio': 2 if name in RATIO2 else 1, 'hi': None}


def nested_arr_text(d):
    return '[' * d + ']' * d if d else '[ ]'


def families(d):
    """Jsonnet programs whose evaluation nests to depth ~d; expected manifested text (or None = only class is checked)"""
    F = []
    F.append(fam('fn-direct', 'local f(x) = if x == 0 then 0 else 1 + f(x - 1); f(%d)' % d, '%d' % d))
    F.append(fam('fn-mutual', 'local f(x) = if x == 0 then 0 else 1 + g(x - 1), g(x) = if x == 0 then 0 else 1 + f(x - 1); f(%d)' % d, '%d' % d))
    F.append(fam('fn-tailstrict', 'local f(x, a) = if x == 0 then a else f(x - 1, a + 1) tailstrict; f(%d, 0)' % d, '%d' % d, depthful=False))   # tail calls keep no frame
    F.append(fam('fn-accumulator-thunks', 'local f(x, a) = if x == 0 then a else f(x - 1, a + 1); f(%d, 0)' % d, '%d' % d))
    F.append(fam('obj-method', 'local o = { f(x): if x == 0 then 0 else 1 + self.f(x - 1) }; o.f(%d)' % d, '%d' % d))
    F.append(fam('obj-field-chain', '{ ' + ', '.join(['a0: 0'] + ['a%d: self.a%d + 1' % (i, i - 1) for i in range(1, d + 1)]) + ' }.a%d' % d, '%d' % d))
    F.append(fam('local-chain', 'local ' + ', '.join(['a0 = 0'] + ['a%d = a%d + 1' % (i, i - 1) for i in range(1, d + 1)]) + '; a%d' % d, '%d' % d))
    F.append(fam('obj-super-chain', 'local base = { v: 0 }; std.foldl(function(o, i) o + { v: super.v + 1 }, std.range(1, %d), base).v' % d, '%d' % d))
    F.append(fam('arr-nest-fold', 'std.length(std.toString(std.foldl(function(a, i) [a], std.range(1, %d), [])))' % d, '%d' % (2 * d + 3)))
    F.append(fam('arr-nest-rec-manifest', 'local n(k) = if k == 0 then [] else [n(k - 1)]; std.length(std.manifestJsonMinified(n(%d)))' % d, '%d' % (2 * d + 2)))
    F.append(fam('arr-nest-deep-value', 'local n(k) = if k == 0 then [1] else [n(k - 1)]; local v = n(%d); std.length(v)' % d, '1', depthful=False))
    F.append(fam('obj-nest-fold', 'std.length(std.toString(std.foldl(function(a, i) { x: a }, std.range(1, %d), {})))' % d, '%d' % (7 * d + 3)))
    F.append(fam('obj-nest-top', 'local n(k) = if k == 0 then 1 else { x: n(k - 1) }; std.length(std.manifestJsonMinified(n(%d)))' % d, '%d' % (6 * d + 1)))
    F.append(fam('deep-eq', 'local n(k) = if k == 0 then [1] else [n(k - 1)]; n(%d) == n(%d)' % (d, d), 'true'))
    F.append(fam('deep-eq-obj', 'local n(k) = if k == 0 then { x: 1 } else { x: n(k - 1) }; n(%d) == n(%d)' % (d, d), 'true'))
    F.append(fam('deep-lt', 'local n(k) = if k == 0 then [1] else [n(k - 1)]; local m(k) = if k == 0 then [2] else [m(k - 1)]; n(%d) < m(%d)' % (d, d), 'true'))
    F.append(fam('deep-compare-builtin', 'local n(k) = if k == 0 then [1] else [n(k - 1)]; std.__compare(n(%d), n(%d))' % (d, d), '0'))
    F.append(fam('deep-tostring-concat', 'local n(k) = if k == 0 then [1] else [n(k - 1)]; std.length("" + n(%d))' % d, '%d' % (2 * d + 3)))
    F.append(fam('deep-manifest-yaml', 'local n(k) = if k == 0 then 1 else { x: n(k - 1) }; std.length(std.manifestYamlDoc(n(%d))) > 0' % d, 'true'))
    F.append(fam('deep-manifest-python', 'local n(k) = if k == 0 then 1 else [n(k - 1)]; std.length(std.manifestPython(n(%d)))' % d, '%d' % (2 * d + 1)))
    F.append(fam('foldl-lazy-acc', 'std.foldl(function(a, x) a + x, std.range(1, %d), 0)' % d, '%d' % (d * (d + 1) // 2), depthful=False))
    F.append(fam('foldr-rec', 'std.foldr(function(x, a) a + 1, std.range(1, %d), 0)' % d, '%d' % d, depthful=False))
    F.append(fam('comprehension-nest', 'local n(k) = if k == 0 then [1] else [y for y in [n(k - 1)]]; std.length(std.toString(n(%d)))' % d, '%d' % (2 * d + 3)))
    F.append(fam('string-format-nest', 'local n(k) = if k == 0 then [1] else [n(k - 1)]; std.length("%%s" %% [n(%d)])' % d, '%d' % (2 * d + 3)))
    F.append(fam('import-free-assert', 'local f(x) = assert x >= 0 : "neg"; if x == 0 then 0 else 1 + f(x - 1); f(%d)' % d, '%d' % d))
    return F


# ---- the recursive call in every syntactic position of the function body, with and without `tailstrict`.
# Tail positions are the ones analyze.rs passes `can_be_tailstrict` through (T: tools/translate_tailpos.py):
# the function body itself, then/else of `if`, the body of `local`, the body of `assert`.  Only there does
# `tailstrict` legitimately keep no frame.  (name, template, expected value as a function of d, tail?)
POSITIONS = [
    ('else-branch', 'if n == 0 then 0 else {R}', lambda d: '0', True),
    ('then-branch', 'if n != 0 then {R} else 0', lambda d: '0', True),
    ('nested-if', 'if n == 0 then 0 else if n < 0 then 1 else {R}', lambda d: '0', True),
    ('local-body', 'if n == 0 then 0 else local v = n; {R}', lambda d: '0', True),
    ('assert-body', 'if n == 0 then 0 else assert n > 0; {R}', lambda d: '0', True),
    ('if-cond', 'if n == 0 then true else if {R} then true else false', lambda d: 'true', False),
    ('binary-lhs', 'if n == 0 then 0 else {R} + 1', lambda d: '%d' % d, False),
    ('binary-rhs', 'if n == 0 then 0 else 1 + {R}', lambda d: '%d' % d, False),
    ('and-rhs', 'if n == 0 then true else true && {R}', lambda d: 'true', False),
    ('or-rhs', 'if n == 0 then false else false || {R}', lambda d: 'false', False),
    ('unary', 'if n == 0 then true else !{R}', lambda d: 'true' if d % 2 == 0 else 'false', False),
    ('array-elem', 'if n == 0 then 0 else [{R}][0]', lambda d: '0', False),
    ('object-field', 'if n == 0 then 0 else {{ a: {R} }}.a', lambda d: '0', False),
    ('call-arg', 'if n == 0 then 0 else id({R})', lambda d: '0', False),
    ('index-expr', 'if n == 0 then 0 else [0][{R}]', lambda d: '0', False),
    ('index-target', 'if n == 0 then [7] else [{R}[0]]', lambda d: '[7]', False),
    ('local-binding', 'if n == 0 then 0 else local v = {R}; v', lambda d: '0', False),
    ('assert-cond', 'if n == 0 then true else assert {R}; true', lambda d: 'true', False),
    ('paren', 'if n == 0 then 0 else ({R})', lambda d: '0', False),
    ('comprehension', 'if n == 0 then 0 else [{R} for i in [1]][0]', lambda d: '0', False),
    ('if-cond-in-binding', 'if n == 0 then true else local v = if {R} then true else false; v', lambda d: 'true', False),
]


def position_family(pos, tailstrict, d, endless=False):
    name, tmpl, exp, tail = pos
    rec = ('f(n + 1)' if endless else 'f(n - 1)') + (' tailstrict' if tailstrict else '')
    body = tmpl.format(R=rec)
    if endless:
        body = body.replace('n == 0', 'n < 0').replace('n != 0', 'n >= 0')
    src = 'local id(x) = x, f(n) = %s; f(%d)' % (body, d)
    f = fam('pos-%s%s' % (name, '-tailstrict' if tailstrict else ''), src, exp(d), depthful=True, infinite=endless)
    f['genuine_tail'] = tail and tailstrict
    f['positional'] = True
    f['hi'] = (3, 12)      # not calibrated per position: between d and 3d+12
    return f



def data_families(d):
    """DATA-shaped depth: the nesting comes from a structure of depth d built by a fold (inheritance layers, thunk
    chains through fields / elements, nested values walked by comparison, conversion, manifestation, builtins)"""
    F = []
    r = 'std.range(1, %d)' % d
    F.append(fam('inh-plus-number', 'std.foldl(function(acc, i) acc + { a+: 1 }, %s, { a: 0 }).a' % r, '%d' % d))
    F.append(fam('inh-plus-array', 'std.length(std.foldl(function(acc, i) acc + { a+: [i] }, %s, { a: [] }).a)' % r, '%d' % d))
    F.append(fam('inh-plus-string', 'std.length(std.foldl(function(acc, i) acc + { a+: "x" }, %s, { a: "" }).a)' % r, '%d' % d))
    F.append(fam('inh-plus-object', 'std.length(std.objectFields(std.foldl(function(acc, i) acc + { a+: { ["k%%d" %% i]: i } }, %s, { a: {} }).a))' % r, '%d' % d))
    F.append(fam('inh-plus-hidden', 'std.foldl(function(acc, i) acc + { a+:: 1 }, %s, { a:: 0 }).a' % r, '%d' % d))
    F.append(fam('inh-super-field', 'std.foldl(function(acc, i) acc + { a: super.a + 1 }, %s, { a: 0 }).a' % r, '%d' % d))
    F.append(fam('inh-super-index', 'std.foldl(function(acc, i) acc + { a: super["a"] + 1 }, %s, { a: 0 }).a' % r, '%d' % d))
    F.append(fam('inh-super-method', 'std.foldl(function(acc, i) acc + { f(x): super.f(x) + 1 }, %s, { f(x): x }).f(0)' % r, '%d' % d))
    F.append(fam('inh-self-override', 'std.foldl(function(acc, i) acc + { ["f%%d" %% i]: self["f%%d" %% (i - 1)] + 1 }, %s, { f0: 0 })["f%d"]' % (r, d), '%d' % d))
    F.append(fam('inh-plus-read-by-self', 'std.foldl(function(acc, i) acc + { a+: 1, b: self.a }, %s, { a: 0, b: 0 }).b' % r, '%d' % d))
    F.append(fam('inh-in-super', 'std.foldl(function(acc, i) acc + { a: if "a" in super then super.a + 1 else 0 }, %s, { a: 0 }).a' % r, '%d' % d))
    F.append(fam('chain-array-elems', 'local a = std.makeArray(%d + 1, function(i) if i == 0 then 0 else a[i - 1] + 1); a[%d]' % (d, d), '%d' % d))
    F.append(fam('chain-object-fields', 'local o = { ["f%%d" %% i]: if i == 0 then 0 else self["f%%d" %% (i - 1)] + 1 for i in std.range(0, %d) }; o["f%d"]' % (d, d), '%d' % d))
    F.append(fam('chain-foldl-thunks', 'std.foldl(function(acc, i) [acc[0] + 1], %s, [0])[0]' % r, '%d' % d))
    F.append(fam('chain-foldr-thunks', 'std.foldr(function(i, acc) [acc[0] + 1], %s, [0])[0]' % r, '%d' % d))
    nest = 'std.foldl(function(a, i) [a], %s, [1])' % r
    nobj = 'std.foldl(function(a, i) { x: a }, %s, { x: 1 })' % r
    # since fix 62ce906 these two count a frame per nesting level like every other walk
    F.append(fam('walk-flatten-deep', 'std.flattenDeepArray(%s)' % nest, '[1]'))
    F.append(fam('walk-deep-join', 'std.deepJoin(std.foldl(function(a, i) [a], %s, ["s"]))' % r, '"s"'))
    F.append(fam('walk-prune', 'std.length(std.toString(std.prune(%s)))' % nest, '%d' % (2 * d + 3)))
    F.append(fam('walk-merge-patch', 'std.length(std.manifestJsonMinified(std.mergePatch(%s, %s)))' % (nobj, nobj), '%d' % (6 * d + 7)))
    F.append(fam('walk-equals-fn', 'std.equals(%s, %s)' % (nest, nest), 'true'))
    F.append(fam('walk-eq-objects', '%s == %s' % (nobj, nobj), 'true'))
    F.append(fam('walk-lt-arrays', '%s < std.foldl(function(a, i) [a], %s, [2])' % (nest, r), 'true'))
    F.append(fam('walk-tostring-obj', 'std.length(std.toString(%s))' % nobj, '%d' % (7 * d + 8)))
    F.append(fam('walk-manifest-json-ex', 'std.length(std.manifestJsonEx(%s, "")) > 0' % nest, 'true'))
    F.append(fam('walk-manifest-toml', 'std.length(std.manifestToml(%s)) > 0' % nobj, 'true'))
    F.append(fam('walk-manifest-yaml-arr', 'std.length(std.manifestYamlDoc(%s)) > 0' % nest, 'true'))
    F.append(fam('walk-manifest-python-obj', 'std.length(std.manifestPython(%s)) > 0' % nobj, 'true'))
    F.append(fam('walk-top-manifest-arr', 'std.foldl(function(a, i) [a], %s, [])' % r, '[' * d + '[ ]' + ']' * d))
    F.append(fam('walk-assert-equal', 'std.assertEqual(%s, %s)' % (nest, nest), 'true'))
    F.append(fam('walk-format-s', 'std.length("%%s" %% [%s])' % nobj, '%d' % (7 * d + 8)))
    return F


def cyclic_programs():
    F = []
    F.append(fam('self-local', 'local a = a; a', None, cyc=1))
    F.append(fam('self-local-arith', 'local a = a + 1; a', None, cyc=1))
    for n in (2, 3, 5, 9, 17, 40):
        F.append(fam('local-cycle-%d' % n, 'local ' + ', '.join('a%d = a%d' % (i, (i + 1) % n) for i in range(n)) + '; a0', None, cyc=n))
        F.append(fam('field-cycle-%d' % n, '{ ' + ', '.join('a%d: self.a%d' % (i, (i + 1) % n) for i in range(n)) + ' }.a0', None, cyc=n))
    F.append(fam('self-field', '{ a: self.a }.a', None, cyc=1))
    F.append(fam('self-field-top', '{ a: self.a }', None, cyc=1))
    F.append(fam('self-field-dollar', '{ a: { b: $.a.b } }.a.b', None, cyc=2))
    F.append(fam('self-array', 'local a = [a[0]]; a[0]', None, cyc=1))
    F.append(fam('self-array-top', 'local a = [a[0]]; a', None, cyc=1))
    F.append(fam('self-super', '{ a: 1 } + { a: self.a + super.a }', None, cyc=1))
    F.append(fam('self-eq', 'local a = [a[0] == 1]; a[0]', None, cyc=1))
    F.append(fam('self-tostring', 'local a = ["" + a]; a[0]', None, cyc=1))
    F.append(fam('self-assert', '{ assert self.a == 1, a: self.b, b: self.a }.a', None, cyc=2))
    F.append(fam('self-length', 'local a = std.length(a); a', None, cyc=1))
    F.append(fam('self-via-function', 'local a = f(1), f(x) = a + x; a', None, cyc=2))
    F.append(fam('inf-call', 'local f(x) = f(x + 1); f(0)', None, infinite=True))
    F.append(fam('inf-mutual', 'local f(x) = g(x), g(x) = f(x); f(0)', None, infinite=True))
    F.append(fam('inf-array', 'local f(x) = [f(x + 1)]; f(0)', None, infinite=True))
    F.append(fam('inf-object', 'local f(x) = { a: f(x + 1) }; f(0)', None, infinite=True))
    # not here: `local f(x) = f(x + 1) tailstrict; f(0)` — tail calls are eliminated (no frame is kept), so it loops
    # without ever exceeding the limit, as in the reference implementations (notes/C10.md)
    F.append(fam('inf-obj-method', '{ f(x): self.f(x + 1) }.f(0)', None, infinite=True))
    F.append(fam('inf-eq', 'local f(x) = [f(x + 1)]; f(0) == f(0)', None, infinite=True))
    F.append(fam('inf-tostring', 'local f(x) = [f(x + 1)]; std.toString(f(0))', None, infinite=True))
    F.append(fam('inf-super', 'local f(o) = f(o + { a: super.a + 1 }); f({ a: 0 }).a', None, infinite=True))
    F.append(fam('inf-stdlib-fold', 'local f(x) = std.foldl(function(a, y) f(y), [x], 0); f(1)', None, infinite=True))
    F.append(fam('inf-map', 'local f(x) = std.map(f, [x])[0]; f(1)', None, infinite=True))
    F.append(fam('inf-sort-key', 'local f(x) = std.sort([x, x], f)[0]; f(1)', None, infinite=True))
    return F


def flat_programs(n):
    """size-n programs whose nesting depth does not depend on n"""
    F = []
    r = 'std.range(1, %d)' % n
    F.append(fam('flat-filter', 'std.length(std.filter(function(x) x > 0, %s))' % r, '%d' % n, flat=True))
    F.append(fam('flat-filtermap', 'std.length(std.filterMap(function(x) x > 0, function(x) x + 1, %s))' % r, '%d' % n, flat=True))
    F.append(fam('flat-map', 'std.length(std.map(function(x) x + 1, %s))' % r, '%d' % n, flat=True))
    F.append(fam('flat-sort-key', 'std.length(std.sort(%s, function(x) -x))' % r, '%d' % n, flat=True))
    F.append(fam('flat-set-key', 'std.length(std.set(%s, function(x) x %% 7))' % r, '%d' % min(n, 7), flat=True))
    F.append(fam('flat-uniq-key', 'std.length(std.uniq(%s, function(x) 0))' % r, '1', flat=True))
    F.append(fam('flat-comprehension', 'std.length([x + 1 for x in %s if x > 0])' % r, '%d' % n, flat=True))
    F.append(fam('flat-array-manifest', 'std.length(std.toString(std.makeArray(%d, function(i) 1)))' % n, '%d' % (3 * n), flat=True))
    F.append(fam('flat-array-top', 'std.makeArray(%d, function(i) 1) == std.makeArray(%d, function(i) 1)' % (n, n), 'true', flat=True))
    F.append(fam('flat-join', 'std.length(std.join(",", std.map(function(x) "a", %s)))' % r, '%d' % (2 * n - 1), flat=True))
    F.append(fam('flat-flatmap', 'std.length(std.flatMap(function(x) [x, x], %s))' % r, '%d' % (2 * n), flat=True))
    F.append(fam('flat-minarray-key', 'std.minArray(%s, function(x) -x)' % r, '%d' % n, flat=True))
    F.append(fam('flat-setunion-key', 'std.length(std.setUnion(%s, %s, function(x) x))' % (r, r), '%d' % n, flat=True))
    F.append(fam('flat-object-fields', 'std.length(std.objectFields({ ["k%%d" %% i]: i for i in %s }))' % r, '%d' % n, flat=True))
    F.append(fam('flat-array-deep-value', 'std.makeArray(%d, function(i) [i])' % n, '[' + ', '.join('[%d]' % i for i in range(n)) + ']', flat=True))
    F.append(fam('flat-all', 'std.all(std.map(function(x) x > 0, %s))' % r, 'true', flat=True))
    return F



ENDLESS_DATA = [   # walks over the infinite lazy values  a = [a]  /  o = { x: o }: every one must end in StackOverflow
    ('toString', 'local a = [a]; std.toString(a)'), ('toString-obj', 'local o = { x: o }; std.toString(o)'),
    ('eq', 'local a = [a]; a == a'), ('eq-obj', 'local o = { x: o }; o == o'), ('lt', 'local a = [a]; a < a'),
    ('top-manifest', 'local a = [a]; a'), ('top-manifest-obj', 'local o = { x: o }; o'),
    ('manifestJson', 'local a = [a]; std.manifestJson(a)'), ('manifestJsonEx', 'local o = { x: o }; std.manifestJsonEx(o, " ")'),
    ('manifestYamlDoc', 'local a = [a]; std.manifestYamlDoc(a)'), ('manifestPython', 'local o = { x: o }; std.manifestPython(o)'),
    ('manifestToml', 'local o = { x: o }; std.manifestToml(o)'), ('manifestYamlStream', 'local a = [a]; std.manifestYamlStream(a)'),
    ('equals', 'local a = [a]; std.equals(a, a)'), ('compare', 'local a = [a]; std.__compare(a, a)'),
    ('assertEqual', 'local a = [a]; std.assertEqual(a, a)'), ('format', 'local a = [a]; "%s" % [a]'),
    ('concat', 'local a = [a]; "" + a'), ('flattenArrays', 'local a = [a]; std.flattenArrays(a)'),
    ('flattenDeepArray', 'local a = [a]; std.flattenDeepArray(a)'), ('deepJoin', 'local a = [a]; std.deepJoin(a)'),
    ('prune', 'local a = [a]; std.prune(a)'), ('prune-obj', 'local o = { x: o }; std.prune(o)'),
    ('mergePatch', 'local o = { x: o }; std.mergePatch(o, o)'), ('sort', 'local a = [a, a]; std.sort(a)'),
    ('set', 'local a = [a, a]; std.set(a)'), ('member', 'local a = [a]; std.member(a, a)'),
    ('count', 'local a = [a]; std.count(a, a)'), ('find', 'local a = [a]; std.find(a, a)'),
    ('contains', 'local a = [a]; std.contains(a, a)'), ('objectValuesDeep', 'local o = { x: o }; std.toString(std.objectValues(o))'),
]


def check_endless_data(run, impl_exe):
    """one process per program, short wall-clock cap and a memory cap: a walk that counts no frame per level never
    reaches the limit (hang or memory exhaustion instead of StackOverflow)"""
    cases = [('e%d' % i, 'eval', ['stack=%x' % 50, src_field(src)]) for i, (_, src) in enumerate(ENDLESS_DATA)]
    res = vlib.run_sharded(impl_exe, [vlib.impl_line(c) for c in cases], timeout=25, shards=len(cases), mem=2 << 30)
    for (cid, _, _), (name, src) in zip(cases, ENDLESS_DATA):
        r = res.get(cid, 'NOOUTPUT')
        run.evaluations += 1
        ic = parse_impl(r)[0]
        run.count('endless_data_' + ic)
        if ic == 'so':
            run.nontrivial.add(('endless-data', name))
        else:
            run.violation('endless-data-walk:' + name, 'walk of an infinite lazy value is not stopped by the frame limit: `%s` under stack=50 answers %s' % (src, r[:50]),
                          {'kind': 'src', 'name': 'endless-' + name, 'depth': 0, 'stack': 50, 'source': src, 'impl': r[:300]})


LIMITS = list(range(1, 65)) + [100, 500, 2000]


def canary(run, impl_exe):
    """unbounded recursions under a small limit, one case per process, short wall-clock cap: when the limit is not
    enforced the evaluator does not terminate, and the big batches below would spend a timeout per case"""
    progs = [f for f in cyclic_programs() if f['infinite']]
    for name, p in shape_programs(3):
        if name.startswith('infinite'):
            progs.append(fam('ds-' + name, js_prog(p), None, infinite=True))
    for pos in POSITIONS:
        for ts in (False, True):
            if not (pos[3] and ts):      # an endless tailstrict tail call legitimately loops without frames
                progs.append(position_family(pos, ts, 1, endless=True))
    cases = [('y%d' % i, 'eval', ['stack=%x' % 30, src_field(f['src'])]) for i, f in enumerate(progs)]
    res = vlib.run_sharded(impl_exe, [vlib.impl_line(c) for c in cases], timeout=90, shards=min(len(cases), 2 * vlib.NCPU))
    ok = True
    for (cid, _, _), f in zip(cases, progs):
        r = res.get(cid, 'NOOUTPUT')
        run.evaluations += 1
        ic = parse_impl(r)[0]
        if ic != 'so':
            ok = False
            key = 'unbounded-recursion-not-stopped' if ic in ('ok', 'inf', 'other') else 'native-failure:' + r.split('\t')[0]
            run.violation(key, 'unbounded recursion %s under stack=30 answers %s instead of StackOverflow' % (f['name'], r[:60]),
                          {'kind': 'src', 'name': f['name'], 'depth': 0, 'stack': 30, 'source': f['src'], 'impl': r[:300]})
    return ok


def check_sweep(run, impl_exe, cli, rng, tier, stops=True):
    depths = [0, 1, 3, 9, 33, 120] if tier == 'quick' else [0, 1, 2, 3, 4, 5, 7, 9, 14, 20, 33, 50, 64, 99, 120, 250, 600]
    jobs = []       # (family dict, d, [limits])
    for d in depths:
        for f in families(d) + data_families(d):
            lim = set([1, 2, 3, 500, 2000, d // 3, f['ratio'] * d - 1, f['ratio'] * d + 10])
            # around the plausible thresholds (one to three frames per level), plus random ones
            for a in (1, 2, 3):
                for b in ((-1, 0, 1, 2, 3, 4, 5, 6) if tier == 'thorough' else (0, 2, 4, 6)):
                    lim.add(a * d + b)
            if tier == 'thorough' and d <= 33:
                lim.update(LIMITS)
            else:
                lim.update(rng.sample(LIMITS, 6))
            jobs.append((f, d, sorted(x for x in lim if 0 <= x)))
    for d in ((40, 150) if tier == 'quick' else (7, 40, 150, 600)):
        for pos in POSITIONS:
            for ts in (False, True):
                f = position_family(pos, ts, d)
                lims = set([5, 30, d // 3, d - 1, d, d + 6, 3 * d + 12, 2000] + rng.sample(range(1, max(2, d)), 2))
                jobs.append((f, d, sorted(x for x in lims if x >= 1)))
    for pos in POSITIONS:       # a genuine tail call keeps no frame: any depth runs under a small limit
        if pos[3]:
            jobs.append((position_family(pos, True, 20000), 20000, [5, 30, 500]))
    for f in cyclic_programs():
        if f['infinite'] and not stops:
            continue
        lim = set(LIMITS if tier == 'thorough' else rng.sample(LIMITS, 8) + [1, 2, 3, 4, 500, 2000])
        if f['cycle']:
            lim.update(range(max(1, f['cycle'] - 2), f['cycle'] + 8))
        jobs.append((f, f['cycle'] or 0, sorted(lim)))
    for n in ([10, 600, 2500] if tier == 'quick' else [10, 70, 600, 2500, 10000]):
        for f in flat_programs(n):
            jobs.append((f, n, [30, 64, 100, 500, 2000]))
    corpus = os.path.join(vlib.VERIF, 'corpus', 'c10_sweep.txt')
    if os.path.exists(corpus):
        for i, l in enumerate(open(corpus)):
            l = l.rstrip('\n')
            if not l or l.startswith('#'):
                continue
            kind, exp, src = l.split('\t', 2)
            if kind == 'finite':
                jobs.insert(0, (fam('corpus-%d' % i, src, exp, flat=True), 0, [30, 64, 100, 500, 2000]))
            elif kind == 'cycle':
                jobs.insert(0, (fam('corpus-%d' % i, src, None, cyc=int(exp)), int(exp), [1, 2, 3, 4, 5, 8, 30, 500, 2000]))
            elif stops:
                jobs.insert(0, (fam('corpus-%d' % i, src, None, infinite=True), 0, [1, 2, 3, 30, 500, 2000]))
    cases, index = [], {}
    for j, (f, d, lims) in enumerate(jobs):
        src = src_field(f['src'])
        for s in lims:
            cid = 'w%d_%x' % (j, s)
            cases.append((cid, 'eval', ['stack=%x' % s, src]))
    res = vlib.run_sharded(impl_exe, [vlib.impl_line(c) for c in cases], timeout=300)
    thresholds = {}
    for j, (f, d, lims) in enumerate(jobs):
        first_ok = None
        seen_inf = False
        for s in lims:
            cid = 'w%d_%x' % (j, s)
            r = res.get(cid, 'NOOUTPUT')
            ic, itext, ntr = parse_impl(r)
            run.evaluations += 1
            run.count('sweep_' + ic)
            replay = {'kind': 'src', 'name': f['name'], 'depth': d, 'stack': s, 'source': f['src'], 'impl': r[:300]}
            where = '%s (depth %d) under stack=%d' % (f['name'], d, s)
            if ic == 'bad':
                run.violation('native-failure:' + r.split('\t')[0], 'evaluation of %s ends with %s instead of a value or a reported error' % (where, r[:60]), replay)
                continue
            if ic == 'other':
                run.violation('unexpected-error-kind', '%s fails with %s (only StackOverflow / InfiniteRecursion are graceful outcomes of deep recursion)' % (where, r.split('\t')[2]), replay)
                continue
            if ic == 'so' and ntr is not None and not (s < ntr <= s + GAIN_BOUND):
                run.violation('overflow-trace-length', 'StackOverflow for %s reported with a trace of %d frames' % (where, ntr), replay)
            if ic == 'inf' and ntr is not None and ntr > s + GAIN_BOUND:
                run.violation('error-trace-exceeds-limit', 'InfiniteRecursion for %s reported with a trace of %d frames' % (where, ntr), replay)
            if f['infinite']:
                if ic != 'so':
                    run.violation('unbounded-recursion-not-stopped', '%s answers %s' % (where, r[:60]), replay)
                run.nontrivial.add((f['name'], 'so'))
                continue
            if f['cycle']:
                if ic == 'ok':
                    run.violation('cycle-not-detected', 'self-dependent value: %s evaluates to %s' % (where, vlib.uncps(itext)[:60]), replay)
                if ic == 'inf':
                    seen_inf = True
                    run.nontrivial.add((f['name'], 'inf'))
                elif seen_inf:
                    run.violation('cycle-outcome-not-monotone', '%s: infinite recursion was reported under a smaller limit, now %s' % (where, ic), replay)
                if ic == 'so' and s >= 3 * f['cycle'] + 8:
                    run.violation('cycle-reported-as-overflow', '%s: a cycle of length %d is reported as stack overflow although the limit is far larger' % (where, f['cycle']), replay)
                continue
            # finite programs
            if ic == 'inf':
                run.violation('spurious-infinite-recursion', '%s reports infinite recursion for a terminating program' % where, replay)
                continue
            if ic == 'ok':
                text = vlib.uncps(itext)
                if f['expect'] is not None and text != f['expect']:
                    run.violation('wrong-value-under-limit', '%s evaluates to %s, expected %s' % (where, text[:60], f['expect']), replay)
                if f['depthful'] and not f['flat'] and not f.get('positional') and s < f['ratio'] * d:
                    run.violation('limit-not-enforced:' + f['name'], '%s: a structure / recursion of depth %d (%d frame(s) per level on the unchanged tree) is walked under a limit of %d frames' % (where, d, f['ratio'], s), replay)
                if f.get('positional') and not f['genuine_tail'] and s <= d:
                    run.violation('limit-not-enforced:' + f['name'], '%s: a recursion of depth %d whose recursive call is not a tailstrict tail call succeeds under a limit of %d frames' % (where, d, s), replay)
                if first_ok is None:
                    first_ok = (s, text)
                elif text != first_ok[1]:
                    run.violation('limit-changes-value', '%s evaluates to %s, but to %s under stack=%d' % (where, text[:60], first_ok[1][:60], first_ok[0]), replay)
                run.nontrivial.add((f['name'], d, 'ok'))
            else:  # so
                if first_ok is not None:
                    run.violation('limit-not-monotone', '%s overflows although it succeeded under stack=%d' % (where, first_ok[0]), replay)
                if f.get('genuine_tail') and s >= 5:
                    run.violation('tail-call-overflows:' + f['name'], '%s: a tailstrict call in tail position keeps no frame, yet the program overflows' % where, replay)
                elif f['flat']:
                    run.violation('flat-loop-counts-as-depth:' + f['name'], '%s: a size-%d program of constant nesting depth overflows' % (where, d), replay)
                elif s >= (f['hi'][0] * d + f['hi'][1] if f['hi'] else (f['ratio'] * d + 10 if f['depthful'] else 3 * d + 12)):
                    run.violation('overflow-above-calibrated-bound:' + f['name'], '%s: overflow although the limit exceeds the calibrated need of the shape' % where, replay)
                run.nontrivial.add((f['name'], d, 'so'))
        if not f['cycle'] and not f['infinite'] and not f['flat']:
            if first_ok is not None and f['depthful'] and not f.get('genuine_tail') and d >= 9 and first_ok[0] < d // 2:
                run.violation('limit-not-enforced', '%s (depth %d) already succeeds under stack=%d: nested frames are not counted' % (f['name'], d, first_ok[0]),
                              {'kind': 'src', 'name': f['name'], 'depth': d, 'stack': first_ok[0], 'source': f['src']})
            thresholds.setdefault(f['name'], []).append((d, first_ok[0] if first_ok else None))
    run.extra['least_succeeding_limit_by_depth'] = {k: v for k, v in sorted(thresholds.items())}
    # ---- the real CLI: exit status / streams on a subset
    tmp = tempfile.mkdtemp(prefix='rsj-verif-c10.')
    try:
        subset = []
        for f in families(20)[:8] + [g for g in cyclic_programs() if stops or not g['infinite']]:
            for s in (3, 15, 500):
                subset.append((f, s))
        if tier == 'quick':
            subset = rng.sample(subset, 40)
        for k, (f, s) in enumerate(subset):
            path = os.path.join(tmp, 'p%d.jsonnet' % k)
            open(path, 'w').write(f['src'])
            cmd = [cli, '-s', str(s), path]
            replay = {'kind': 'cli', 'name': f['name'], 'argv': ['-s', str(s)], 'source': f['src']}
            try:
                p = subprocess.run(cmd, stdout=subprocess.PIPE, stderr=subprocess.PIPE, timeout=60, env=dict(os.environ, NO_COLOR='1'))
            except subprocess.TimeoutExpired:
                run.violation('cli-hang', 'rsjsonnet -s %d hangs on %s' % (s, f['name']), replay)
                continue
            run.evaluations += 1
            err = p.stderr.decode('utf-8', 'replace')
            if p.returncode == 0:
                if f['cycle'] or f['infinite']:
                    run.violation('cli-cycle-exit-0', 'rsjsonnet -s %d exits 0 on %s' % (s, f['name']), replay)
                run.count('cli_ok')
            elif p.returncode == 1:
                first = err.split('\n')[0]
                if p.stdout:
                    run.violation('cli-stdout-on-failure', 'rsjsonnet -s %d writes to stdout and exits 1 on %s' % (s, f['name']), replay)
                if not ('stack overflow' in first or 'infinite recursion' in first):
                    run.violation('cli-unexpected-error', 'rsjsonnet -s %d on %s: %s' % (s, f['name'], first[:80]), replay)
                run.count('cli_graceful_failure')
            else:
                run.violation('cli-native-failure', 'rsjsonnet -s %d on %s exits with status %d: %s' % (s, f['name'], p.returncode, err[-120:]), replay)
        # ---- very large limit, deep finite recursion: the native stack is not used by evaluation
        deep = [('fn-direct', 'local f(x) = if x == 0 then 0 else 1 + f(x - 1); f(%d)', lambda d: '%d' % d),
                ('arr-nest-fold', 'std.length(std.toString(std.foldl(function(a, i) [a], std.range(1, %d), [])))', lambda d: '%d' % (2 * d + 3)),
                ('deep-eq', 'local n(k) = if k == 0 then [1] else [n(k - 1)]; n(%d) == n(%d)', lambda d: 'true'),
                ('obj-nest-top', 'local n(k) = if k == 0 then 1 else { x: n(k - 1) }; std.length(std.manifestJsonMinified(n(%d)))', lambda d: '%d' % (6 * d + 1)),
                ('local-thunk-chain', 'std.foldl(function(a, x) a + x, std.range(1, %d), 0)', lambda d: '%d' % (d * (d + 1) // 2))]
        dd = 100000 if tier == 'quick' else 400000
        procs = []
        for k, (name, tmpl, exp) in enumerate(deep):
            src = tmpl % ((dd,) * tmpl.count('%d'))
            path = os.path.join(tmp, 'deep%d.jsonnet' % k)
            open(path, 'w').write(src)
            cmd = [cli, '-s', '10000000', path]
            procs.append((name, src, exp(dd), subprocess.Popen(cmd, stdout=subprocess.PIPE, stderr=subprocess.PIPE, env=dict(os.environ, NO_COLOR='1'))))
        for name, src, want, p in procs:
            replay = {'kind': 'cli', 'name': 'deep-' + name, 'argv': ['-s', '10000000'], 'source': src}
            try:
                out, err = p.communicate(timeout=280)
            except subprocess.TimeoutExpired:
                p.kill()
                run.violation('deep-recursion-hang:' + name, 'rsjsonnet -s 10000000 does not finish depth %d of %s within 280 s' % (dd, name), replay)
                continue
            run.evaluations += 1
            if p.returncode != 0 or out.decode().strip() != want:
                run.violation('deep-recursion-native-failure:' + name, 'rsjsonnet -s 10000000 on depth %d of %s: exit %d, stdout %r, stderr %r' %
                              (dd, name, p.returncode, out[:40], err[-160:]), replay)
            else:
                run.nontrivial.add(('deep', name, dd))
                run.count('deep_ok')
    finally:
        shutil.rmtree(tmp, ignore_errors=True)



def import_cycle_trees(root):
    """-> list of (name, entry file, kind, expected)  kind = cycle (expected = number of files on the cycle) | value"""
    def w(rel, text):
        path = os.path.join(root, rel)
        os.makedirs(os.path.dirname(path), exist_ok=True)
        open(path, 'w').write(text)
        return path
    T = []
    w('self/a.jsonnet', 'import "a.jsonnet"')
    T.append(('self-import', 'self/a.jsonnet', 'cycle', 1))
    w('two/a.jsonnet', 'import "b.jsonnet"'); w('two/b.jsonnet', 'import "a.jsonnet"')
    T.append(('two-files', 'two/a.jsonnet', 'cycle', 2))
    w('three/a.jsonnet', 'import "b.jsonnet"'); w('three/b.jsonnet', '(import "c.jsonnet") + 1'); w('three/c.jsonnet', '[import "a.jsonnet"][0]')
    T.append(('three-files', 'three/a.jsonnet', 'cycle', 3))
    w('dot/a.jsonnet', 'import "./b.jsonnet"'); w('dot/b.jsonnet', 'import "./a.jsonnet"')
    T.append(('dot-slash', 'dot/a.jsonnet', 'cycle', 2))
    w('updir/a.jsonnet', 'import "sub/b.jsonnet"'); w('updir/sub/b.jsonnet', 'import "../a.jsonnet"')
    T.append(('dotdot', 'updir/a.jsonnet', 'cycle', 2))
    w('zigzag/a.jsonnet', 'import "./sub/../sub/b.jsonnet"'); w('zigzag/sub/b.jsonnet', '{ x: import "../sub/../a.jsonnet" }.x')
    T.append(('dotdot-zigzag', 'zigzag/a.jsonnet', 'cycle', 2))
    pa = w('abs/a.jsonnet', 'import "b.jsonnet"'); w('abs/b.jsonnet', 'import %s' % json.dumps(pa))
    T.append(('absolute', 'abs/a.jsonnet', 'cycle', 2))
    w('deep/a.jsonnet', 'import "x/y/b.jsonnet"'); w('deep/x/y/b.jsonnet', 'import "../../z/c.jsonnet"'); w('deep/z/c.jsonnet', 'import "../a.jsonnet"')
    T.append(('three-dirs', 'deep/a.jsonnet', 'cycle', 3))
    w('link/a.jsonnet', 'import "l.jsonnet"')
    os.symlink('a.jsonnet', os.path.join(root, 'link/l.jsonnet'))
    T.append(('symlinked-file', 'link/a.jsonnet', 'cycle', 1))
    w('linkdir/a.jsonnet', 'import "lsub/b.jsonnet"'); w('linkdir/sub/b.jsonnet', 'import "../a.jsonnet"')
    os.symlink('sub', os.path.join(root, 'linkdir/lsub'))
    T.append(('symlinked-dir', 'linkdir/a.jsonnet', 'cycle', 2))
    w('field/a.jsonnet', '{ v: (import "sub/b.jsonnet").v }.v'); w('field/sub/b.jsonnet', '{ v: import "../a.jsonnet" }')
    T.append(('through-fields', 'field/a.jsonnet', 'cycle', 2))
    # not cycles
    w('str/a.jsonnet', 'std.length(importstr "a.jsonnet")')
    T.append(('importstr-self', 'str/a.jsonnet', 'value', '33'))
    w('bin/a.jsonnet', 'std.length(importbin "a.jsonnet")')
    T.append(('importbin-self', 'bin/a.jsonnet', 'value', '33'))
    w('diamond/a.jsonnet', '(import "b.jsonnet") + (import "sub/c.jsonnet")'); w('diamond/b.jsonnet', '(import "sub/../d.jsonnet") + 1')
    w('diamond/sub/c.jsonnet', '(import "../d.jsonnet") + 2'); w('diamond/d.jsonnet', '10')
    T.append(('diamond', 'diamond/a.jsonnet', 'value', '23'))
    w('lazy/a.jsonnet', '{ x: 1, y: (import "sub/../a.jsonnet").x }'); w('lazy/sub/keep.txt', '')
    T.append(('lazy-self-reference', 'lazy/a.jsonnet', 'value', '{"x":1,"y":1}'))
    return T


def check_import_cycles(run, cli):
    """import cycles through the real CLI: the oracle of C10_cycle_detected — InfiniteRecursion once the limit
    exceeds the cycle, StackOverflow only below it; every spelling of a path names the same file"""
    tmp = tempfile.mkdtemp(prefix='rsj-verif-c10i.')
    try:
        trees = import_cycle_trees(tmp)
        jobs = [(t, s) for t in trees for s in (1, 50, 500)]

        def one(job):
            (name, entry, kind, exp), s = job
            try:
                p = subprocess.run([cli, '-s', str(s), os.path.join(tmp, entry)], stdout=subprocess.PIPE, stderr=subprocess.PIPE,
                                   timeout=60, env=dict(os.environ, NO_COLOR='1'))
                return p.returncode, p.stdout.decode('utf-8', 'replace'), p.stderr.decode('utf-8', 'replace')
            except subprocess.TimeoutExpired:
                return None, '', ''
        from concurrent.futures import ThreadPoolExecutor
        with ThreadPoolExecutor(max_workers=vlib.NCPU) as ex:
            outs = list(ex.map(one, jobs))
        for ((name, entry, kind, exp), s), (rc, out, err) in zip(jobs, outs):
            run.evaluations += 1
            first = err.split('\n')[0]
            replay = {'kind': 'import', 'name': name, 'stack': s, 'entry': entry}
            where = 'import tree %s under -s %d' % (name, s)
            if rc is None or rc not in (0, 1):
                run.violation('import-native-failure:' + name, '%s: %s' % (where, 'hang' if rc is None else 'exit %d %s' % (rc, err[-100:])), replay)
            elif kind == 'cycle':
                if rc == 0:
                    run.violation('import-cycle-not-detected:' + name, '%s evaluates to %s' % (where, out[:40]), replay)
                elif 'infinite recursion' in first:
                    run.nontrivial.add(('import-cycle', name))
                    run.count('import_cycle_inf')
                elif 'stack overflow' in first:
                    run.count('import_cycle_so')
                    if s >= 3 * exp + 8:
                        run.violation('import-cycle-reported-as-overflow:' + name, '%s: a cycle of %d file(s) is reported as stack overflow although the limit is far larger (the same file is not recognised under another spelling of its path)' % (where, exp), replay)
                else:
                    run.violation('import-cycle-unexpected-error:' + name, '%s: %s' % (where, first[:80]), replay)
            else:
                text = out.strip().replace('\n', '').replace(' ', '')
                if rc == 0 and text == exp:
                    run.nontrivial.add(('import-value', name))
                    run.count('import_value_ok')
                elif rc == 1 and 'stack overflow' in first and s < 20:
                    run.count('import_value_so_small_limit')
                else:
                    run.violation('import-non-cycle-fails:' + name, '%s: exit %s, stdout %r, %s (expected %s)' % (where, rc, out[:40], first[:60], exp), replay)
    finally:
        shutil.rmtree(tmp, ignore_errors=True)


# ================================================================ main

def check(run):
    rng = vlib.rng_for(run.seed, ID)
    run.rule = ('ds: DepthSem programs (12 recursion shapes x depths, plus random programs over calls / local thunks / arrays / == / < / toString), '
                'each run by the model without limit (outcome, peak depth p) and by model and implementation under limits around p, p/4 and random ones; '
                'non-trivial = distinct (shape or random program, outcome class) with the implementation answering.  '
                'sweep: 25 recursion families x depths 0..120 (600 thorough) x limits {1..64,100,500,2000} subsampled around 1x/2x/3x depth, '
                '40 self-dependent / unbounded programs x limits, 15 flat size-n programs; non-trivial = distinct (family, depth, outcome class).  '
                'tl: random scripts on the extracted accounting model vs a direct Python reading; cli/deep: real binary.')
    run.assume = ['usize arithmetic of stack_trace_len does not wrap (needs 2^64 pushes); len is an unbounded N in the model',
                  'a handler is abstracted to the word of states it pushes; which words are possible is read from the source text by tools/translate_tracepush.py (textual reader: macros, trait objects and calls through other receivers than self are not followed)',
                  'DepthSem counts at least as many frames as the evaluator on its core (checked per case, not proved): model succeeds under L => implementation succeeds under L; implementation succeeds under s => model depth <= %d*s+%d' % (RATIO, SLACK),
                  'memory and time exhaustion are outside the model; the deep-recursion run uses a wall-clock cap']
    for name, tr in (('T:handler push trees translated from eval/*.rs', translate_words), ('T:call graph translated from eval/*.rs', translate_graph),
                     ('T:tail-position flags translated from analyze.rs', translate_tail)):
        try:
            st = tr(vlib.REPO)
            run.add_obligation(name, True)
            run.extra.setdefault('translator_stats', {})[name] = st
        except Exception as e:
            run.add_obligation(name, False, '%s: %s' % (type(e).__name__, e))
    pres = vlib.prove(ID, THEOREMS, ALLOWED_AXIOMS)
    run.add_proof(pres, THEOREMS)
    impl_exe = vlib.build_harness()
    model_exe = vlib.build_model('tracelen')
    cli = vlib.build_cli()
    check_tracelen_model(run, model_exe, rng, run.tier)
    stops = canary(run, impl_exe)
    check_endless_data(run, impl_exe)
    check_depthsem(run, impl_exe, model_exe, rng, run.tier, stops)
    check_import_cycles(run, cli)
    check_sweep(run, impl_exe, cli, rng, run.tier, stops)


def replay(run, path):
    j = json.load(open(path))
    r = j.get('replay', {})
    kind = r.get('kind') if isinstance(r, dict) else None
    if kind in ('src', 'ds'):
        impl_exe = vlib.build_harness()
        s = r['stack']
        res = vlib.run_lines(impl_exe, ['r0\teval\tstack=%x\t%s' % (s, src_field(r['source']))], timeout=300)
        got = res.get('r0', 'NOOUTPUT')
        print('source:', r['source'][:400])
        print('stack=%d ->' % s, got[:200])
        if kind == 'ds':
            model_exe = vlib.build_model('tracelen')
            p = eval(r['prog'], {'__builtins__': {}}, {})
            m = vlib.run_lines(model_exe, ['r0\tds\t%x\t%x\t%s' % (min(s, BIG), FUEL, wire_prog(p))], timeout=300)
            print('model ->', m.get('r0', '')[:200])
        same = got[:300] == r.get('impl', '')[:300]
        print('REPRODUCED' if same else 'not reproduced (answer changed)')
        return 1 if same else 0
    if kind == 'cli':
        cli = vlib.build_cli()
        tmp = tempfile.mkdtemp(prefix='rsj-verif-c10.')
        try:
            path2 = os.path.join(tmp, 'p.jsonnet')
            open(path2, 'w').write(r['source'])
            p = subprocess.run([cli] + r['argv'] + [path2], stdout=subprocess.PIPE, stderr=subprocess.PIPE, timeout=600)
            print('exit', p.returncode, 'stdout', p.stdout[:80], 'stderr', p.stderr[-200:])
            print('REPRODUCED' if p.returncode not in (0, 1) else 'see output')
            return 1 if p.returncode not in (0, 1) else 0
        finally:
            shutil.rmtree(tmp, ignore_errors=True)
    print('replay file names a broken obligation, not an input:', json.dumps(j.get('no_longer_checks', j), indent=1)[:2000])
    pres = vlib.prove(ID, THEOREMS, ALLOWED_AXIOMS)
    run.add_proof(pres, THEOREMS)
    for f in run.failed_obligations:
        print('STILL FAILING:', f)
    return 1 if run.failed_obligations else 0
