"""C01 — every input is answered with a value or a diagnosed error, never a crash.

Proof:  Props/C01.v — the panic-site inventory obligation (T: current source vs reviewed baseline)
        plus the no-panic theorems of the component models (span manager, crop; the other
        components' no-panic theorems are pinned in their own Props files and listed in notes/C01.md).
Search: whole-pipeline crash search on the implementation: random / mutated source bytes,
        builtin x boundary-value matrix (names and arities discovered from the running
        implementation), ext-var / TLA bindings through the real CLI (exit status in {0,1,2}),
        deep-nesting probes.
"""
import os, sys, re, json, subprocess, tempfile, shutil, glob, itertools
import vlib
from vlib import hx, hxl
sys.path.insert(0, os.path.dirname(os.path.dirname(os.path.abspath(__file__))))
import translate_panics
from props import front_stream
from props import pipeline_stream

ID = 'C01'
COMPONENTS = ['front', 'pipeline']
THEOREMS = ['C01_panic_sites_covered', 'C01_span_no_panic', 'C01_crop_no_panic',
            'C01_front_no_panic', 'C01_front_error_located', 'C01_front_nonvacuous',
            'C01_pipeline_front_verdict', 'C01_refeval_no_panic', 'C01_pipeline_no_panic', 'C01_pipeline_fuel',
            'C01_pipeline_nonvacuous']
ALLOWED_AXIOMS = set()


def translate(repo):
    return translate_panics.main(repo, os.path.join(vlib.COQ, 'Gen', 'PanicSites.v'))


def translate_consts(repo):
    import translate_span
    return translate_span.main(repo, os.path.join(vlib.COQ, 'Gen', 'SpanConsts.v'))


TRANSLATORS = [translate, translate_consts]

# boundary values as Jsonnet expressions, with a type tag
VALUES = [
    ('null', 'null'), ('true', 'bool'), ('false', 'bool'),
    ('""', 'str'), ('"a"', 'str'), ('"é日\U0001d11e"', 'str'), ('"' + '1' * 31 + 'é"', 'str'),
    ('"' + '7' * 32 + '"', 'str'), ('"' + 'f' * 33 + '"', 'str'), ('"' + '0' * 42 + '日"', 'str'),
    ('"%.70000f"', 'str'), ('"%-5s%*d%(k)s"', 'str'), ('"%.0g|%.0e|%#.0f|%.0G"', 'str'), ('"%0*.*d|%+ 05x|%#o|%c"', 'str'),
    ('"%(a)5s|%(a).0g|%(a)-08.3e"', 'str'),
    # non-ASCII members of the Unicode classes that ASCII-only predicates are easily confused with
    ('"\u0664\u0662"', 'str'), ('"-\u0663"', 'str'), ('"\u00b2"', 'str'), ('"\u00bd"', 'str'), ('"1\u0662"', 'str'), ('"\uff11\uff12"', 'str'),
    ('"\u00a0x\u2003"', 'str'), ('"\u00df\u0130\u01c5"', 'str'), ('"a\u0301\u200b"', 'str'), ('"\\ud83d\\ude00"', 'str'), ('" \\t\\n"', 'str'), ('"{\\"a\\": [1, 2"', 'str'),
    ('"a: &x [*x]"', 'str'), ('"-"', 'str'), ('"\\u0000\\u001f"', 'str'),
    ('0', 'num'), ('-0', 'num'), ('5e-324', 'num'), ('1.7976931348623157e308', 'num'), ('-1.7976931348623157e308', 'num'),
    ('9007199254740991', 'num'), ('9007199254740992', 'num'), ('9007199254740993', 'num'),
    ('2147483648', 'num'), ('4294967296', 'num'), ('9223372036854775808', 'num'), ('18446744073709551616', 'num'),
    ('-1', 'num'), ('0.5', 'num'), ('1.5', 'num'), ('-2.5', 'num'), ('3', 'num'), ('65535', 'num'), ('65536', 'num'), ('70000', 'num'),
    ('[]', 'arr'), ('[1, "a", null]', 'arr'), ('[[1], [2]]', 'arr'), ('[3, 1, 2]', 'arr'), ('["b", "a"]', 'arr'), ('[255, 0, 128]', 'arr'),
    ('{}', 'obj'), ('{a: 1}', 'obj'), ('{a:: 1, b: 2}', 'obj'), ('{a: {b: [1]}}', 'obj'),
    # heterogeneous / awkward structures for the manifesters and structural builtins
    ('{a: [{b: 1}, 2]}', 'obj'), ('{a: [[1], {b: 2}], "c d": {"e.f": null}}', 'obj'), ('{a: [{b: 1}, {c: [{d: 1}, "x"]}], "": 1}', 'obj'),
    ('[{a: 1}, 2, [3, {b: []}]]', 'arr'), ('[[], {}, null, [null]]', 'arr'), ('{a: function(x) x}', 'obj'), ('{["k" + i]: i for i in [1, 2]}', 'obj'),
    ('{a: 1} + {a+: 2, b::: 3}', 'obj'), ('["tag", {"k": "v", "q\"": 1}, "text", ["br"]]', 'arr'),
    ('function(x) x', 'fun'), ('function(x, y) x', 'fun'), ('function(x) error "e"', 'fun'),
]
HUGE = re.compile(r'^-?(1\.797|9007199|2147483648|4294967296|9223372|18446744|65535|65536|70000)')

KNOWN_RESOURCE = ('memory allocation', 'capacity overflow', 'allocation failed', 'alloc')


def classify(res):
    f = res.split('\t')
    return f[0]


def is_resource(res, args, src=None):
    """crash/timeout attributable to asking for an astronomically large result (outside every model).
    Only when the input actually contains a huge count: an allocation failure / capacity overflow on
    small arguments (e.g. a wrapped subtraction used as a repeat count) is a crash like any other."""
    txt = res.lower()
    huge = any(HUGE.match(a) for a in args)
    if src is not None:
        huge = huge or bool(re.search(rb'\d{6,}|\d[eE]\+?\d', src))
    if not huge:
        return False
    if any(k in txt for k in KNOWN_RESOURCE):
        return True
    if res.startswith('TIMEOUT'):
        return True
    return False


def std_names(impl_exe):
    src = b'std.objectFieldsAll(std)'
    r = vlib.run_lines(impl_exe, ['n\teval\t\t' + hxl(list(src))])['n'].split('\t')
    if r[0] != 'OK':
        raise RuntimeError('cannot list std: ' + '\t'.join(r)[:200])
    return json.loads(vlib.uncps(r[1]))


def probe_arities(impl_exe, names):
    """arity range of every std member, discovered by calling with k nulls"""
    cases = []
    for n in names:
        cases.append(('t/' + n, 'eval', ['', hxl(list(('std.type(std.%s)' % n).encode()))]))
        for k in range(0, 8):
            prog = 'std.%s(%s)' % (n, ', '.join(['null'] * k))
            cases.append(('a/%s/%d' % (n, k), 'eval', ['', hxl(list(prog.encode()))]))
    res = vlib.run_sharded(impl_exe, [vlib.impl_line(c) for c in cases], timeout=120)
    ar = {}
    for n in names:
        t = res.get('t/' + n, '').split('\t')
        if len(t) < 2 or t[0] != 'OK' or vlib.uncps(t[1]) != '"function"':
            continue
        ok = []
        for k in range(0, 8):
            f = res.get('a/%s/%d' % (n, k), '').split('\t')
            if len(f) >= 3 and f[0] == 'ERR' and f[2] in ('TooManyCallArgs', 'CallParamNotBound'):
                continue
            ok.append(k)
        if ok:
            ar[n] = (min(ok), max(ok))
    return ar


def matrix_cases(rng, arities, tier):
    budget = 40000 if tier == 'quick' else 600000
    per_fn = max(60, budget // max(1, len(arities)))
    cases = []
    idx = 0
    for n in sorted(arities):
        lo, hi = arities[n]
        combos = []
        for k in range(lo, hi + 1):
            if k == 0:
                combos.append(())
            elif len(VALUES) ** k <= per_fn:
                combos += list(itertools.product(range(len(VALUES)), repeat=k))
            else:
                for _ in range(per_fn // (hi - lo + 1)):
                    combos.append(tuple(rng.randrange(len(VALUES)) for _ in range(k)))
        if len(combos) > per_fn:
            combos = rng.sample(combos, per_fn)
        for c in combos:
            args = [VALUES[i][0] for i in c]
            prog = 'std.%s(%s)' % (n, ', '.join(args))
            cases.append(('m%d' % idx, 'eval', ['stack=1f4', hxl(list(prog.encode('utf-8')))],
                          {'fn': n, 'args': args, 'types': tuple(VALUES[i][1] for i in c), 'prog': prog}))
            idx += 1
    return cases


def source_cases(rng, tier):
    files = sorted(glob.glob(os.path.join(vlib.REPO, 'ui-tests', '**', '*.jsonnet'), recursive=True))
    corpus = []
    for f in files:
        try:
            corpus.append(open(f, 'rb').read())
        except Exception:
            pass
    n = 3000 if tier == 'quick' else 60000
    cases = []
    toks = [b'{', b'}', b'[', b']', b'(', b')', b'local ', b'function', b'self', b'super', b'$', b'|||', b'"', b"'", b'\\u', b'@"',
            b'+:', b':::', b'for ', b' in ', b'if ', b'error ', b'assert ', b'import ', b'tailstrict', b'0x', b'1e999', b'1_', b'.', b'//', b'/*',
            b'\xff', b'\xc1\x81', b'\xed\xa0\x80', b'\xf4\x90\x80\x80', b'\xe6\x97', b'\r\n', b'\t', b'\x00',
            b'\xcd\xa1', b'\xe2\x80\x8b', b'\xcc\x81', b'\xe2\x80\x8d', b'\xef\xbb\xbf', b'\xf0\x9d\x84\x9e', b'\xe2\x80\xa8']
    for i in range(n):
        r = rng.random()
        if r < 0.15 or not corpus:
            src = bytes(rng.randrange(256) for _ in range(rng.randint(0, 60)))
        elif r < 0.3:
            src = b''.join(rng.choice(toks) for _ in range(rng.randint(1, 30)))
        else:
            src = bytearray(rng.choice(corpus))
            if len(src) > 4000:
                src = src[:4000]
            for _ in range(rng.randint(1, 4)):
                k = rng.random()
                pos = rng.randrange(len(src) + 1)
                if k < 0.3 and src:
                    del src[pos:pos + rng.randint(1, 8)]
                elif k < 0.6:
                    src[pos:pos] = rng.choice(toks)
                elif k < 0.8 and src:
                    src[min(pos, len(src) - 1)] = rng.randrange(256)
                else:
                    a = rng.randrange(len(src) + 1)
                    src[pos:pos] = src[a:a + rng.randint(1, 20)]
            src = bytes(src)
        cases.append(('b%d' % i, 'eval', ['stack=%x' % rng.choice([500, 50, 5]), hxl(list(src))], {'src': src}))
    return cases


def syntax_family_cases(rng, tier):
    """enumerative family over object bodies and comprehension forms: every field separator on computed /
    identifier / string / method fields, with locals and asserts before and after, with and without a
    trailing `for` / `if` spec — well-formed or not, the answer must be a value or a diagnosed error"""
    seps = [':', '::', ':::', '+:', '+::', '+:::']
    names = ['[k]', 'a', '"s"', '[null]', 'm(x)', '["a" + k]']
    pres = ['', 'local v = 1, ', 'assert true, ', 'b: 2, ']
    posts = ['', ', local w = 2', ', assert true', ', c: 3', ',']
    tails = ['', ' for k in ["x", "y"]', ' for k in ["x"] if k != "q"', ' for k in [] for j in [1]', ' if true', ' for k in']
    progs = []
    for sep in seps:
        for nm in names:
            for pre in pres:
                for post in posts:
                    for tail in tails:
                        progs.append('{ %s%s%s 1%s%s }' % (pre, nm, sep, post, tail))
    if tier == 'quick':
        progs = rng.sample(progs, 1200)
    # array comprehension / slice / call oddities
    progs += ['[x for x in [1] if]', '[x for]', '[1 for x in [1],]', '[x, for x in [1]]', 'a[::]', 'a[:::]', '[1][0:1:1:1]', 'f(x=1, 2)', 'f(,)',
              'local = 1; 2', 'function(x,) x', 'function(x=) x', '{ a: 1 }{ b: 2 }{', 'x tailstrict', 'f() tailstrict tailstrict', 'e in super.f', '"a" in super',
              'import "a" + "b"', 'importstr |||\n a\n|||', 'if then else', 'assert ; 1', 'error', '- - -', '!~-+1', '1 < 2 < 3', 'a.b.c.', '$.a', 'self.a', 'super']
    return [('y%d' % i, 'eval', ['stack=32', hxl(list(p.encode()))], {'src': p.encode()}) for i, p in enumerate(progs)]


def run_cases(run, impl_exe, cases, label, shards, mem):
    res = vlib.run_sharded(impl_exe, [vlib.impl_line(c) for c in cases], timeout=300, shards=shards,
                           env={'VERIF_PANIC_MSG': '1'}, mem=mem)
    for cid, comp, fields, meta in cases:
        r = res.get(cid, 'NOOUTPUT')
        run.evaluations += 1
        cls = classify(r)
        f = r.split('\t')
        if cls in ('PANIC', 'CRASH', 'TIMEOUT', 'NOOUTPUT'):
            args = meta.get('args', [])
            if is_resource(r, args, meta.get('src')):
                run.count(label + '_resource_exhaustion(outside model)')
                continue
            key, what = finding_key(meta, r)
            run.violation(key, what, {'kind': 'eval', 'opts': fields[0], 'source_hex': fields[1],
                                      'program': meta.get('prog', repr(meta.get('src'))[:300]), 'result': r[:300]})
            continue
        oc = 'OK' if cls == 'OK' else 'ERR:' + (f[1] if len(f) > 1 else '?') + ':' + (f[2] if len(f) > 2 else '?')
        if 'fn' in meta:
            run.nontrivial.add((meta['fn'], meta['types'], oc))
        else:
            run.nontrivial.add((label, oc, len(meta.get('src', b'')) // 64))
        run.count(label + '_' + oc.split(':')[0] + (':' + oc.split(':')[1] if ':' in oc else ''))
        if len(run.samples) < 6 and run.evaluations % 997 == 3:
            run.samples.append({'stream': label, 'program': meta.get('prog', repr(meta.get('src'))[:120]), 'outcome': oc})


def finding_key(meta, r):
    """a specific key per failure class: function name (builtin matrix) or panic location (source streams)"""
    f = r.split('\t')
    loc = ''
    if f[0] == 'PANIC' and len(f) > 1:
        m = re.search(r'@ (\S+?):(\d+)$', f[1])
        loc = (os.path.basename(m.group(1)) if m else '') + ':' + f[1].split(' @ ')[0][:60]
    elif f[0] == 'CRASH':
        loc = 'crash:' + (f[2][:60] if len(f) > 2 else f[1] if len(f) > 1 else '')
    else:
        loc = f[0]
    if 'fn' in meta:
        key = 'std.%s:%s' % (meta['fn'], loc)
        what = 'std.%s(%s) -> %s' % (meta['fn'], ', '.join(a[:40] for a in meta['args']), r[:160])
    else:
        key = 'source:%s' % loc
        what = 'source %r -> %s' % (meta.get('src', b'')[:80], r[:160])
    return key, what


DEEP_SHAPES = ['obj', 'local', 'paren', 'array', 'if', 'func', 'fieldchain', 'indexchain', 'callchain', 'binchain', 'unary',
               'objext', 'arraycomp', 'assert', 'error']


def deep_source(shape, d):
    """source text whose syntax tree is d levels deep, in different grammatical shapes"""
    if shape == 'obj':
        return '{a:' * d + '1' + '}' * d
    if shape == 'local':
        return 'local a = ' * d + '1' + '; a' * d
    if shape == 'paren':
        return '(' * d + '1' + ')' * d
    if shape == 'array':
        return '[' * d + ']' * d
    if shape == 'if':
        return 'if true then ' * d + '1'
    if shape == 'func':
        return 'local f = ' + 'function(x) ' * d + '1; 1'
    if shape == 'fieldchain':
        return 'local x = {a: self}; x' + '.a' * d + '.a == null'
    if shape == 'indexchain':
        return 'local x = {a: self}; x' + '["a"]' * d + '.a == null'
    if shape == 'callchain':
        return 'local f(x) = f; std.type(f' + '(1)' * d + ')'
    if shape == 'binchain':
        return '1' + '+1' * d
    if shape == 'unary':
        return '-' * d + '1'
    if shape == 'objext':
        return '{}' + ' {a: 1}' * d
    if shape == 'arraycomp':
        return '[1 for x in ' * d + '[1]' + ']' * d + ' == null'
    if shape == 'assert':
        return 'assert true; ' * d + '1'
    if shape == 'error':
        return 'local x = ' + 'error ' * d + '"e"; 1'
    raise ValueError(shape)


def cli_stream(run, cli, rng, tier):
    """exit status is always 0, 1 or 2: programs x ext-var/TLA bindings through the real binary;
    plus the deep-nesting probes (native recursion of the parser)"""
    tmp = tempfile.mkdtemp(prefix='rsj-verif-c01.')
    try:
        progs = [
            ('std.extVar("v")', []), ('function(a, b=2) [a, b]', []), ('std.extVar("v") + std.extVar("w")', []),
            ('error std.extVar("v")', []), ('{[std.extVar("v")]: 1}', []), ('std.parseJson(std.extVar("v"))', []),
            ('std.format(std.extVar("v"), [1])', []), ('function(a) std.parseHex(a)', []), ('function(a) a', []),
        ]
        vals = ['', 'x', '=', 'a=b=c', '"q"', "it's", 'l1\nl2', 'é日\U0001d11e', '1' * 31 + 'é', '%.70000f', '{', '1+', '\x7f']
        kinds = ['-V', '--ext-code', '-A', '--tla-code']
        jobs = []
        n = 60 if tier == 'quick' else 1200
        for i in range(n):
            p = rng.choice(progs)[0]
            argv = []
            for _ in range(rng.randint(0, 3)):
                k = rng.choice(kinds)
                name = rng.choice(['v', 'w', 'a', 'b', 'zz'])
                val = rng.choice(vals)
                argv += [k, name + '=' + val] if rng.random() < 0.85 else [k, name]
            mode = rng.choice([[], ['-S'], ['-y'], ['--no-trailing-newline'], ['-t', '1'], ['-s', '3']])
            jobs.append((mode + argv + ['-e', p], None))
        # every pair of binding kinds giving the SAME name twice (ext and TLA families): a diagnosed error, never a crash
        open(os.path.join(tmp, 'val.txt'), 'w').write('1')
        ext_kinds = [('--ext-str', 'x=a'), ('--ext-str-file', 'x=' + os.path.join(tmp, 'val.txt')),
                     ('--ext-code', 'x=1'), ('--ext-code-file', 'x=' + os.path.join(tmp, 'val.txt'))]
        tla_kinds = [('--tla-str', 'x=a'), ('--tla-str-file', 'x=' + os.path.join(tmp, 'val.txt')),
                     ('--tla-code', 'x=1'), ('--tla-code-file', 'x=' + os.path.join(tmp, 'val.txt'))]
        for fam, prog in ((ext_kinds, 'std.extVar("x")'), (tla_kinds, 'function(x) x')):
            for k1, v1 in fam:
                for k2, v2 in fam:
                    jobs.append(([k1, v1, k2, v2, '-e', prog], None))
        # deep nesting probes (source text nested d levels) -> native recursion in the parser
        for d in ([300, 3000] if tier == 'quick' else [300, 3000, 30000]) + [200000]:
            for shape in DEEP_SHAPES:
                if shape in ('array', 'arrayidx') and d > 3000:
                    continue   # manifestation of [[[...]]] is quadratic: slow, not a crash
                path = os.path.join(tmp, 'deep_%s_%d.jsonnet' % (shape, d))
                open(path, 'w').write(deep_source(shape, d))
                jobs.append((['-s', '10000000', path], ('deep', shape, d)))

        # a sample of the source streams as files through the real binary: the diagnostic must render
        k = 0
        for cid, comp, fields, meta in source_cases(vlib.rng_for(run.seed, ID + '/cli-src'), 'quick')[:(250 if tier == 'quick' else 3000)]:
            path = os.path.join(tmp, 'src_%d.jsonnet' % k)
            k += 1
            open(path, 'wb').write(meta['src'])
            jobs.append((['-s', '50', path], ('src', meta['src'])))

        def one(job):
            argv, tag = job
            try:
                env = dict(os.environ)
                env['NO_COLOR'] = '1'
                env.pop('RUST_BACKTRACE', None)
                p = subprocess.run([cli] + argv, stdout=subprocess.PIPE, stderr=subprocess.PIPE, timeout=120, env=env)
                err = p.stderr.decode('utf-8', 'replace')
                # keep the panic message line (if any) plus the tail
                pm = [l for l in err.split('\n') if 'panicked at' in l or 'assertion' in l or 'overflowed its stack' in l]
                return job, p.returncode, ' | '.join(pm[:3]) + ' | ' + err[-300:]
            except subprocess.TimeoutExpired:
                return job, 'timeout', ''
        from concurrent.futures import ThreadPoolExecutor
        with ThreadPoolExecutor(max_workers=8) as ex:
            for (argv, tag), rc, err in ex.map(one, jobs):
                run.evaluations += 1
                if rc in (0, 1, 2):
                    run.count('cli_exit_%d' % rc)
                    run.nontrivial.add(('cli', rc, tuple(a for a in argv if a.startswith('-'))[:4], (tag[1] if tag[0] == 'deep' else len(tag[1]) // 32) if tag else ''))
                    continue
                if tag and tag[0] == 'src':
                    if 'end_col > annot.span.start_col' in err:
                        key = 'renderer-zero-width-span'
                        what = 'report rendering aborts (exit %s) on a span of zero-width characters: %r' % (rc, tag[1][:80])
                    else:
                        key = 'cli-source-crash:%s' % (err.strip().split('\n')[-1][:50])
                        what = 'exit status %s for source %r (%s)' % (rc, tag[1][:80], err.strip()[-120:])
                    run.violation(key, what, {'kind': 'clisrc', 'source_hex': hxl(list(tag[1]))})
                elif tag:
                    key = 'native-recursion:%s' % tag[1]
                    what = 'source nested %d levels (%s): exit status %s (%s)' % (tag[2], tag[1], rc, err.strip().split('\n')[-1][:100])
                    run.violation(key, what, {'kind': 'deep', 'shape': tag[1], 'depth': tag[2]})
                else:
                    run.violation('cli-exit:%s' % rc, 'exit status %s for argv %r (%s)' % (rc, argv, err.strip()[-120:]),
                                  {'kind': 'cli', 'argv': argv})
    finally:
        shutil.rmtree(tmp, ignore_errors=True)


def check(run):
    rng = vlib.rng_for(run.seed, ID)
    run.rule = ('(a) source streams: random bytes, token soups, mutated ui-tests corpus through load/eval/manifest (library, panics caught; '
                'aborts/hangs attributed to the case); (b) builtin matrix: every function member of the running `std` (names by '
                'std.objectFieldsAll, arities probed) x boundary values %d (arity<=2 exhaustive within budget, else sampled); (c) real CLI with '
                'ext-var/TLA bindings and deep-nesting probes: exit status in {0,1,2}.  non-trivial = distinct (function, argument-type vector, '
                'outcome class) / (stream, outcome class, size bucket).' % len(VALUES))
    run.assume = ['memory exhaustion when a program asks for an astronomically large value (std.repeat("x", 2^31)) is outside every model: such crashes are counted, not reported',
                  'the evaluator\'s explicit-stack push/pop discipline is exercised by these streams, not proved',
                  'the panic-site inventory is a change detector over explicit panic macros/unwraps, not a proof of their unreachability; the per-component no-panic theorems are listed in notes/C01.md']
    for name, tr in (('T:panic-site inventory', translate), ('T:span constants', translate_consts)):
        try:
            tr(vlib.REPO)
            run.add_obligation(name, True)
        except Exception as e:
            run.add_obligation(name, False, str(e))
    pres = vlib.prove(ID, THEOREMS, ALLOWED_AXIOMS)
    run.add_proof(pres, THEOREMS)
    impl_exe = vlib.build_harness()
    cli = vlib.build_cli()
    names = std_names(impl_exe)
    ar = probe_arities(impl_exe, names)
    run.extra['std_functions'] = len(ar)
    run.extra['std_members'] = len(names)
    front_stream.run_front_stream(run, impl_exe, vlib.rng_for(run.seed, ID + '-front'), run.tier)   # composed front-end model vs load_source, from bytes
    run_cases(run, impl_exe, source_cases(rng, run.tier), 'src', shards=vlib.NCPU, mem=3 << 30)
    run_cases(run, impl_exe, syntax_family_cases(rng, run.tier), 'syn', shards=vlib.NCPU, mem=3 << 30)
    run_cases(run, impl_exe, matrix_cases(rng, ar, run.tier), 'std', shards=8, mem=3 << 30)
    cli_stream(run, cli, rng, run.tier)
    pipeline_stream.run_pipeline_stream(run, impl_exe, vlib.rng_for(run.seed, ID + '-pipeline'), run.tier)   # whole pipeline from bytes: Front + RefEval vs eval


def replay(run, path):
    j = json.load(open(path))
    r = j.get('replay', {})
    impl_exe = vlib.build_harness()
    if isinstance(r, dict) and r.get('kind') == 'eval':
        res = vlib.run_lines(impl_exe, ['r0\teval\t%s\t%s' % (r['opts'], r['source_hex'])], timeout=300,
                             env={'VERIF_PANIC_MSG': '1'}, mem=3 << 30)['r0']
        print('result:', res[:300])
        bad = res.split('\t')[0] in ('PANIC', 'CRASH', 'TIMEOUT', 'NOOUTPUT')
        print('REPRODUCED' if bad else 'not reproduced')
        return 1 if bad else 0
    if isinstance(r, dict) and r.get('kind') == 'front':
        return front_stream.replay_front(run, r, impl_exe)
    if isinstance(r, dict) and r.get('kind') == 'pipeline':
        return pipeline_stream.replay_pipeline(run, r, impl_exe)
    if isinstance(r, dict) and r.get('kind') == 'deep':
        cli = vlib.build_cli()
        tmp = tempfile.mkdtemp(prefix='rsj-verif-c01.')
        try:
            d, shape = r['depth'], r['shape']
            src = deep_source(shape, d)
            p = os.path.join(tmp, 'deep.jsonnet')
            open(p, 'w').write(src)
            rc = subprocess.run([cli, '-s', '10000000', p], stdout=subprocess.PIPE, stderr=subprocess.PIPE).returncode
            print('exit status', rc)
            print('REPRODUCED' if rc not in (0, 1, 2) else 'not reproduced')
            return 0 if rc in (0, 1, 2) else 1
        finally:
            shutil.rmtree(tmp, ignore_errors=True)
    if isinstance(r, dict) and r.get('kind') == 'clisrc':
        cli = vlib.build_cli()
        tmp = tempfile.mkdtemp(prefix='rsj-verif-c01.')
        try:
            p = os.path.join(tmp, 'src.jsonnet')
            open(p, 'wb').write(bytes(int(x, 16) for x in r['source_hex'].split(',')) if r['source_hex'] else b'')
            rc = subprocess.run([cli, '-s', '50', p], stdout=subprocess.PIPE, stderr=subprocess.PIPE).returncode
            print('exit status', rc)
            print('REPRODUCED' if rc not in (0, 1, 2) else 'not reproduced')
            return 0 if rc in (0, 1, 2) else 1
        finally:
            shutil.rmtree(tmp, ignore_errors=True)
    if isinstance(r, dict) and r.get('kind') == 'cli':
        cli = vlib.build_cli()
        rc = subprocess.run([cli] + r['argv'], stdout=subprocess.PIPE, stderr=subprocess.PIPE).returncode
        print('exit status', rc)
        return 0 if rc in (0, 1, 2) else 1
    print('replay file names a broken obligation:', json.dumps(j.get('no_longer_checks', j), indent=1)[:2000])
    pres = vlib.prove(ID, THEOREMS, ALLOWED_AXIOMS)
    return 0 if pres['ok'] else 1
