"""C17 — sorting and set functions meet their mathematical contracts.

Proof:  Props/C17.v over Model/Sort.v and Model/SetOps.v (std.sort as coded: merge
        sort above 30 elements, stable first-pivot partition below; uniq, set, the
        two-index walks, the binary search, the min/max scans).
K:      every generated call is evaluated by the real evaluator (harness component
        `eval`, program text `std.sort(arr, keyF)` ...) and by the extracted model on
        the key script of the same case; results are compared index for index,
        errors by identity (which comparison / which keyF call failed first).
Search: Python definitions (stable sorted, adjacent-duplicate removal, set algebra,
        first minimum / maximum) applied to the implementation's answers alone.
"""
import os, sys, json, zlib
import vlib
from vlib import hxl

ID = 'C17'
COMPONENTS = ['sort']
THEOREMS = [
    'C17_sort_total', 'C17_sort_perm', 'C17_sort_sorted', 'C17_sort_stable', 'C17_sort_idx_spec', 'C17_sort_rearranges',
    'C17_sort_fuel_sufficient', 'C17_sort_error_propagates', 'C17_sort_keyf_error_propagates',
    'C17_uniq_spec', 'C17_uniq_no_adjacent_duplicates', 'C17_set_is_uniq_sort', 'C17_set_spec',
    'C17_union_spec', 'C17_inter_spec', 'C17_diff_spec', 'C17_member_spec',
    'C17_minArray_first_min', 'C17_maxArray_first_max', 'C17_set_functions_no_panic', 'C17_run_sort_numkeys_spec',
    'C17_nonvacuous_sort', 'C17_nonvacuous_uniq', 'C17_nonvacuous_sets', 'C17_nonvacuous_member_minmax',
]
ALLOWED_AXIOMS = set()
TRANSLATORS = []

TY = {'z': 0, 'b': 1, 'n': 2, 's': 3, 'a': 4, 'as': 4, 'o': 5, 'f': 6}
TYNAME = {'Null': 0, 'Bool': 1, 'Number': 2, 'String': 3, 'Array': 4, 'Object': 5, 'Function': 6}
COMPARABLE = (2, 3, 4)
KERR_BASE = 0x10000
TWO = ('inter', 'union', 'diff')
ONE = ('sort', 'uniq', 'set', 'uniqsort', 'min', 'max')


# ---------------------------------------------------------------- values

def num_text(v):
    if isinstance(v, int):
        return '%d' % v if v >= 0 else '(%d)' % v
    r = repr(float(v))
    return r if v >= 0 else '(%s)' % r


def key_text(k):
    t = k[0]
    if t == 'n':
        return num_text(k[1])
    if t == 's':
        return json.dumps(k[1], ensure_ascii=False)
    if t == 'a':
        return '[' + ', '.join(num_text(x) for x in k[1]) + ']'
    if t == 'as':
        return '[' + ', '.join(json.dumps(x, ensure_ascii=False) for x in k[1]) + ']'
    if t == 'z':
        return 'null'
    if t == 'b':
        return 'true' if k[1] else 'false'
    if t == 'o':
        return '{a: %d}' % k[1]
    if t == 'f':
        return '(function(q) q + %d)' % k[1]
    raise ValueError(k)


def key_json(k):
    """the value as json.loads of the manifested output would give it"""
    t = k[0]
    if t in ('n', 's', 'b'):
        return k[1]
    if t in ('a', 'as'):
        return list(k[1])
    if t == 'z':
        return None
    if t == 'o':
        return {'a': k[1]}
    raise ValueError('not manifestable')


def sortable(k):
    t = k[0]
    if t in ('a', 'as'):
        return tuple(k[1])
    if t == 'z':
        return 0
    return k[1]


def ranks(keys):
    """rank of every key among the distinct values of its type in the case"""
    ck = id(keys)
    hit = _RANKS.get(ck)
    if hit is not None and hit[0] is keys:
        return hit[1]
    r = ranks_uncached(keys)
    if len(_RANKS) > 20000:
        _RANKS.clear()
    _RANKS[ck] = (keys, r)
    return r


_RANKS = {}


def ranks_uncached(keys):
    by = {}
    for k in keys:
        by.setdefault(TY[k[0]], set()).add(sortable(k))
    table = {t: {v: i for i, v in enumerate(sorted(vs))} for t, vs in by.items()}
    return [(TY[k[0]], table[TY[k[0]]][sortable(k)]) for k in keys]


# ---------------------------------------------------------------- a case
# case = {'op', 'mode': id|proj|trap|kerr, 'a': [key..], 'b': [key..] (two-array ops),
#         'x': key (member), 'errtags': [tags] (kerr), 'onempty': bool (min/max)}
# Elements are tagged 0..: a first, then b; for member x is tag 0 and arr 1.. .

def all_keys(case):
    k = case.get('_keys')
    if k is None:
        k = ([case['x']] + case['a']) if case['op'] == 'member' else (case['a'] + case.get('b', []))
        case['_keys'] = k
    return k


def public(case):
    return {k: v for k, v in case.items() if not k.startswith('_')}


def keyf_text(case):
    m = case['mode']
    if m == 'id':
        return None
    # every application of keyF is recorded with std.trace ("c<tag>"): the order and number of calls is compared
    # with the model's
    if m == 'proj':
        return 'function(x) if std.trace("c" + x[1], true) then x[0] else null'
    if m == 'trap':
        return 'function(x) if std.trace("c" + x[1], true) then [x[0], error ("T" + x[1])] else null'
    if m == 'kerr':
        return ('function(x) if std.trace("c" + x[1], true) then (if std.member(%s, x[1]) then error ("K" + x[1]) else x[0]) else null'
                % json.dumps(sorted(case['errtags'])))
    raise ValueError(m)


def program(case):
    op, mode = case['op'], case['mode']
    keys = all_keys(case)

    def elem(i):
        return key_text(keys[i]) if mode == 'id' else '[%s, %d]' % (key_text(keys[i]), i)

    kf = keyf_text(case)
    kfa = '' if kf is None else ', keyF'
    out = (lambda e: e) if mode == 'id' else (lambda e: 'std.map(function(x) x[1], %s)' % e)
    pre = '' if kf is None else 'local keyF = %s;\n' % kf
    na = len(case['a'])
    if op == 'member':
        pre += 'local x = %s;\nlocal arr = [%s];\n' % (elem(0), ', '.join(elem(i) for i in range(1, len(keys))))
        return pre + 'std.setMember(x, arr%s)' % kfa
    pre += 'local a = [%s];\n' % ', '.join(elem(i) for i in range(na))
    if op in TWO:
        pre += 'local b = [%s];\n' % ', '.join(elem(i) for i in range(na, len(keys)))
        fn = {'inter': 'setInter', 'union': 'setUnion', 'diff': 'setDiff'}[op]
        return pre + out('std.%s(a, b%s)' % (fn, kfa))
    if op in ('sort', 'uniq', 'set'):
        return pre + out('std.%s(a%s)' % (op, kfa))
    if op == 'uniqsort':
        return pre + out('std.uniq(std.sort(a%s)%s)' % (kfa, kfa))
    if op in ('min', 'max'):
        fn = 'minArray' if op == 'min' else 'maxArray'
        if case.get('onempty'):
            kfx = kf if kf is not None else 'function(x) x'
            call = 'std.%s(a, %s, "EMPTY")' % (fn, 'keyF' if kf is not None else kfx)
        else:
            call = 'std.%s(a%s)' % (fn, kfa)
        if mode == 'id':
            return pre + call
        return pre + 'local r = %s; if std.isArray(r) then r[1] else r' % call
    raise ValueError(op)


def model_fields(case):
    keys = all_keys(case)
    rk = ranks(keys)
    mode = case['mode']
    errt = set(case.get('errtags', []))
    script = []
    for i, (t, r) in enumerate(rk):
        if mode == 'kerr' and i in errt:
            script.append('!%x' % (KERR_BASE + i))
        elif mode == 'trap':
            script.append('4.%x.%x' % (r, i + 1))
        else:
            script.append('%x.%x.0' % (t, r))
    f = [case['op'], ','.join(script)]
    if case['op'] in TWO:
        f.append('%x' % len(case['a']))
    return f


def impl_fields(case):
    return ['', hxl(list(program(case).encode('utf-8')))]


# ---------------------------------------------------------------- canonical answers

def canon_impl(case, r):
    """implementation answer -> ('OK', python value) | ('ERR', code) | ('BAD', text)"""
    f = r.split('\t')
    if f[0] == 'OK':
        try:
            return ('OK', json.loads(vlib.uncps(f[1])))
        except Exception as e:
            return ('BAD', 'unparsable output %r' % (f[1][:60],))
    if f[0] == 'ERR' and len(f) > 3 and f[1] == 'EVAL':
        v = f[2]
        if v == 'CompareDifferentTypesInequality':
            d = vlib.uncps(f[6][2:]) if len(f) > 6 else ''
            try:
                l = d.split('lhs_type: ')[1].split(',')[0].strip()
                rr = d.split('rhs_type: ')[1].split(' ')[0].strip().rstrip('}')
                return ('ERR', 'D.%x.%x' % (TYNAME[l], TYNAME[rr]))
            except Exception:
                return ('ERR', 'X.' + v)
        same = {'CompareNullInequality': 0, 'CompareBooleanInequality': 1, 'CompareObjectInequality': 5, 'CompareFunctions': 6}
        if v in same:
            return ('ERR', 'S.%x' % same[v])
        if v == 'ExplicitError' and f[3] != '-':
            m = vlib.uncps(f[3])
            if m[:1] == 'T' and m[1:].isdigit():
                return ('ERR', 'U.%x' % (int(m[1:]) + 1))
            if m[:1] == 'K' and m[1:].isdigit():
                return ('ERR', 'U.%x' % (int(m[1:]) + KERR_BASE))
        if v == 'Other' and case['op'] in ('min', 'max') and not all_keys(case):
            return ('EMPTY', None)
        return ('ERR', 'X.' + v)
    return ('BAD', r[:120])


def impl_calls(r):
    """the elements keyF was applied to, in order (from the std.trace messages)"""
    for f in r.split('\t'):
        if f.startswith('T='):
            out = []
            for m in f[2:].split('/'):
                if m:
                    t = vlib.uncps(m)
                    out.append(int(t[1:]) if t[:1] == 'c' and t[1:].isdigit() else t)
            return out
    return None


def model_calls(r):
    for f in r.split('\t'):
        if f.startswith('L='):
            return [int(x, 16) for x in f[2:].split(',')] if f[2:] else []
    return None


def canon_model(case, r):
    """model answer -> same shape, indices turned into what the program prints"""
    f = r.split('\t')
    keys = all_keys(case)
    if f[0] == 'OK':
        if case['op'] == 'member':
            return ('OK', f[1] == 'true')
        idx = [int(x, 16) for x in f[1].split(',')] if len(f) > 1 and f[1] else []
        if case['op'] in ('min', 'max'):
            i = idx[0]
            return ('OK', key_json(keys[i]) if case['mode'] == 'id' else i)
        if case['mode'] == 'id':
            return ('OK', [key_json(keys[i]) for i in idx])
        return ('OK', idx)
    if f[0] == 'EMPTY':
        return ('OK', 'EMPTY') if case.get('onempty') else ('EMPTY', None)
    if f[0] == 'ERR':
        return ('ERR', f[1])
    return ('BAD', r[:120])


# ---------------------------------------------------------------- oracle (definitions)

def expected(case):
    """What the property's definitions say the call must return, or None when the
    property does not determine the answer (non-set inputs to the set functions,
    scripted errors whose identity only the model predicts).
    Returns ('OK', value) | ('ANYERR', None) | None."""
    op, mode = case['op'], case['mode']
    keys = all_keys(case)
    rk = ranks(keys)
    n = len(keys)
    na = len(case['a'])
    types = set(t for t, _ in rk)
    clean = mode in ('id', 'proj') and len(types) <= 1 and (not types or list(types)[0] in COMPARABLE)

    def show(idx):
        return [key_json(keys[i]) for i in idx] if mode == 'id' else list(idx)

    def show1(i):
        return key_json(keys[i]) if mode == 'id' else i

    if op in ('sort', 'set', 'uniqsort'):
        if n <= 1:
            return ('OK', show(range(n)))
        if mode == 'kerr' and case['errtags']:
            return ('ANYERR', None)
        if mode in ('id', 'proj', 'kerr') and (len(types) > 1 or list(types)[0] not in COMPARABLE):
            return ('ANYERR', None)
        if not (clean or (mode == 'kerr' and len(types) <= 1)):
            return None
        p = sorted(range(n), key=lambda i: rk[i][1])        # Python's sort is stable
        if op == 'sort':
            return ('OK', show(p))
        u = [p[i] for i in range(n) if i == 0 or rk[p[i - 1]] != rk[p[i]]]
        return ('OK', show(u))
    if op == 'uniq':
        if n <= 1:
            return ('OK', show(range(n)))
        if mode not in ('id', 'proj') or 6 in types:
            return None
        u = [i for i in range(n) if i == 0 or rk[i - 1] != rk[i]]
        return ('OK', show(u))
    if not clean:
        return None
    kr = [r for _, r in rk]
    if op in ('min', 'max'):
        if n == 0:
            return ('OK', 'EMPTY') if case.get('onempty') else ('EMPTY', None)
        best = min(kr) if op == 'min' else max(kr)
        return ('OK', show1(kr.index(best)))
    if op == 'member':
        arr = kr[1:]
        if any(arr[i] > arr[i + 1] for i in range(len(arr) - 1)):
            return None
        return ('OK', kr[0] in arr)
    if op in TWO:
        ka, kb = kr[:na], kr[na:]
        if any(ka[i] >= ka[i + 1] for i in range(len(ka) - 1)) or any(kb[i] >= kb[i + 1] for i in range(len(kb) - 1)):
            return None          # not sets: only the correspondence with the model applies
        sa, sb = set(ka), set(kb)
        if op == 'inter':
            return ('OK', show([i for i in range(na) if kr[i] in sb]))
        if op == 'diff':
            return ('OK', show([i for i in range(na) if kr[i] not in sb]))
        u = [i for i in range(na)] + [i for i in range(na, n) if kr[i] not in sa]
        return ('OK', show(sorted(u, key=lambda i: kr[i])))
    return None


def norm(v):
    if isinstance(v, bool) or v is None or isinstance(v, str):
        return v
    if isinstance(v, (int, float)):
        return float(v) + 0.0
    if isinstance(v, (list, tuple)):
        return [norm(x) for x in v]
    if isinstance(v, dict):
        return {k: norm(x) for k, x in v.items()}
    return v


def same(a, b):
    return json.dumps(norm(a), sort_keys=True) == json.dumps(norm(b), sort_keys=True)


def no_functions_when_manifested(case):
    """identity key function: the result is manifested, so it must not contain functions"""
    if case['mode'] == 'id':
        for f in ('a', 'b'):
            if f in case:
                case[f] = [(['o', 7] if k[0] == 'f' else k) for k in case[f]]
        if 'x' in case and case['x'][0] == 'f':
            case['x'] = ['o', 7]
    # arrays of numbers and arrays of strings in one case would fail inside the element comparison,
    # which the key script cannot express: keep one kind of array per case
    case.pop('_keys', None)
    ks = all_keys(case)
    if any(k[0] == 'as' and k[1] for k in ks) and any(k[0] == 'a' and k[1] for k in ks):
        for f in ('a', 'b'):
            if f in case:
                case[f] = [(['n', 3] if k[0] == 'a' and k[1] else k) for k in case[f]]
        if 'x' in case and case['x'][0] == 'a' and case['x'][1]:
            case['x'] = ['n', 3]
    case.pop('_keys', None)
    return case


def classify_sort_failure(case, got):
    """names the part of the sort contract that the implementation's answer breaks"""
    keys = all_keys(case)
    rk = ranks(keys)
    if case['mode'] == 'id':
        want = sorted(json.dumps(norm(key_json(k)), sort_keys=True) for k in keys)
        have = sorted(json.dumps(norm(v), sort_keys=True) for v in got) if isinstance(got, list) else None
        if have != want:
            return 'not-permutation'
        return 'not-sorted'
    if not isinstance(got, list) or sorted(got) != list(range(len(keys))):
        return 'not-permutation'
    if any(rk[got[i]][1] > rk[got[i + 1]][1] for i in range(len(got) - 1)):
        return 'not-sorted'
    return 'not-stable'


# ---------------------------------------------------------------- generators

NUMS = [0, 1, 2, 3, 5, 7, 10, -1, -2, -10, 0.5, -0.5, 1.5, 2.25, 100, 1000, 1e10, -1e10, 1e300, -1e300, 0.1, 0.2, 0.30000000000000004,
        255, 256, 65535, 65536, 4294967296, 9007199254740992, -9007199254740992, 1e-300, 5e-324]
STRS = ['', 'a', 'b', 'ab', 'abc', 'A', 'B', 'aa', 'a b', 'z', 'Z', '0', '10', '9', 'é', 'é', '日本', '日',
        '\U0001d11e', '￿', '퟿', '', '~', ' ', '\t', 'a\u0000', '"', '\\', 'café', 'cafe', 'Cafe', '\U0010ffff', '\u0080', '\u007f']
LENS = [0, 1, 2, 3, 4, 7, 15, 16, 29, 30, 31, 32, 33, 45, 59, 60, 61, 62, 63, 64, 90, 119, 120, 121, 122, 123, 124, 125, 126, 150, 199, 200]


def gen_pool(rng, kind, d):
    """d distinct keys of one kind"""
    out = []
    seen = set()
    tries = 0
    w = max(50, 2 * d)
    while len(out) < d and tries < 8 * d + 50:
        tries += 1
        if kind == 'n':
            r = rng.random()
            v = rng.choice(NUMS) if r < 0.3 * 50 / w else (rng.randint(-w, w) if r < 0.8 else round(rng.uniform(-5, 5), 2))
            k = ['n', v]
        elif kind == 's':
            r = rng.random()
            v = rng.choice(STRS) if r < 0.5 * 50 / w else ''.join(rng.choice(['a', 'b', 'B', 'é', '日', '\U0001d11e', '0']) for _ in range(rng.randint(0, 4 + d // 50)))
            k = ['s', v]
        elif kind == 'a':
            k = ['a', [rng.randint(-2, 3 + d // 20) for _ in range(rng.randint(0, 3))]]
        elif kind == 'as':
            k = ['as', [rng.choice(['a', 'b', '', 'é', 'ab']) for _ in range(rng.randint(0, 3 + d // 40))]]
        else:
            raise ValueError(kind)
        s = sortable(k)
        if s in seen:
            continue
        seen.add(s)
        out.append(k)
    return out


def gen_keys(rng, n, kind=None):
    """n keys of one comparable kind, with a chosen amount of duplication and shape"""
    kind = kind or rng.choice(['n', 'n', 'n', 's', 's', 'a', 'as'])
    if n == 0:
        return []
    d = max(1, min(rng.choice([1, 2, 3, 5, 10, max(1, n // 4), max(1, n // 2), n, 3 * n]), 400))
    pool = gen_pool(rng, kind, d)
    keys = [rng.choice(pool) for _ in range(n)]
    shape = rng.random()
    if shape < 0.12:
        keys.sort(key=sortable)
    elif shape < 0.24:
        keys.sort(key=sortable, reverse=True)
    elif shape < 0.32:
        keys.sort(key=sortable)
        for _ in range(max(1, n // 10)):
            i, j = rng.randrange(n), rng.randrange(n)
            keys[i], keys[j] = keys[j], keys[i]
    elif shape < 0.38:
        h = n // 2
        keys = sorted(keys[:h], key=sortable) + sorted(keys[h:], key=sortable)
    return keys


ALIENS = [['z'], ['b', True], ['b', False], ['o', 1], ['o', 2], ['f', 1], ['n', 3], ['s', 'x'], ['a', [1]]]


def pick_len(rng, tier):
    r = rng.random()
    if r < 0.55:
        return rng.choice(LENS)
    if tier == 'thorough' and r < 0.62:
        return rng.choice([239, 240, 241, 242, 247, 248, 249, 250, 480, 481, 496, 497, 600, 961, 962, 1000])
    return rng.randint(0, 200)


def gen_one_array_case(rng, tier, op=None):
    op = op or rng.choice(['sort', 'sort', 'sort', 'sort', 'set', 'set', 'uniq', 'uniq', 'min', 'max'])
    n = pick_len(rng, tier)
    r = rng.random()
    case = {'op': op}
    if r < 0.30:
        case['mode'] = 'id'
        case['a'] = gen_keys(rng, n)
    elif r < 0.68:
        case['mode'] = 'proj'
        case['a'] = gen_keys(rng, n)
    elif r < 0.80:
        # trapped keys: [k, error "T<tag>"]; the first comparison of two equal k fails and names its left operand
        case['mode'] = 'trap'
        keys = gen_pool(rng, 'n', n) if n else []
        keys = keys[:n] + [['n', 10 ** 6 + i] for i in range(n - len(keys))]
        rng.shuffle(keys)
        for _ in range(rng.choice([0, 1, 1, 2, 3])):
            if n >= 2:
                i, j = rng.sample(range(n), 2)
                keys[i] = keys[j]
        case['a'] = keys
    elif r < 0.90:
        case['mode'] = 'kerr'
        case['a'] = gen_keys(rng, n)
        k = rng.choice([0, 1, 1, 2, 5])
        case['errtags'] = sorted(rng.sample(range(n), min(k, n))) if n else []
    else:
        # mixed / incomparable types
        case['mode'] = rng.choice(['id', 'proj'])
        keys = gen_keys(rng, n)
        na = rng.choice([1, 1, 2, 3, n])
        for _ in range(min(na, n)):
            keys[rng.randrange(n)] = rng.choice(ALIENS)
        if case['mode'] == 'id' and op in ('min', 'max'):
            keys = [k for k in keys if k[0] != 'f']       # a function cannot be manifested
        case['a'] = keys
    if op in ('min', 'max') and rng.random() < 0.5:
        case['onempty'] = True
    return no_functions_when_manifested(case)


def gen_set(rng, kind, universe, p):
    return [k for k in universe if rng.random() < p]


def gen_two_array_case(rng, tier, op=None):
    op = op or rng.choice(['inter', 'union', 'diff'])
    kind = rng.choice(['n', 'n', 's', 'a'])
    case = {'op': op, 'mode': rng.choice(['id', 'proj', 'proj'])}
    pat = rng.random()
    size = rng.choice([0, 1, 2, 3, 5, 8, 12, 20, 40, 80])
    uni = sorted(gen_pool(rng, kind, size), key=sortable)
    h = len(uni) // 2
    if pat < 0.08:
        a, b = uni[:h], uni[h:]                      # disjoint, a below b
    elif pat < 0.16:
        a, b = uni[h:], uni[:h]                      # disjoint, b below a
    elif pat < 0.24:
        a, b = uni[0::2], uni[1::2]                  # interleaved
    elif pat < 0.32:
        a, b = list(uni), list(uni)                  # equal
    elif pat < 0.40:
        a, b = list(uni), gen_set(rng, kind, uni, 0.4)   # b subset of a
    elif pat < 0.48:
        a, b = gen_set(rng, kind, uni, 0.4), list(uni)   # a subset of b
    elif pat < 0.54:
        a, b = [], list(uni)
    elif pat < 0.60:
        a, b = list(uni), []
    elif pat < 0.66:
        a, b = uni[:h + 1], uni[h:]                  # share exactly one element (the boundary)
    else:
        pa, pb = rng.choice([0.2, 0.5, 0.8]), rng.choice([0.2, 0.5, 0.8])
        a, b = gen_set(rng, kind, uni, pa), gen_set(rng, kind, uni, pb)
    r = rng.random()
    if r < 0.10:
        # not sets (unsorted / duplicates): the property says nothing, the model must still agree with the code
        a = gen_keys(rng, rng.randint(0, 12), kind)
        b = gen_keys(rng, rng.randint(0, 12), kind)
    elif r < 0.18 and (a or b):
        case['mode'] = 'kerr'
        n = len(a) + len(b)
        case['errtags'] = sorted(rng.sample(range(n), min(rng.choice([1, 1, 2]), n)))
    elif r < 0.24 and (a or b):
        case['mode'] = 'trap'
        a = [k if k[0] == 'n' else ['n', i] for i, k in enumerate(a)]
        b = [k if k[0] == 'n' else ['n', i] for i, k in enumerate(b)]
        a.sort(key=sortable)
        b.sort(key=sortable)
    elif r < 0.30 and (a or b):
        al = rng.choice(ALIENS)
        if rng.random() < 0.5 and a:
            a[rng.randrange(len(a))] = al
        elif b:
            b[rng.randrange(len(b))] = al
    case['a'], case['b'] = a, b
    return no_functions_when_manifested(case)


def gen_member_case(rng, tier):
    kind = rng.choice(['n', 'n', 's', 'a'])
    size = rng.choice([0, 1, 2, 3, 4, 5, 6, 7, 8, 9, 15, 16, 17, 31, 32, 33, 64, 100])
    uni = sorted(gen_pool(rng, kind, size + 4), key=sortable)
    arr = [k for k in uni if rng.random() < 0.7][:size] if size else []
    case = {'op': 'member', 'mode': rng.choice(['id', 'proj', 'proj'])}
    r = rng.random()
    if arr and r < 0.45:
        x = rng.choice(arr)
    elif arr and r < 0.55:
        x = rng.choice([arr[0], arr[-1]])
    elif uni:
        x = rng.choice(uni)
    else:
        x = ['n', 1]
    q = rng.random()
    if q < 0.08:
        arr = gen_keys(rng, rng.randint(0, 10), kind)     # not a set: K only
    elif q < 0.16:
        case['mode'] = 'kerr'
        case['errtags'] = sorted(rng.sample(range(len(arr) + 1), min(rng.choice([1, 2]), len(arr) + 1)))
    elif q < 0.22:
        if rng.random() < 0.5 or not arr:
            x = rng.choice(ALIENS)
        else:
            arr[rng.randrange(len(arr))] = rng.choice(ALIENS)
    case['x'], case['a'] = x, arr
    return no_functions_when_manifested(case)


def exhaustive_small_sets():
    """every pair of subsets of a 4-element universe, for the three walks and membership"""
    uni = [['n', 1], ['n', 2], ['n', 3], ['n', 4]]
    out = []
    for ma in range(16):
        a = [uni[i] for i in range(4) if ma >> i & 1]
        for mb in range(16):
            b = [uni[i] for i in range(4) if mb >> i & 1]
            for op in TWO:
                out.append({'op': op, 'mode': 'proj', 'a': a, 'b': b})
        for x in uni + [['n', 0], ['n', 5], ['n', 2.5]]:
            out.append({'op': 'member', 'mode': 'proj', 'x': x, 'a': a})
    return out


def exhaustive_small_arrays(maxlen):
    """every array over three keys up to the given length, for the one-array functions"""
    import itertools
    out = []
    for n in range(maxlen + 1):
        for t in itertools.product(range(3), repeat=n):
            a = [['n', v] for v in t]
            for op in ('sort', 'set', 'uniq', 'min', 'max'):
                out.append({'op': op, 'mode': 'proj', 'a': a})
    return out


def threshold_sweep(rng, lens):
    """std.sort on every listed length with few distinct keys (stability visible) and with distinct keys"""
    out = []
    for n in lens:
        for d in (2, 3, max(1, n)):
            pool = [['n', v] for v in range(d)]
            out.append({'op': 'sort', 'mode': 'proj', 'a': [rng.choice(pool) for _ in range(n)]})
        out.append({'op': 'set', 'mode': 'proj', 'a': [['n', rng.randint(0, max(1, n // 3))] for _ in range(n)]})
        # trapped keys, distinct except for one or two pairs: the first comparison that meets a pair names its left
        # operand, which pins the order of comparisons (threshold, split point, pivot choice, merge order)
        for rep in range(3):
            if n >= 2:
                ks = [['n', v] for v in range(n)]
                rng.shuffle(ks)
                for _ in range(1 + rep % 2):
                    i, j = rng.sample(range(n), 2)
                    ks[i] = ks[j]
                out.append({'op': 'sort', 'mode': 'trap', 'a': ks})
    return out


# ---------------------------------------------------------------- running

def load_corpus():
    p = os.path.join(vlib.VERIF, 'corpus', 'c17_cases.txt')
    out = []
    if os.path.exists(p):
        for l in open(p, encoding='utf-8'):
            l = l.strip()
            if l and not l.startswith('#'):
                out.append(json.loads(l))
    return out


def nontrivial_key(case):
    keys = all_keys(case)
    n = len(keys)
    if n < 2:
        return None
    rk = ranks(keys)
    dup = len(set(rk)) < n
    band = 0 if n <= 30 else (1 if n <= 60 else (2 if n <= 120 else 3))
    return (case['op'], case['mode'], band, dup, zlib.crc32(json.dumps(public(case), sort_keys=True).encode()) & 0xffffff)


def run_cases(run, cases, impl_exe, model_exe, label):
    """cases: list of case dicts.  Evaluates both sides, applies the oracle, records."""
    tagged = []
    for i, c in enumerate(cases):
        tagged.append(('%s%d' % (label, i), c))
    impl = vlib.run_sharded(impl_exe, ['\t'.join([cid, 'eval'] + impl_fields(c)) for cid, c in tagged], timeout=300)
    model = vlib.run_sharded(model_exe, ['\t'.join([cid] + model_fields(c)) for cid, c in tagged], timeout=300)
    twins = {}
    for cid, c in tagged:
        run.evaluations += 1
        ir_raw, mr_raw = impl.get(cid, 'NOOUTPUT'), model.get(cid, 'NOOUTPUT')
        ir, mr = canon_impl(c, ir_raw), canon_model(c, mr_raw)
        op = c['op']
        replay = {'case': public(c), 'impl': ir_raw[:400], 'model': mr_raw[:400]}
        R = lambda: dict(replay, program=program(c)[:2000])
        run.count('op_' + op)
        run.count('mode_' + c['mode'])
        n = len(all_keys(c))
        run.count('len_%s' % ('0-1' if n <= 1 else '2-30' if n <= 30 else '31-60' if n <= 60 else '61-120' if n <= 120 else '121+'))
        run.count('outcome_' + ir[0])
        if ir[0] == 'BAD':
            kind = ir_raw.split('\t')[0]
            run.violation('c17-crash:%s:%s' % (op, kind), 'std.%s: the evaluator answered %s' % (op, ir_raw[:100]), R())
            continue
        if mr[0] == 'BAD':
            run.violation('c17-model-machinery', 'model driver failed on a %s case: %s' % (op, mr_raw[:100]), R(), concrete=False)
            continue
        exp = expected(c)
        bad = None
        if exp is not None:
            if exp[0] == 'ANYERR':
                if ir[0] != 'ERR':
                    bad = ('error-not-raised', 'std.%s on incomparable keys / failing keyF returned %s instead of an error' % (op, json.dumps(ir[1])[:100]))
            elif exp[0] == 'EMPTY':
                if ir[0] != 'EMPTY':
                    bad = ('empty', 'std.%s([]) without onEmpty did not raise the empty-array error' % op)
            elif ir[0] != 'OK' or not same(ir[1], exp[1]):
                if ir[0] != 'OK':
                    what = 'failed-on-valid-input'
                elif op == 'sort':
                    what = classify_sort_failure(c, ir[1])
                else:
                    what = 'wrong-result'
                bad = (what, 'std.%s: definition gives %s, implementation gives %s %s' % (op, json.dumps(exp[1])[:160], ir[0], json.dumps(ir[1])[:160]))
        if bad:
            run.violation('c17-%s-%s' % (op if op != 'uniqsort' else 'sort', bad[0]), bad[1] + ' (n=%d, mode=%s)' % (n, c['mode']), R())
        elif ir[0] != mr[0] or not same(ir[1], mr[1]):
            # the definitions are met (or say nothing) but the code no longer behaves as the model of it
            run.violation('c17-correspondence-' + op, 'correspondence %s (n=%d, mode=%s): implementation %s %s / model %s %s'
                          % (op, n, c['mode'], ir[0], json.dumps(ir[1])[:120], mr[0], json.dumps(mr[1])[:120]), R(), concrete=False)
        elif c['mode'] != 'id' and impl_calls(ir_raw) != model_calls(mr_raw):
            ic, mc = impl_calls(ir_raw), model_calls(mr_raw)
            k = 0
            while ic is not None and mc is not None and k < min(len(ic), len(mc)) and ic[k] == mc[k]:
                k += 1
            run.violation('c17-correspondence-keyF-calls-' + op,
                          'correspondence %s (n=%d, mode=%s): keyF is applied to other elements / in another order than in the model '
                          '(first difference at call #%d: implementation %s, model %s; %s vs %s calls)'
                          % (op, n, c['mode'], k, (ic or [])[k:k + 3], (mc or [])[k:k + 3], len(ic or []), len(mc or [])), R(), concrete=False)
        if op in ('set', 'uniqsort') and 'twin' in c:
            twins.setdefault(c['twin'], {})[op] = (ir, replay)
        k = nontrivial_key(c)
        if k is not None and ir[0] in ('OK', 'ERR'):
            run.nontrivial.add(k)
        if len(run.samples) < 6 and n >= 3 and run.evaluations % 97 == 1:
            run.samples.append({'program': program(c)[:300], 'implementation': ir_raw[:200], 'model': mr_raw[:200]})
    # std.set(arr) and std.uniq(std.sort(arr)) on the implementation alone
    for t, d in twins.items():
        if 'set' in d and 'uniqsort' in d:
            a, b = d['set'][0], d['uniqsort'][0]
            if a[0] != b[0] or not same(a[1], b[1]):
                run.violation('c17-set-is-not-uniq-sort', 'std.set(arr) = %s %s but std.uniq(std.sort(arr)) = %s %s'
                              % (a[0], json.dumps(a[1])[:120], b[0], json.dumps(b[1])[:120]), d['set'][1])


# argument errors that the key script cannot express: implementation alone.  (program, expected) with expected
# 'ERR' or the JSON the call must produce
RAW = [
    ('std.sort(5)', 'ERR'), ('std.sort([2, 1], 3)', 'ERR'), ('std.sort([2, 1], function() 1)', 'ERR'),
    ('std.sort([2, 1], function(a, b) a)', 'ERR'), ('std.sort("ba")', 'ERR'), ('std.sort({a: 1})', 'ERR'),
    ('std.uniq(5)', 'ERR'), ('std.uniq([1, 1], 3)', 'ERR'), ('std.uniq([1, 1], function() 1)', 'ERR'),
    ('std.set(5)', 'ERR'), ('std.set([2, 1], "x")', 'ERR'), ('std.set("abc")', 'ERR'),
    ('std.setUnion(1, [1])', 'ERR'), ('std.setUnion([1], 1)', 'ERR'), ('std.setUnion([1], [1], 1)', 'ERR'),
    ('std.setInter(1, [1])', 'ERR'), ('std.setInter([1], null)', 'ERR'), ('std.setInter([1], [1], 1)', 'ERR'),
    ('std.setDiff("a", [1])', 'ERR'), ('std.setDiff([1], {})', 'ERR'), ('std.setDiff([1], [1], 1)', 'ERR'),
    ('std.setMember(1, 5)', 'ERR'), ('std.setMember(1, [1], 5)', 'ERR'), ('std.setMember(1, "1")', 'ERR'),
    ('std.minArray(7)', 'ERR'), ('std.maxArray("abc")', 'ERR'), ('std.minArray([2, 1], 5)', 'ERR'),
    ('std.minArray([])', 'ERR'), ('std.maxArray([])', 'ERR'),
    ('std.minArray([], onEmpty="e")', '"e"'), ('std.maxArray([], function(x) x, "e")', '"e"'),
    ('std.sort([error "never"])', 'ERR'),     # manifesting the only element fails, sorting it does not
    ('std.length(std.sort([error "never"]))', '1'), ('std.length(std.set([error "never"], function(x) error "k"))', '1'),
    ('std.length(std.uniq([error "never"]))', '1'), ('std.setMember(error "x", [])', 'false'),
    ('std.setInter([error "x"], [])', '[]'), ('std.length(std.setUnion([error "x"], []))', '1'),
    ('std.length(std.setDiff([error "x", error "y"], []))', '2'),
    ('std.sort([3, 1, 2], keyF=function(x) -x)', '[3, 2, 1]'), ('std.set(arr=[3, 1, 3])', '[1, 3]'),
    ('std.setMember(2, [3, 2, 1], function(x) -x)', 'true'),
    ('std.minArray([[2, "a"], [1, "b"], [1, "c"]], function(x) x[0])[1]', '"b"'),
    ('std.maxArray([[2, "a"], [1, "b"], [2, "c"]], function(x) x[0])[1]', '"a"'),
]


def run_raw(run, impl_exe):
    lines = ['w%d\teval\t\t%s' % (i, hxl(list(p.encode()))) for i, (p, _) in enumerate(RAW)]
    res = vlib.run_sharded(impl_exe, lines, timeout=120)
    for i, (p, want) in enumerate(RAW):
        run.evaluations += 1
        run.count('raw_programs')
        r = res.get('w%d' % i, 'NOOUTPUT')
        f = r.split('\t')
        if f[0] not in ('OK', 'ERR'):
            run.violation('c17-crash:raw:' + f[0], '%s: the evaluator answered %s' % (p, r[:100]), {'raw': p})
        elif want == 'ERR':
            if f[0] != 'ERR':
                run.violation('c17-raw-error-not-raised', '%s returned %s instead of an error' % (p, vlib.uncps(f[1])[:80]), {'raw': p})
        else:
            got = vlib.uncps(f[1]) if f[0] == 'OK' else None
            try:
                ok = got is not None and same(json.loads(got), json.loads(want))
            except Exception:
                ok = False
            if not ok:
                run.violation('c17-raw-wrong-result', '%s: expected %s, implementation gives %s' % (p, want, (got or r)[:100]), {'raw': p})


def check(run):
    rng = vlib.rng_for(run.seed, ID)
    run.rule = ('calls of std.sort/uniq/set/setInter/setUnion/setDiff/setMember/minArray/maxArray as program text through the real evaluator; '
                'keys are numbers, strings, arrays of numbers or of strings (pools with 1..3n distinct values, so heavy duplicates), '
                'lengths 0..200 biased to 29..33, 59..64, 119..126 (thorough: to 1000); key functions: default identity, projection x[0] of '
                '[key, tag] elements (stability observable through the tags), trapped keys [k, error tag] (the first comparison of equal keys '
                'names its left operand), failing keyF, mixed/incomparable types; with an explicit keyF every application is recorded (std.trace) and the call sequence compared; set pairs: disjoint/interleaved/equal/subset/empty/one-shared/random '
                'overlap plus every pair of subsets of a 4-element universe; every array over three keys up to length 4 (thorough: 7).  non-trivial = case with >= 2 elements answered OK or ERR, '
                'distinct by (function, key-function mode, length band, has-duplicates, input).')
    run.assume = ['the order of two keys (CompareValue on numbers/strings/arrays) and their equality (EqualsValue) are inputs of the model: '
                  'the generator ranks the keys of a case with Python comparison (code-point order for strings, lexicographic for arrays); '
                  'the laws of that comparison are property C08',
                  'a key function is deterministic (the model evaluates keyF through a function of the element)']
    pres = vlib.prove(ID, THEOREMS, ALLOWED_AXIOMS)
    run.add_proof(pres, THEOREMS)
    quick = run.tier == 'quick'
    if not quick and pres['ok']:
        rc, out = vlib.sh(['coqchk', '-silent', '-o', '-Q', '.', 'RJ', 'RJ.Props.C17'], cwd=vlib.COQ, timeout=2400)
        run.add_obligation('coqchk re-checks the compiled cone of Props/C17.vo and reports no axioms',
                           rc == 0 and '* Axioms: <none>' in out, out[-300:])
    impl_exe = vlib.build_harness()
    model_exe = vlib.build_model('sort')
    run_raw(run, impl_exe)
    cases = load_corpus()
    run.count('corpus_cases', len(cases))
    cases += exhaustive_small_sets()
    cases += exhaustive_small_arrays(4 if quick else 7)
    cases += threshold_sweep(rng, [28, 29, 30, 31, 32, 33, 59, 60, 61, 62, 63, 64, 65] if quick else list(range(0, 135)) + [239, 240, 241, 242, 243, 247, 248, 249])
    n1, n2, n3 = (1000, 600, 300) if quick else (24000, 12000, 6000)
    for i in range(n1):
        c = gen_one_array_case(rng, run.tier)
        cases.append(c)
        if c['op'] == 'set':
            c['twin'] = i
            t = dict(c)
            t['op'] = 'uniqsort'
            cases.append(t)
    for i in range(n2):
        cases.append(gen_two_array_case(rng, run.tier))
    for i in range(n3):
        cases.append(gen_member_case(rng, run.tier))
    # in chunks, so that a thorough run keeps memory flat
    step = 4000
    for off in range(0, len(cases), step):
        run_cases(run, cases[off:off + step], impl_exe, model_exe, 'c%d_' % off)


def replay(run, path):
    j = json.load(open(path))
    r = j.get('replay', {})
    if isinstance(r, dict) and 'raw' in r:
        global RAW
        RAW = [x for x in RAW if x[0] == r['raw']]
        run_raw(run, vlib.build_harness())
    elif isinstance(r, dict) and 'case' in r:
        c = r['case']
        cases = [c]
        if c.get('op') == 'set':
            c['twin'] = 0
            t = dict(c)
            t['op'] = 'uniqsort'
            cases.append(t)
        run_cases(run, cases, vlib.build_harness(), vlib.build_model('sort'), 'r')
    else:
        print('replay file names a broken obligation, not an input:', json.dumps(j.get('no_longer_checks', j), indent=1)[:2000])
        pres = vlib.prove(ID, THEOREMS, ALLOWED_AXIOMS)
        run.add_proof(pres, THEOREMS)
    for v in run.violations:
        print('REPRODUCED:', v['what'])
    if not run.violations and not run.failed_obligations:
        print('not reproduced')
    return 1 if (run.violations or run.failed_obligations) else 0
