"""C15 — parsing honours the precedence table and is stable under print and re-parse.

Proof:  Props/C15.v over Model/Parser.v with the precedence chain / operator arms translated from
        parser/expr.rs (T -> Gen/PrecTable.v).
K:      the real parser vs the extracted model on the SAME token stream (the implementation's own
        token dump): AST byte-identical incl. spans, or error span / expected set / instead equal.
        Every accepted tree also goes through the model printer + re-parse (`rt min`, `rt red`).
Search (oracles on the implementation alone):
  O1 print -> re-parse identity (minimal / redundant / full parentheses, needed parens are needed)
  O2 operator sequences vs a precedence-climbing reference written from the specification table
  O3 slice colon layouts
  O4 span nesting / token alignment of every accepted tree
  O5 error location: error span is one token of the stream, `instead` names it, expected set is
     non-empty and does not contain it; truncation of a valid text fails only at end of file;
     a token-level mutation at index i never fails before token i.
"""
import os, sys, re, json, random, hashlib, multiprocessing
import vlib
from vlib import hx, hxl
sys.path.insert(0, os.path.dirname(os.path.dirname(os.path.abspath(__file__))))
import translate_parser

ID = 'C15'
COMPONENTS = ['parser']
THEOREMS = ['C15_precedence_chain_matches', 'C15_precedence_table', 'C15_unary_binds_tighter',
            'C15_postfix_binds_tightest', 'C15_postfix_chain', 'C15_in_super_form', 'C15_slice_layouts',
            'C15_left_assoc', 'C15_parse_print_roundtrip', 'C15_redundant_parens_equiv',
            'C15_roundtrip_nonvacuous', 'C15_native_depth_unbounded', 'C15_parse_error_at_token',
            'C15_parse_error_nonvacuous', 'C15_parse_no_panic', 'C15_span_nesting',
            'C15_parse_root_span_in_range', 'C15_wf_nonvacuous']
ALLOWED_AXIOMS = set()

NOMODEL = os.environ.get('VERIF_C15_NOMODEL') == '1'   # development switch; records a FAILED obligation
FUEL1, FUEL2 = '28', '140'
MAX_PER_KEY = 3          # violations recorded per key (the rest is counted)


def translate(repo):
    return translate_parser.main(repo, os.path.join(vlib.COQ, 'Gen', 'PrecTable.v'))


TRANSLATORS = [translate]

sys.setrecursionlimit(20000)

# =============================================================================================
# S-expressions (the dump format of harness/src/astdump.rs)

_TOK = re.compile(r'[()]|[^\s()]+')
_SPAN = re.compile(r'^[0-9a-f]+:[0-9a-f]+$')


def read_all(text, erase=False):
    """list of top-level items; lists become tuples; with erase=True every span atom becomes '@'"""
    stack = [[]]
    for m in _TOK.finditer(text):
        t = m.group()
        if t == '(':
            stack.append([])
        elif t == ')':
            if len(stack) < 2:
                raise ValueError('unbalanced )')
            x = tuple(stack.pop())
            stack[-1].append(x)
        else:
            if erase and ':' in t and _SPAN.match(t):
                t = '@'
            stack[-1].append(t)
    if len(stack) != 1:
        raise ValueError('unbalanced (')
    return stack[0]


def read_one(text, erase=False):
    xs = read_all(text, erase)
    if len(xs) != 1:
        raise ValueError('expected one S-expression, got %d' % len(xs))
    return xs[0]


def to_sexp(t):
    if isinstance(t, tuple):
        return '(' + ' '.join(to_sexp(x) for x in t) + ')'
    return t


def get_tree(x):
    return x if isinstance(x, tuple) else read_one(x)


def sp_parse(s):
    a, b = s.split(':')
    return int(a, 16), int(b, 16)


_SHAPE_ERASE = re.compile(r'(?<=[ (])(?:-?[0-9a-f]+(?:[,:][0-9a-f]+)*|-)(?=[ )])')


def shape_key(ast_text):
    """tree shape with atoms (payloads, flags) and spans erased, hashed"""
    s = _SHAPE_ERASE.sub('', ast_text)
    s = re.sub(r'\((?:Null|Bool|Self|Dollar|String|TextBlock|Number)\s*\)|\(Ident \(Id\s*\)\)', 'a', s)
    s = re.sub(r'\s+', ' ', s)
    return hashlib.md5(s.encode()).hexdigest()[:16]


# node schema: kinds per argument position.  s span, a atom payload, e expression, o optional
# expression ('_'), n structural node, m optional structural node, '*k' the rest are of kind k
SCHEMA = {
    'Null': 's', 'Bool': 'sa', 'Self': 's', 'Dollar': 's', 'String': 'sa', 'TextBlock': 'sa', 'Number': 'saa',
    'Ident': 'sn', 'Paren': 'se', 'Object': 'sn', 'Array': 's*e', 'ArrayComp': 'sen', 'Field': 'sen',
    'Index': 'see', 'Slice': 'seooo', 'SuperField': 'ssn', 'SuperIndex': 'sse', 'Call': 'sean', 'Local': 'sne',
    'If': 'seeo', 'Binary': 'seae', 'Unary': 'sae', 'ObjExt': 'sens', 'Func': 'sne', 'Assert': 'sne',
    'Import': 'se', 'ImportStr': 'se', 'ImportBin': 'se', 'Error': 'se', 'InSuper': 'ses',
    # structural
    'Id': 'sa', 'Param': 'no', 'Params': '*n', 'P': 'sn', 'Bind': 'nme', 'A': 'seo', 'FnIdent': 'n',
    'FnString': 'as', 'FnExpr': 'es', 'For': 'ne', 'IfSpec': 'e', 'Specs': '*n', 'Members': '*n', 'MLocal': 'n',
    'MAssert': 'n', 'MField': 'n', 'FValue': 'naae', 'FFunc': 'nnsae', 'Comp': 'neaenn', 'Locals': '*n',
    'Pos': 'e', 'Named': 'ne', 'Args': '*n', 'Binds': '*n',
}
EXPR_HEADS = {'Null', 'Bool', 'Self', 'Dollar', 'String', 'TextBlock', 'Number', 'Ident', 'Paren', 'Object', 'Array',
              'ArrayComp', 'Field', 'Index', 'Slice', 'SuperField', 'SuperIndex', 'Call', 'Local', 'If', 'Binary',
              'Unary', 'ObjExt', 'Func', 'Assert', 'Import', 'ImportStr', 'ImportBin', 'Error', 'InSuper'}


def kinds_of(node):
    """argument kinds of a node, expanded to its length; raises on an unknown head / wrong arity"""
    sch = SCHEMA.get(node[0])
    if sch is None:
        raise ValueError('unknown node head %r' % (node[0],))
    n = len(node) - 1
    if '*' in sch:
        i = sch.index('*')
        fixed, rep = sch[:i], sch[i + 1]
        if n < len(fixed):
            raise ValueError('node %s too short' % node[0])
        return fixed + rep * (n - len(fixed))
    if n != len(sch):
        raise ValueError('node %s has %d arguments, schema %s' % (node[0], n, sch))
    return sch


def map_exprs(node, f):
    """node with every nearest expression descendant c replaced by f(c) (structural nodes are descended)"""
    out = [node[0]]
    for k, c in zip(kinds_of(node), node[1:]):
        if k == 'e':
            out.append(f(c))
        elif k == 'o':
            out.append(c if c == '_' else f(c))
        elif k == 'n':
            out.append(map_exprs(c, f))
        elif k == 'm':
            out.append(c if c == '_' else map_exprs(c, f))
        else:
            out.append(c)
    return tuple(out)


def erase_parens(e):
    while e[0] == 'Paren':
        e = e[2]
    return map_exprs(e, erase_parens)


def wrap_all(e):
    return ('Paren', '@', map_exprs(e, wrap_all))


def wrap_rand(e, rng, p):
    e = map_exprs(e, lambda c: wrap_rand(c, rng, p))
    k = 0
    while k < 2 and rng.random() < p:
        e = ('Paren', '@', e)
        k += 1
    return e


def first_diff(a, b):
    """first (pre-order) pair of sub-nodes where two erased trees differ"""
    if a == b:
        return None
    if not (isinstance(a, tuple) and isinstance(b, tuple)):
        return (a, b)
    if a[0] != b[0] or len(a) != len(b):
        return (a, b)
    if a[0] in ('Binary', 'Unary') and a[3 if a[0] == 'Binary' else 2] != b[3 if a[0] == 'Binary' else 2]:
        return (a, b)
    for x, y in zip(a[1:], b[1:]):
        d = first_diff(x, y)
        if d:
            return d
    return (a, b)


def desc(n):
    if not isinstance(n, tuple):
        return str(n)
    if n[0] == 'Binary':
        return n[3]
    if n[0] == 'Unary':
        return 'u' + n[2]
    return n[0]


# =============================================================================================
# the SPECIFICATION table (Jsonnet reference: binding strength, loosest first; all binary operators
# are left associative; unary binds tighter than every binary operator; application/index/field/
# object-extension bind tighter than unary)

SPEC_LEVELS = [
    [('||', 'LogicOr')],
    [('&&', 'LogicAnd')],
    [('|', 'BitwiseOr')],
    [('^', 'BitwiseXor')],
    [('&', 'BitwiseAnd')],
    [('==', 'Eq'), ('!=', 'Ne')],
    [('<', 'Lt'), ('<=', 'Le'), ('>', 'Gt'), ('>=', 'Ge'), ('in', 'In')],
    [('<<', 'Shl'), ('>>', 'Shr')],
    [('+', 'Add'), ('-', 'Sub')],
    [('*', 'Mul'), ('/', 'Div'), ('%', 'Rem')],
]
BINLEVEL = {o: i for i, l in enumerate(SPEC_LEVELS) for _, o in l}
BINTXT = {o: t for l in SPEC_LEVELS for t, o in l}
ORDCMP = BINLEVEL['In']
UNARY = [('+', 'Plus'), ('-', 'Minus'), ('~', 'BitwiseNot'), ('!', 'LogicNot')]
UNTXT = {o: t for t, o in UNARY}
L_UNARY, L_SUFFIX = 10, 11
OPEN = {'Local', 'If', 'Func', 'Assert', 'Import', 'ImportStr', 'ImportBin', 'Error'}
SUFFIXED = {'Field', 'Index', 'Slice', 'Call', 'ObjExt'}


def own_level(e):
    h = e[0]
    if h == 'Binary':
        return BINLEVEL[e[3]]
    if h == 'InSuper':
        return ORDCMP
    if h == 'Unary':
        return L_UNARY
    return L_SUFFIX


def _f0(c):
    return fix(c, 0, None)


def fix(e, lvl=0, follow=None):
    """insert exactly the Paren nodes the grammar needs.  lvl: loosest level the context accepts;
    follow: what comes directly after e in the text: None (a closing token / separator),
    'any' (a binary operator or a suffix: an open-ended form at e's right edge would absorb it),
    'else' (an `else`: an else-less `if` at e's right edge would take it)."""
    h = e[0]
    if own_level(e) < lvl or (h in OPEN and follow == 'any') or (h == 'If' and e[4] == '_' and follow == 'else'):
        return ('Paren', '@', fix(e, 0, None))
    if h == 'Binary':
        k = BINLEVEL[e[3]]
        return ('Binary', '@', fix(e[2], k, 'any'), e[3], fix(e[4], k + 1, follow))
    if h == 'InSuper':
        return ('InSuper', '@', fix(e[2], ORDCMP, 'any'), '@')
    if h == 'Unary':
        return ('Unary', '@', e[2], fix(e[3], L_UNARY, follow))
    if h in SUFFIXED:
        x = fix(e[2], L_SUFFIX, 'any')
        if h == 'Field':
            return ('Field', '@', x, e[3])
        if h == 'Index':
            return ('Index', '@', x, _f0(e[3]))
        if h == 'Slice':
            return ('Slice', '@', x) + tuple(c if c == '_' else _f0(c) for c in e[3:6])
        if h == 'Call':
            return ('Call', '@', x, e[3], map_exprs(e[4], _f0))
        return ('ObjExt', '@', x, map_exprs(e[3], _f0), '@')
    if h == 'Local':
        return ('Local', '@', map_exprs(e[2], _f0), fix(e[3], 0, follow))
    if h == 'If':
        if e[4] == '_':
            return ('If', '@', _f0(e[2]), fix(e[3], 0, follow), '_')
        return ('If', '@', _f0(e[2]), fix(e[3], 0, 'else'), fix(e[4], 0, follow))
    if h == 'Func':
        return ('Func', '@', map_exprs(e[2], _f0), fix(e[3], 0, follow))
    if h == 'Assert':
        return ('Assert', '@', map_exprs(e[2], _f0), fix(e[3], 0, follow))
    if h in ('Import', 'ImportStr', 'ImportBin', 'Error'):
        return (h, '@', fix(e[2], 0, follow))
    return map_exprs(e, _f0)


def paren_paths(e, path=()):
    """paths (index tuples) of all Paren nodes"""
    out = []
    if isinstance(e, tuple):
        if e[0] == 'Paren':
            out.append(path)
        for i, c in enumerate(e):
            if isinstance(c, tuple):
                out += paren_paths(c, path + (i,))
    return out


def node_at(e, path):
    for i in path:
        e = e[i]
    return e


def right_edge_in_super(e):
    """does the text of e end with `in super`?  Such an expression absorbs neither a following suffix nor a
    tighter operator, so parentheses around an open-ended form ending that way are conservative, not needed
    (`if a then b in super {}` is the object extension of the whole `if`)"""
    while True:
        h = e[0]
        if h == 'InSuper':
            return True
        if h == 'Binary':
            e = e[4]
        elif h == 'Unary':
            e = e[3]
        elif h in ('Local', 'Func', 'Assert'):
            e = e[3]
        elif h in ('Import', 'ImportStr', 'ImportBin', 'Error'):
            e = e[2]
        elif h == 'If':
            e = e[3] if e[4] == '_' else e[4]
        else:
            return False


def drop_paren_at(e, path):
    if not path:
        assert e[0] == 'Paren'
        return e[2]
    i = path[0]
    return e[:i] + (drop_paren_at(e[i], path[1:]),) + e[i + 1:]


# =============================================================================================
# literal pools (payloads come from the implementation's lexer: the property is about the parser)

NUM_LITS = ['0', '1', '2', '7', '10', '42', '1.5', '0.10', '1e5', '1E+2', '2.5e-3', '0.0', '1e0', '3.14159',
            '123456789012345678901234567890', '100000', '0e9']
STR_LITS = ['""', '"a"', "'b'", '"a\\nb"', '"q\\"q"', "'it\\'s'", '"\\u00e9"', '"\\\\"', '@"v""v"', "@'w''w'",
            '"\u65e5\u672c\u00df"', '"\\t"', '"a b"', "'%s'", '"/"', '"x.y"', "''", '@""', '"in"', '"local"',
            '"#no comment"', '"/* nor this */"', '"|||"']
TB_LITS = ['|||\n  foo\n|||', '|||\n  a\n  b\n|||', '|||-\n  x\n|||', '|||\n\tt\n  |||', '|||\n  p\n\n  q\n|||']
IDENTS = ['a', 'b', 'c', 'x', 'y', 'z', 'foo', 'bar', '_t', 'x1', 'std', 'selfish', 'in_', 'iff', 'nulls', 'T']


def cps(s):
    return ','.join('%x' % ord(c) for c in s) if s else '-'


def uncps(w):
    return '' if w == '-' else ''.join(chr(int(x, 16)) for x in w.split(','))


def build_pools(exe):
    """lex every pool literal alone with the implementation; payload -> [literal texts]"""
    lits = [('Num', t) for t in NUM_LITS] + [('Str', t) for t in STR_LITS] + [('TB', t) for t in TB_LITS]
    cases = [('l%d' % i, 'front', ['lex0', hxl(list(t.encode('utf-8')))]) for i, (_, t) in enumerate(lits)]
    res = vlib.run_sharded(exe, [vlib.impl_line(c) for c in cases], timeout=60)
    pools = {'Num': {}, 'Str': {}, 'TB': {}}
    for (cid, _, _), (kind, t) in zip(cases, lits):
        r = res.get(cid, 'NOOUTPUT')
        f = r.split('\t')
        if f[0] != 'OK':
            raise RuntimeError('pool literal %r does not lex: %s' % (t, r[:200]))
        toks = read_all(f[1])
        if len(toks) != 2 or toks[0][0] != kind or toks[1][0] != 'EOF':
            raise RuntimeError('pool literal %r lexes as %s' % (t, f[1][:200]))
        payload = toks[0][1:-1]
        pools[kind].setdefault(payload, []).append(t)
    return pools


# =============================================================================================
# printer: tree -> token texts.  Tokens are always separated by white space / comments.

VIS = {'Default': ':', 'Hidden': '::', 'ForceVisible': ':::'}
SEPS = [' ', ' ', ' ', ' ', ' ', ' ', ' ', ' ', ' ', ' ', ' ', ' ', '\n', '  ', '\t', ' /* c */ ', ' # c\n', ' // c\n', '\r\n']


class Printer:
    def __init__(self, pools, rng=None):
        self.pools = pools
        self.rng = rng

    def coin(self, p=0.5):
        return self.rng is not None and self.rng.random() < p

    def pick(self, xs):
        return xs[0] if self.rng is None else self.rng.choice(xs)

    def text(self, e):
        toks = self.expr(e)
        if self.rng is None:
            return ' '.join(toks)
        out = []
        for i, t in enumerate(toks):
            if i:
                out.append(self.rng.choice(SEPS))
            out.append(t)
        if self.coin(0.2):
            out.insert(0, self.rng.choice(SEPS))
        if self.coin(0.2):
            out.append(self.rng.choice(SEPS))
        return ''.join(out)

    def name(self, idn):
        return uncps(idn[2])

    def commas(self, items, trailing=True):
        out = []
        for i, it in enumerate(items):
            if i:
                out.append(',')
            out += it
        if items and trailing and self.coin(0.25):
            out.append(',')
        return out

    def params(self, ps):
        items = []
        for p in ps[1:]:
            t = [self.name(p[1])]
            if p[2] != '_':
                t += ['='] + self.expr(p[2])
            items.append(t)
        return ['('] + self.commas(items) + [')']

    def bind(self, b):
        t = [self.name(b[1])]
        if b[2] != '_':
            t += self.params(b[2][2])
        return t + ['='] + self.expr(b[3])

    def assert_(self, a):
        t = ['assert'] + self.expr(a[2])
        if a[3] != '_':
            t += [':'] + self.expr(a[3])
        return t

    def fname(self, n):
        if n[0] == 'FnIdent':
            return [self.name(n[1])]
        if n[0] == 'FnString':
            return [self.pick(self.pools['Str'].get((n[1],), []) + self.pools['TB'].get((n[1],), []))]
        return ['['] + self.expr(n[1]) + [']']

    def member(self, m):
        if m[0] == 'MLocal':
            return ['local'] + self.bind(m[1])
        if m[0] == 'MAssert':
            return self.assert_(m[1])
        f = m[1]
        if f[0] == 'FValue':
            return self.fname(f[1]) + [('+' if f[2] == '1' else '') + VIS[f[3]]] + self.expr(f[4])
        return self.fname(f[1]) + self.params(f[2]) + [VIS[f[4]]] + self.expr(f[5])

    def specs(self, s):
        out = []
        for c in s[1:]:
            if c[0] == 'For':
                out += ['for', self.name(c[1]), 'in'] + self.expr(c[2])
            else:
                out += ['if'] + self.expr(c[1])
        return out

    def obj(self, o):
        if o[0] == 'Members':
            return self.commas([self.member(m) for m in o[1:]])
        items = [['local'] + self.bind(b) for b in o[1][1:]]
        items.append(['['] + self.expr(o[2]) + [']', '+:' if o[3] == '1' else ':'] + self.expr(o[4]))
        items += [['local'] + self.bind(b) for b in o[5][1:]]
        return self.commas(items) + self.specs(o[6])

    def slice_(self, a, b, c):
        A = [] if a == '_' else self.expr(a)
        B = [] if b == '_' else self.expr(b)
        C = [] if c == '_' else self.expr(c)
        if c == '_' and not self.coin(0.4):
            return A + [':'] + B
        if b == '_' and not self.coin(0.5):
            return A + ['::'] + C
        return A + [':'] + B + [':'] + C

    def expr(self, e):
        h = e[0]
        if h == 'Null':
            return ['null']
        if h == 'Bool':
            return ['true' if e[2] == '1' else 'false']
        if h == 'Self':
            return ['self']
        if h == 'Dollar':
            return ['$']
        if h == 'String':
            return [self.pick(self.pools['Str'][(e[2],)])]
        if h == 'TextBlock':
            return [self.pick(self.pools['TB'][(e[2],)])]
        if h == 'Number':
            return [self.pick(self.pools['Num'][(e[2], e[3])])]
        if h == 'Ident':
            return [self.name(e[2])]
        if h == 'Paren':
            return ['('] + self.expr(e[2]) + [')']
        if h == 'Object':
            return ['{'] + self.obj(e[2]) + ['}']
        if h == 'Array':
            return ['['] + self.commas([self.expr(x) for x in e[2:]]) + [']']
        if h == 'ArrayComp':
            return ['['] + self.expr(e[2]) + ([','] if self.coin(0.25) else []) + self.specs(e[3]) + [']']
        if h == 'Field':
            return self.expr(e[2]) + ['.', self.name(e[3])]
        if h == 'Index':
            return self.expr(e[2]) + ['['] + self.expr(e[3]) + [']']
        if h == 'Slice':
            return self.expr(e[2]) + ['['] + self.slice_(e[3], e[4], e[5]) + [']']
        if h == 'SuperField':
            return ['super', '.', self.name(e[3])]
        if h == 'SuperIndex':
            return ['super', '['] + self.expr(e[3]) + [']']
        if h == 'Call':
            items = []
            for a in e[4][1:]:
                items.append(self.expr(a[1]) if a[0] == 'Pos' else [self.name(a[1]), '='] + self.expr(a[2]))
            return self.expr(e[2]) + ['('] + self.commas(items) + [')'] + (['tailstrict'] if e[3] == '1' else [])
        if h == 'Local':
            return ['local'] + self.commas([self.bind(b) for b in e[2][1:]], trailing=False) + [';'] + self.expr(e[3])
        if h == 'If':
            return ['if'] + self.expr(e[2]) + ['then'] + self.expr(e[3]) + ([] if e[4] == '_' else ['else'] + self.expr(e[4]))
        if h == 'Binary':
            return self.expr(e[2]) + [BINTXT[e[3]]] + self.expr(e[4])
        if h == 'Unary':
            return [UNTXT[e[2]]] + self.expr(e[3])
        if h == 'ObjExt':
            return self.expr(e[2]) + ['{'] + self.obj(e[3]) + ['}']
        if h == 'Func':
            return ['function'] + self.params(e[2]) + self.expr(e[3])
        if h == 'Assert':
            return self.assert_(e[2]) + [';'] + self.expr(e[3])
        if h in ('Import', 'ImportStr', 'ImportBin'):
            return [h.lower()] + self.expr(e[2])
        if h == 'Error':
            return ['error'] + self.expr(e[2])
        if h == 'InSuper':
            return self.expr(e[2]) + ['in', 'super']
        raise ValueError('printer: unknown node %r' % (h,))


# =============================================================================================
# random trees (no Paren nodes: the needed ones come from fix, the redundant ones from wrap_*)

def ident(name):
    return ('Id', '@', cps(name))


def var(name):
    return ('Ident', '@', ident(name))


class Gen:
    def __init__(self, rng, pools):
        self.rng = rng
        self.nums = sorted(pools['Num'])
        self.strs = sorted(pools['Str'])
        self.tbs = sorted(pools['TB'])

    def split(self, n, k):
        """k non-negative sizes summing to about n"""
        if k == 0:
            return []
        cuts = sorted(self.rng.randint(0, max(0, n)) for _ in range(k - 1))
        parts, prev = [], 0
        for c in cuts + [max(0, n)]:
            parts.append(c - prev)
            prev = c
        self.rng.shuffle(parts)
        return parts

    def idn(self):
        return ident(self.rng.choice(IDENTS))

    def atom(self):
        r = self.rng.random()
        if r < 0.40:
            return ('Ident', '@', self.idn())
        if r < 0.62:
            p = self.rng.choice(self.nums)
            return ('Number', '@', p[0], p[1])
        if r < 0.78:
            return ('String', '@', self.rng.choice(self.strs)[0])
        if r < 0.81:
            return ('TextBlock', '@', self.rng.choice(self.tbs)[0])
        if r < 0.86:
            return ('Null', '@')
        if r < 0.92:
            return ('Bool', '@', self.rng.choice('01'))
        if r < 0.96:
            return ('Self', '@')
        return ('Dollar', '@')

    def params(self, n):
        k = self.rng.choice([0, 1, 1, 2, 3])
        sizes = self.split(n, k)
        ps = []
        for s in sizes:
            ps.append(('Param', self.idn(), self.expr(s) if self.rng.random() < 0.35 else '_'))
        return ('Params',) + tuple(ps)

    def bind(self, n):
        if self.rng.random() < 0.3:
            a, b = self.split(n, 2)
            return ('Bind', self.idn(), ('P', '@', self.params(a)), self.expr(b))
        return ('Bind', self.idn(), '_', self.expr(n))

    def assert_(self, n):
        if self.rng.random() < 0.5:
            a, b = self.split(n, 2)
            return ('A', '@', self.expr(a), self.expr(b))
        return ('A', '@', self.expr(n), '_')

    def fname(self, n):
        r = self.rng.random()
        if r < 0.5:
            return ('FnIdent', self.idn())
        if r < 0.72:
            return ('FnString', self.rng.choice(self.strs)[0], '@')
        if r < 0.75:
            return ('FnString', self.rng.choice(self.tbs)[0], '@')
        return ('FnExpr', self.expr(n), '@')

    def member(self, n):
        r = self.rng.random()
        if r < 0.15:
            return ('MLocal', self.bind(n))
        if r < 0.25:
            return ('MAssert', self.assert_(n))
        if r < 0.82:
            a, b = self.split(n, 2)
            return ('MField', ('FValue', self.fname(a), self.rng.choice('0001'),
                               self.rng.choice(['Default', 'Default', 'Hidden', 'ForceVisible']), self.expr(b)))
        a, b, c = self.split(n, 3)
        return ('MField', ('FFunc', self.fname(a), self.params(b), '@',
                           self.rng.choice(['Default', 'Default', 'Hidden', 'ForceVisible']), self.expr(c)))

    def specs(self, n):
        k = self.rng.choice([1, 1, 2, 3])
        sizes = self.split(n, k)
        out = [('For', self.idn(), self.expr(sizes[0]))]
        for s in sizes[1:]:
            out.append(('For', self.idn(), self.expr(s)) if self.rng.random() < 0.5 else ('IfSpec', self.expr(s)))
        return ('Specs',) + tuple(out)

    def objinside(self, n):
        if self.rng.random() < 0.25:
            k1, k2 = self.rng.choice([0, 0, 1, 2]), self.rng.choice([0, 0, 1, 2])
            sizes = self.split(n, k1 + k2 + 3)
            l1 = tuple(self.bind(s) for s in sizes[:k1])
            l2 = tuple(self.bind(s) for s in sizes[k1:k1 + k2])
            a, b, c = sizes[k1 + k2:]
            return ('Comp', ('Locals',) + l1, self.expr(a), self.rng.choice('0001'), self.expr(b),
                    ('Locals',) + l2, self.specs(c))
        k = self.rng.choice([0, 1, 1, 2, 2, 3, 4])
        return ('Members',) + tuple(self.member(s) for s in self.split(n, k))

    def args(self, n):
        k = self.rng.choice([0, 1, 1, 2, 3])
        out = []
        for s in self.split(n, k):
            if self.rng.random() < 0.3:
                out.append(('Named', self.idn(), self.expr(s)))
            else:
                out.append(('Pos', self.expr(s)))
        return ('Args',) + tuple(out)

    def expr(self, n):
        rng = self.rng
        if n <= 1:
            if rng.random() < 0.08:
                return rng.choice([('Array', '@'), ('Object', '@', ('Members',)), ('SuperField', '@', '@', self.idn())])
            return self.atom()
        n -= 1
        r = rng.random()
        if r < 0.30:
            a, b = self.split(n, 2)
            lv = rng.choice(SPEC_LEVELS)
            return ('Binary', '@', self.expr(a), rng.choice(lv)[1], self.expr(b))
        if r < 0.38:
            return ('Unary', '@', rng.choice(UNARY)[1], self.expr(n))
        if r < 0.44:
            return ('Field', '@', self.expr(n), self.idn())
        if r < 0.49:
            a, b = self.split(n, 2)
            return ('Index', '@', self.expr(a), self.expr(b))
        if r < 0.54:
            a, b, c, d = self.split(n, 4)
            return ('Slice', '@', self.expr(a)) + tuple(self.expr(s) if rng.random() < 0.55 else '_' for s in (b, c, d))
        if r < 0.61:
            a, b = self.split(n, 2)
            return ('Call', '@', self.expr(a), rng.choice('0001'), self.args(b))
        if r < 0.65:
            a, b = self.split(n, 2)
            return ('ObjExt', '@', self.expr(a), self.objinside(b), '@')
        if r < 0.71:
            return ('Object', '@', self.objinside(n))
        if r < 0.75:
            k = rng.choice([1, 2, 3])
            return ('Array', '@') + tuple(self.expr(s) for s in self.split(n, k))
        if r < 0.78:
            a, b = self.split(n, 2)
            return ('ArrayComp', '@', self.expr(a), self.specs(b))
        if r < 0.83:
            k = rng.choice([1, 1, 2])
            sizes = self.split(n, k + 1)
            return ('Local', '@', ('Binds',) + tuple(self.bind(s) for s in sizes[:k]), self.expr(sizes[k]))
        if r < 0.89:
            a, b, c = self.split(n, 3)
            return ('If', '@', self.expr(a), self.expr(b), self.expr(c) if rng.random() < 0.6 else '_')
        if r < 0.91:
            a, b = self.split(n, 2)
            return ('Func', '@', self.params(a), self.expr(b))
        if r < 0.93:
            a, b = self.split(n, 2)
            return ('Assert', '@', self.assert_(a), self.expr(b))
        if r < 0.95:
            return (rng.choice(['Import', 'ImportStr', 'ImportBin']), '@', self.expr(n))
        if r < 0.97:
            return ('Error', '@', self.expr(n))
        if r < 0.985:
            return ('InSuper', '@', self.expr(n), '@')
        if rng.random() < 0.5:
            return ('SuperField', '@', '@', self.idn())
        return ('SuperIndex', '@', '@', self.expr(n))


# =============================================================================================
# O2: operator sequences.  Symbols: ('un', op) ('bin', op) ('post', kind)

POSTS = ['.f', '[i]', '[p:q]', '(x)', '(x) tailstrict', '{}', 'in super']
SYM_UN = [('un', o) for _, o in UNARY]
SYM_BIN_ALL = [('bin', o) for l in SPEC_LEVELS for _, o in l]
SYM_BIN_REP = [('bin', l[0][1]) for l in SPEC_LEVELS] + [('bin', 'In')]
SYM_POST = [('post', p) for p in POSTS]
ATOMS = 'abcde'


def sym_name(s):
    return (s[1] if s[0] != 'post' else {'.f': 'field', '[i]': 'index', '[p:q]': 'slice', '(x)': 'call',
                                         '(x) tailstrict': 'calltail', '{}': 'objext', 'in super': 'insuper'}[s[1]]) \
        if s[0] != 'un' else 'u' + s[1]


def iter_seqs(n, bins):
    """all symbol sequences of length n (deterministic order); a unary operator only where an operand is expected"""
    def go(prefix, need):
        if len(prefix) == n:
            yield tuple(prefix)
            return
        if need:
            for s in SYM_UN:
                yield from go(prefix + [s], True)
        for s in bins:
            yield from go(prefix + [s], True)
        for s in SYM_POST:
            yield from go(prefix + [s], False)
    return go([], True)


def enum_seqs(n, bins):
    return list(iter_seqs(n, bins))


def count_seqs(n, nb):
    need, have = 1, 1
    for _ in range(n):
        need, have = (len(SYM_UN) + nb) * need + len(SYM_POST) * have, nb * need + len(SYM_POST) * have
    return need


def random_seq(rng, n, bins):
    seq, need = [], True
    for _ in range(n):
        r = rng.random()
        if need and r < 0.25:
            seq.append(rng.choice(SYM_UN))
        elif r < 0.7:
            seq.append(rng.choice(bins))
            need = True
        else:
            seq.append(rng.choice(SYM_POST))
            need = False
    return tuple(seq)


def seq_tokens(seq):
    """symbol sequence -> flat token list of the expression `a op b op c …` (operand atoms are inserted
    wherever one is needed) as (kind, value) pairs"""
    toks, need, k = [], True, 0
    for s in seq:
        if s[0] == 'un':
            toks.append(s)
            continue
        if need:
            toks.append(('atom', ATOMS[k]))
            k += 1
            need = False
        toks.append(s)
        if s[0] == 'bin':
            need = True
    if need:
        toks.append(('atom', ATOMS[k]))
    return toks


POST_TXT = {'.f': '. f', '[i]': '[ i ]', '[p:q]': '[ p : q ]', '(x)': '( x )', '(x) tailstrict': '( x ) tailstrict',
            '{}': '{ }', 'in super': 'in super'}


def seq_text(toks):
    out = []
    for k, v in toks:
        if k == 'atom':
            out.append(v)
        elif k == 'un':
            out.append(UNTXT[v])
        elif k == 'bin':
            out.append(BINTXT[v])
        else:
            out.append(POST_TXT[v])
    return ' '.join(out)


class SpecError(Exception):
    pass


class SpecParser:
    """precedence climbing over the flat symbol list, written from the specification table"""

    def __init__(self, toks):
        # `e in super` is its own form; `super.f` / `super[e]` are primaries: resolve which one is meant
        t2, i = [], 0
        while i < len(toks):
            t = toks[i]
            if t == ('post', 'in super') and i + 1 < len(toks) and toks[i + 1][0] == 'post' and toks[i + 1][1] != 'in super':
                nxt = toks[i + 1][1]
                if nxt == '.f':
                    t2 += [('bin', 'In'), ('prim', ('SuperField', '@', '@', ident('f')))]
                elif nxt == '[i]':
                    t2 += [('bin', 'In'), ('prim', ('SuperIndex', '@', '@', var('i')))]
                else:
                    raise SpecError('`in super` followed by %s' % nxt)
                i += 2
                continue
            t2.append(t)
            i += 1
        self.t = t2
        self.i = 0

    def peek(self):
        return self.t[self.i] if self.i < len(self.t) else ('end', None)

    def parse(self):
        e = self.binary(0)
        if self.peek()[0] != 'end':
            raise SpecError('trailing tokens')
        return e

    def binary(self, minlvl):
        lhs = self.unary()
        cap = len(SPEC_LEVELS) - 1      # lhs is an expression of level `cap` or tighter: an operator that binds
        while True:                     # tighter than `cap` cannot take it as its left operand (only `e in super`,
            k, v = self.peek()          # which has no right operand, can make that happen)
            if k == 'bin' and minlvl <= BINLEVEL[v] <= cap:
                self.i += 1
                rhs = self.binary(BINLEVEL[v] + 1)
                lhs = ('Binary', '@', lhs, v, rhs)
                cap = BINLEVEL[v]
            elif k == 'post' and v == 'in super' and minlvl <= ORDCMP <= cap:
                self.i += 1
                lhs = ('InSuper', '@', lhs, '@')
                cap = ORDCMP
            else:
                return lhs

    def unary(self):
        k, v = self.peek()
        if k == 'un':
            self.i += 1
            return ('Unary', '@', v, self.unary())
        return self.postfix()

    def postfix(self):
        k, v = self.peek()
        if k == 'atom':
            e = var(v)
        elif k == 'prim':
            e = v
        else:
            raise SpecError('operand expected')
        self.i += 1
        while True:
            k, v = self.peek()
            if k != 'post' or v == 'in super':
                return e
            self.i += 1
            if v == '.f':
                e = ('Field', '@', e, ident('f'))
            elif v == '[i]':
                e = ('Index', '@', e, var('i'))
            elif v == '[p:q]':
                e = ('Slice', '@', e, var('p'), var('q'), '_')
            elif v == '(x)':
                e = ('Call', '@', e, '0', ('Args', ('Pos', var('x'))))
            elif v == '(x) tailstrict':
                e = ('Call', '@', e, '1', ('Args', ('Pos', var('x'))))
            else:
                e = ('ObjExt', '@', e, ('Members',), '@')


def o2_specs(cid, seq, pools):
    """the two concrete cases (plain text, fully parenthesised text) of one operator sequence"""
    toks = seq_tokens(seq)
    names = [sym_name(s) for s in seq]
    text = seq_text(toks)
    try:
        exp = SpecParser(toks).parse()
    except SpecError:
        return [dict(cid=cid + 'p', kind='o2', src=text.encode(), meta={'expect': None, 'names': names, 'form': 'plain'})]
    full = Printer(pools).text(wrap_all(exp))
    return [dict(cid=cid + 'p', kind='o2', src=text.encode(), meta={'expect': exp, 'names': names, 'form': 'plain'}),
            dict(cid=cid + 'f', kind='o2', src=full.encode(), meta={'expect': exp, 'names': names, 'form': 'full'})]


# =============================================================================================
# O3: slice layouts

def o3_specs():
    out = []
    sets = [('p', 'q', 'r'), ('p + 1', '- q', 'f ( r )'), ('if t then u else v', 'q . g', 'r [ 0 ]')]
    pr = None

    def tree_of(txt):
        return {'p': var('p'), 'q': var('q'), 'r': var('r'),
                'p + 1': ('Binary', '@', var('p'), 'Add', ('Number', '@', '31', '0')),
                '- q': ('Unary', '@', 'Minus', var('q')),
                'f ( r )': ('Call', '@', var('f'), '0', ('Args', ('Pos', var('r')))),
                'if t then u else v': ('If', '@', var('t'), var('u'), var('v')),
                'q . g': ('Field', '@', var('q'), ident('g')),
                'r [ 0 ]': ('Index', '@', var('r'), ('Number', '@', '30', '0'))}[txt]
    n = 0
    for si, (ta, tb, tc) in enumerate(sets):
        layouts = []
        # index
        layouts.append(([ta], ('Index', (1, 0, 0))))
        for pa in (0, 1):
            for pb in (0, 1):
                layouts.append((([ta] if pa else []) + [':'] + ([tb] if pb else []), ('Slice', (pa, pb, 0))))
                for pc in (0, 1):
                    layouts.append((([ta] if pa else []) + [':'] + ([tb] if pb else []) + [':'] + ([tc] if pc else []),
                                    ('Slice', (pa, pb, pc))))
                    if not pb:
                        layouts.append((([ta] if pa else []) + ['::'] + ([tc] if pc else []), ('Slice', (pa, 0, pc))))
        for toks, (head, (pa, pb, pc)) in layouts:
            a, b, c = (tree_of(ta) if pa else '_'), (tree_of(tb) if pb else '_'), (tree_of(tc) if pc else '_')
            exp = ('Index', '@', var('x'), a) if head == 'Index' else ('Slice', '@', var('x'), a, b, c)
            variants = {'x[ ' + ' '.join(toks) + ' ]'}
            if si == 0:
                variants.add('x[' + ''.join(toks) + ']')      # tight: adjacent `:` `:` lex as `::`
            for v in sorted(variants):
                out.append(dict(cid='o3_%d' % n, kind='o3', src=v.encode(), meta={'expect': exp, 'layout': v}))
                n += 1
    for bad in ['x[]', 'x[:::]', 'x[p:::r]', 'x[p:q:r:s]', 'x[p q]', 'x[::::]', 'x[p:q::]', 'x[::r:]', 'x[:q::r]', 'x[p:q', 'x[p::',
                'x[: : :]', 'x[p,q]']:
        out.append(dict(cid='o3_%d' % n, kind='o3', src=bad.encode(), meta={'expect': None, 'layout': bad}))
        n += 1
    return out


# =============================================================================================
# tokens of a dump, error oracles

BINOP_TOKENS = {'PipePipe', 'AmpAmp', 'Pipe', 'Hat', 'Amp', 'EqEq', 'ExclamEq', 'Lt', 'LtEq', 'Gt', 'GtEq', 'In',
                'LtLt', 'GtGt', 'Plus', 'Minus', 'Asterisk', 'Slash', 'Percent'}
EXPR_START_S = {'Null', 'False', 'True', 'Self_', 'Dollar', 'LeftBrace', 'LeftBracket', 'Super', 'Local', 'If', 'Function',
                'Assert', 'Import', 'Importstr', 'Importbin', 'Error', 'LeftParen', 'Plus', 'Minus', 'Tilde', 'Exclam'}
STOKENS = {'Assert', 'Else', 'Error', 'False', 'For', 'Function', 'If', 'Import', 'Importstr', 'Importbin', 'In', 'Local',
           'Null', 'Tailstrict', 'Then', 'Self_', 'Super', 'True', 'Exclam', 'ExclamEq', 'Dollar', 'Percent', 'Amp', 'AmpAmp',
           'LeftParen', 'RightParen', 'Asterisk', 'Plus', 'PlusColon', 'PlusColonColon', 'PlusColonColonColon', 'Comma',
           'Minus', 'Dot', 'Slash', 'Colon', 'ColonColon', 'ColonColonColon', 'Semicolon', 'Lt', 'LtLt', 'LtEq', 'Eq', 'EqEq',
           'Gt', 'GtEq', 'GtGt', 'LeftBracket', 'RightBracket', 'Hat', 'LeftBrace', 'Pipe', 'PipePipe', 'RightBrace', 'Tilde'}
EXPECTED_NAMES = {'EndOfFile', 'Ident', 'Number', 'String', 'TextBlock', 'Expr', 'BinaryOp'} | {'S' + k for k in STOKENS}


def tok_instead(t):
    h = t[0]
    if h == 'EOF':
        return 'EndOfFile'
    if h == 'S':
        return 'S' + t[1]
    if h == 'Op':
        return 'Op:' + t[1]
    if h == 'Id':
        return 'Id:' + t[1]
    return {'Num': 'Number', 'Str': 'String', 'TB': 'TextBlock'}.get(h, '?' + h)


def tok_expected_class(t):
    """the ExpectedToken name that would have matched this token"""
    h = t[0]
    if h == 'EOF':
        return 'EndOfFile'
    if h == 'S':
        return 'S' + t[1]
    return {'Id': 'Ident', 'Num': 'Number', 'Str': 'String', 'TB': 'TextBlock'}.get(h)


def tok_sig(t):
    """a token without its span"""
    return t[:-1]


def check_error(f):
    """O5 on one `ERR PARSE` answer (fields f).  Returns (key, problem | None, error token index, tokens)"""
    LOC, EXP = 'error-location', 'error-expected-contradiction'
    if len(f) < 6 or not f[5].startswith('TOK='):
        return LOC, 'malformed ERR PARSE answer', None, None
    span, expected, instead = f[2], f[3], f[4]
    toks = read_all(f[5][4:])
    idx = [i for i, t in enumerate(toks) if t[-1] == span]
    if len(idx) != 1:
        return LOC, 'error span %s is not the span of exactly one token of the stream' % span, None, toks
    t = toks[idx[0]]
    if tok_instead(t) != instead:
        return LOC, 'error at token %s but `instead` says %s' % (to_sexp(t), instead), idx[0], toks
    ex = expected.split(',') if expected else []
    if not ex:
        return LOC, 'empty expected set', idx[0], toks
    if ex != sorted(set(ex)) or any(x not in EXPECTED_NAMES for x in ex):
        return EXP, 'expected set %s is not a sorted set of known names' % expected, idx[0], toks
    if tok_expected_class(t) in ex:
        return EXP, 'expected set %s contains the token found (%s)' % (expected, instead), idx[0], toks
    after_in_super = idx[0] >= 2 and toks[idx[0] - 1][:2] == ('S', 'Super') and toks[idx[0] - 2][:2] == ('S', 'In')
    if 'BinaryOp' in ex and t[0] == 'S' and t[1] in BINOP_TOKENS and not after_in_super:
        # (after `e in super` only operators of the comparison level or looser can continue; a tighter one is
        # reported with the generic BinaryOp expectation)
        return EXP, 'a binary operator expected, yet the token found is the binary operator %s' % instead, idx[0], toks
    if 'Expr' in ex and (t[0] in ('Id', 'Num', 'Str', 'TB') or (t[0] == 'S' and t[1] in EXPR_START_S)):
        return EXP, 'an expression expected, yet the token found (%s) starts one' % instead, idx[0], toks
    return None, None, idx[0], toks


def check_spans(toks_text, ast):
    """O4 on one accepted tree (ast read WITH spans).  Returns a problem or None"""
    toks = read_all(toks_text)
    if not toks or toks[-1][0] != 'EOF':
        return 'token stream does not end with EOF'
    starts, ends = set(), set()
    prev_end = 0
    for t in toks:
        a, b = sp_parse(t[-1])
        if a > b or a < prev_end:
            return 'token spans not ordered at %s' % to_sexp(t)
        prev_end = b
        starts.add(a)
        ends.add(b)
    if len(toks) < 2:
        return 'accepted an empty token stream'
    first, last = sp_parse(toks[0][-1])[0], sp_parse(toks[-2][-1])[1]
    if ast[0] not in EXPR_HEADS:
        return 'root is not an expression'
    if sp_parse(ast[1]) != (first, last):
        return 'root span %s is not first token start .. last token end (%x:%x)' % (ast[1], first, last)
    stack = [(ast, (first, last))]
    while stack:
        node, enc = stack.pop()
        kinds = kinds_of(node)
        own = None
        if kinds[:1] == 's':
            own = sp_parse(node[1])
        elif node[0] in ('FnString', 'FnExpr'):
            own = sp_parse(node[2])
        for k, c in zip(kinds, node[1:]):
            if k == 's':
                a, b = sp_parse(c)
                if a > b:
                    return 'span %s of %s has start > end' % (c, node[0])
                if a not in starts or b not in ends:
                    return 'span %s of %s is not aligned to token boundaries' % (c, node[0])
        if own is not None:
            if not (enc[0] <= own[0] and own[1] <= enc[1]):
                return 'span %x:%x of %s is outside its parent span %x:%x' % (own[0], own[1], node[0], enc[0], enc[1])
        inner = own if own is not None else enc
        for k, c in zip(kinds, node[1:]):
            if k == 's':
                a, b = sp_parse(c)
                if not (inner[0] <= a and b <= inner[1]):
                    return 'span %s inside %s is outside the node span %x:%x' % (c, node[0], inner[0], inner[1])
            elif isinstance(c, tuple):
                if k == 'a':
                    return 'node where an atom is required in %s' % node[0]
                stack.append((c, inner))
            elif k in 'en' or (k in 'om' and c != '_'):
                return 'atom %r where a node is required in %s' % (c, node[0])
    return None


# =============================================================================================
# the worker: run a batch of cases on the implementation, apply the oracles, derive token-level
# mutations of accepted texts, run the model on the implementation's token streams, compare.

INSERTABLE = [')', ']', '}', ',', ';', ':', 'then', 'else', '1', 'x', '+', '*', '(', '[', '{', 'in', 'for', 'if', '.', '::',
              '=', '"s"', 'local', 'function', 'tailstrict', 'super', '<=>', '!', '$']


class Acc:
    def __init__(self):
        self.viol = []
        self.counts = {}
        self.nontrivial = set()
        self.samples = []
        self.evals = 0
        self.perkey = {}

    def count(self, k, n=1):
        self.counts[k] = self.counts.get(k, 0) + n

    def violation(self, key, what, replay, concrete=True):
        self.perkey[key] = self.perkey.get(key, 0) + 1
        if self.perkey[key] <= MAX_PER_KEY:
            self.viol.append((key, what, replay, concrete))
        else:
            self.count('suppressed_repeat:' + key)


def spec_replay(spec, extra=None):
    meta = {}
    for k, v in (spec.get('meta') or {}).items():
        meta[k] = to_sexp(v) if isinstance(v, tuple) else v
    r = {'kind': spec['kind'], 'source_hex': hxl(list(spec['src'])), 'source': spec['src'].decode('utf-8', 'replace')[:400],
         'meta': meta}
    if extra:
        r.update(extra)
    return r


def run_impl(cfg, specs):
    lines = [vlib.impl_line((s['cid'], 'front', ['parse', hxl(list(s['src']))])) for s in specs]
    if cfg.get('shards', 1) > 1:
        return vlib.run_sharded(cfg['exe'], lines, timeout=cfg.get('timeout', 180), shards=cfg['shards'])
    return vlib.run_lines(cfg['exe'], lines, timeout=cfg.get('timeout', 180))


def judge(acc, spec, r):
    """all implementation-only oracles on one answered case.  Returns a record for K:
    dict(spec, fields, flagged, toks_text)"""
    acc.evals += 1
    f = r.split('\t')
    kind, meta = spec['kind'], spec.get('meta') or {}
    rec = {'spec': spec, 'f': f, 'flagged': False, 'raw': r}
    src = spec['src']

    def flag(key, what, extra=None):
        rec['flagged'] = True
        acc.violation(key, '%s — source %r' % (what, src[:300].decode('utf-8', 'replace')), spec_replay(spec, extra))

    if f[0] in ('PANIC', 'CRASH', 'TIMEOUT', 'NOOUTPUT'):
        flag('parse-crash:' + f[0], 'the parser %s (%s)' % (f[0], ' '.join(f[1:])[:200]))
        acc.count('outcome:' + f[0])
        return rec
    outcome = f[0] if f[0] == 'OK' else (f[0] + ':' + f[1] if len(f) > 1 else f[0])
    acc.count('outcome:' + outcome)
    acc.count('kind:' + kind)
    ast = ast_e = None
    err_idx = toks = None
    if f[0] == 'OK':
        try:
            ast = read_one(f[2])
            ast_e = read_one(f[2], erase=True)
            why = check_spans(f[1], ast)
        except (ValueError, IndexError) as ex:
            why = 'unreadable dump: %s' % ex
        if why:
            flag('span-nesting', why)
        acc.nontrivial.add('t' + shape_key(f[2]))
    elif outcome == 'ERR:PARSE':
        ekey, why, err_idx, toks = check_error(f)
        if why:
            flag(ekey, why)
        acc.nontrivial.add('e%s/%s' % (f[3], f[4].split(':')[0]))
        acc.count('err_instead:' + f[4].split(':')[0])
    elif outcome != 'ERR:LEX':
        flag('parse-crash:UNKNOWN-ANSWER', 'unknown answer %s' % r[:200])
        return rec
    rec['err_idx'] = err_idx

    # ---- kind specific oracles
    if kind == 'o1min':
        exp = get_tree(meta['expect'])
        if f[0] != 'OK':
            flag('print-reparse', 'a printed tree is rejected: %s' % r[:160])
        elif ast_e != exp:
            d = first_diff(exp, ast_e)
            flag('print-reparse', 'print -> parse changes the tree: %s became %s' % (to_sexp(d[0])[:160], to_sexp(d[1])[:160]))
    elif kind == 'o1red':
        exp = get_tree(meta['expect'])
        if f[0] != 'OK':
            flag('redundant-parens', 'a tree printed with redundant parentheses (%s) is rejected: %s' % (meta.get('form'), r[:160]))
        elif erase_parens(ast_e) != exp:
            d = first_diff(exp, erase_parens(ast_e))
            flag('redundant-parens', 'redundant parentheses (%s) change the tree: %s became %s'
                 % (meta.get('form'), to_sexp(d[0])[:160], to_sexp(d[1])[:160]))
    elif kind == 'o1drop':
        exp = get_tree(meta['expect'])
        if f[0] == 'OK' and erase_parens(ast_e) == exp:
            flag('minimal-parens', 'removing a grouping pair of parentheses does not change the parsed tree')
    elif kind == 'o2':
        names = meta['names']
        if meta['expect'] is None:
            if f[0] == 'OK':
                flag('precedence:%s:accepted' % '_'.join(names), 'operator sequence that has no reading is accepted')
        else:
            exp = get_tree(meta['expect'])
            if f[0] != 'OK':
                flag('precedence:%s:error' % '_'.join(names), 'operator sequence (%s text) rejected: %s' % (meta['form'], r[:160]))
            else:
                got = erase_parens(ast_e)
                if got != exp:
                    d = first_diff(exp, got)
                    flag('precedence:%s:%s' % (desc(d[0]), desc(d[1])),
                         'grouping of operator sequence %s (%s text) differs from the precedence table: expected %s, parsed %s'
                         % (' '.join(names), meta['form'], to_sexp(exp)[:300], to_sexp(got)[:300]))
    elif kind == 'o3':
        if meta['expect'] is None:
            if f[0] == 'OK':
                flag('slice-layout:' + meta['layout'], 'malformed index/slice is accepted')
            elif outcome != 'ERR:PARSE':
                flag('slice-layout:' + meta['layout'], 'malformed index/slice: %s' % r[:100])
        else:
            exp = get_tree(meta['expect'])
            if f[0] != 'OK':
                flag('slice-layout:' + meta['layout'], 'slice layout rejected: %s' % r[:160])
            elif ast_e != exp:
                flag('slice-layout:' + meta['layout'], 'slice layout parsed as %s, expected %s' % (to_sexp(ast_e)[:200], to_sexp(exp)[:200]))
    elif kind == 'trunc':
        # the text is a token-boundary prefix of an accepted text: viable prefix, so only EOF can be wrong
        if outcome == 'ERR:PARSE' and toks is not None and err_idx is not None:
            want = [tuple(x) for x in meta['prefix']]
            have = [tok_sig(t) for t in toks[:-1]]
            if have != want:
                acc.count('trunc_relex_differs')
            elif err_idx != len(toks) - 1:
                flag('error-location', 'a prefix of an accepted text fails at token #%d (%s), not at end of file'
                     % (err_idx, to_sexp(toks[err_idx])))
        elif outcome == 'ERR:LEX':
            acc.count('trunc_lex_error')
    elif kind == 'mut':
        if outcome == 'ERR:PARSE' and toks is not None and err_idx is not None:
            i = meta['at']
            want = [tuple(x) for x in meta['prefix']]
            have = [tok_sig(t) for t in toks[:i]]
            if have != want:
                acc.count('mut_relex_differs')
            elif err_idx < i:
                flag('error-location', 'tokens 0..%d are a prefix of an accepted text, yet the error is reported at token #%d (%s)'
                     % (i - 1, err_idx, to_sexp(toks[err_idx])))
        elif f[0] == 'OK':
            acc.count('mut_still_valid')
    if len(acc.samples) < 4 and kind in ('o1min', 'corpus', 'mut'):
        acc.samples.append({'component': 'front parse', 'kind': kind, 'source': src[:160].decode('utf-8', 'replace'), 'result': r[:240]})
    return rec


def derive(cfg, recs):
    """token-level truncations / deletions / insertions of accepted texts"""
    out = []
    for rec in recs:
        spec = rec['spec']
        per = spec.get('derive', 0)
        if not per or rec['f'][0] != 'OK':
            continue
        rng = random.Random('%s/%s/derive/%s' % (cfg['seed'], ID, spec['cid']))
        toks = read_all(rec['f'][1])
        n = len(toks) - 1          # without EOF
        if n < 1 or n > 4000:
            continue
        src = spec['src']
        spans = [sp_parse(t[-1]) for t in toks]
        sigs = [list(tok_sig(t)) for t in toks]
        for j in range(per):
            i = rng.randrange(0, n + 1) if j else rng.choice([0, n, max(0, n - 1)])
            cut = spans[i][0] if i < n else len(src)
            if i == n:
                cut = spans[n - 1][1]
            out.append(dict(cid='%s.t%d' % (spec['cid'], j), kind='trunc', src=src[:cut], meta={'prefix': sigs[:i], 'of': spec['cid']}))
            i = rng.randrange(0, n)
            out.append(dict(cid='%s.d%d' % (spec['cid'], j), kind='mut', src=src[:spans[i][0]] + b' ' + src[spans[i][1]:],
                            meta={'at': i, 'prefix': sigs[:i], 'op': 'delete', 'of': spec['cid']}))
            i = rng.randrange(0, n + 1)
            cut = spans[i][0]
            ins = rng.choice(INSERTABLE).encode()
            out.append(dict(cid='%s.i%d' % (spec['cid'], j), kind='mut', src=src[:cut] + b' ' + ins + b' ' + src[cut:],
                            meta={'at': i, 'prefix': sigs[:i], 'op': 'insert ' + ins.decode(), 'of': spec['cid']}))
    return out


def run_model_lines(cfg, lines):
    if cfg.get('shards', 1) > 1:
        return vlib.run_sharded(cfg['model'], lines, timeout=cfg.get('timeout', 180), shards=cfg['shards'])
    return vlib.run_lines(cfg['model'], lines, timeout=cfg.get('timeout', 180))


def model_with_retry(cfg, acc, items):
    """items: list of (id, op, [fields after the fuel]) -> dict id -> answer; FUEL answers are retried once with 8x fuel"""
    if not items:
        return {}
    res = run_model_lines(cfg, ['\t'.join([i, op, FUEL1] + fs) for i, op, fs in items])
    again = [(i, op, fs) for i, op, fs in items if res.get(i, 'NOOUTPUT').split('\t')[0] == 'FUEL']
    if again:
        acc.count('model_fuel_retries', len(again))
        res.update(run_model_lines(cfg, ['\t'.join([i, op, FUEL2] + fs) for i, op, fs in again]))
    return res


def correspond(cfg, acc, recs):
    """K: model on the implementation's token stream; printer round trip of every accepted tree"""
    if not cfg.get('model'):
        return
    items, want = [], []
    for rec in recs:
        f, cid = rec['f'], rec['spec']['cid']
        if cfg.get('quick') and rec['spec']['kind'] == 'o2' and rec['spec']['meta'].get('form') == 'full':
            acc.count('k_skipped_quick_fullparen_duplicate')     # same operators as the plain text of the sequence
            continue
        if f[0] == 'OK':
            items.append((cid, 'parse', [f[1]]))
            rec['rt'] = bool(rec['spec'].get('rt')) and len(rec['spec']['src']) < 4096
            if rec['rt']:
                items.append((cid + '#m', 'rt', [f[2], 'min']))
                items.append((cid + '#r', 'rt', [f[2], 'red']))
            want.append(rec)
        elif f[0] == 'ERR' and len(f) > 5 and f[1] == 'PARSE':
            items.append((cid, 'parse', [f[5][4:]]))
            want.append(rec)
        elif f[0] == 'ERR' and len(f) > 1 and f[1] == 'LEX':
            acc.count('k_skipped_lex_error')
    res = model_with_retry(cfg, acc, items)
    for rec in want:
        f, spec = rec['f'], rec['spec']
        cid = spec['cid']
        m = res.get(cid, 'NOOUTPUT')
        mf = m.split('\t')
        acc.evals += 1
        acc.count('k_cases')

        def disagree(key, what, conc=False):
            if rec['flagged']:
                acc.count('k_disagreement_on_oracle_failure')
                return
            acc.violation(key, '%s — source %r' % (what, spec['src'][:200].decode('utf-8', 'replace')),
                          spec_replay(spec, {'impl': rec['raw'][:2000], 'model': m[:2000], 'k': True}), concrete=conc)

        if mf[0] == 'FUEL':
            acc.count('model_undecided_fuel')
            disagree('model-fuel', 'model out of fuel (even with 8x) on the token stream')
            continue
        if mf[0] in ('MODELEXC', 'NOOUTPUT', 'CRASH', 'TIMEOUT') or mf[0] not in ('OK', 'ERR', 'PANIC'):
            disagree('model-machinery', 'model driver failure: %s' % m[:200])
            continue
        if mf[0] == 'OK' and len(mf) > 2 and mf[2].startswith('D='):
            try:
                d = int(mf[2][2:], 16)
                acc.count('model_depth:%s' % ('<8' if d < 8 else '<32' if d < 32 else '<128' if d < 128 else '>=128'))
            except ValueError:
                pass
        if f[0] == 'OK':
            if mf[0] != 'OK':
                disagree('parser-correspondence:outcome', 'implementation accepts, model answers %s' % m[:160])
            elif mf[1] != f[2]:
                disagree('parser-correspondence:ast', 'trees differ: implementation %s / model %s' % (f[2][:200], mf[1][:200]))
            else:
                acc.count('k_agree_ok')
            for tag, mode in ((('#m', 'min'), ('#r', 'red')) if rec.get('rt') else ()):
                a = res.get(cid + tag, 'NOOUTPUT')
                af = a.split('\t')
                acc.evals += 1
                if af[0] == 'SAME':
                    acc.count('rt_%s_same' % mode)
                elif af[0] == 'FUEL':
                    acc.count('model_undecided_fuel')
                    acc.violation('model-fuel', 'model round trip (%s) out of fuel (even with 8x) on %r' % (mode, spec['src'][:120]),
                                  spec_replay(spec, {'k': True, 'rt': mode}), concrete=False)
                else:
                    acc.violation('model-roundtrip', 'model print(%s) -> re-parse of a tree the implementation parsed from text answers %s — source %r'
                                  % (mode, a[:200], spec['src'][:200].decode('utf-8', 'replace')),
                                  spec_replay(spec, {'k': True, 'rt': mode, 'model': a[:2000]}), concrete=False)
        else:
            if mf[0] != 'ERR':
                disagree('parser-correspondence:outcome', 'implementation rejects (%s %s %s), model answers %s' % (f[2], f[3], f[4], m[:160]))
                continue
            ok = True
            if len(mf) < 4:
                disagree('model-machinery', 'short model ERR answer %s' % m[:100])
                continue
            if mf[1] != f[2]:
                ok = False
                disagree('parser-correspondence:error-span', 'error span: implementation %s / model %s' % (f[2], mf[1]))
            if mf[2] != f[3]:
                ok = False
                disagree('parser-correspondence:error-expected', 'expected set: implementation %s / model %s' % (f[3], mf[2]))
            if mf[3] != f[4]:
                ok = False
                disagree('parser-correspondence:error-instead', 'instead: implementation %s / model %s' % (f[4], mf[3]))
            if ok:
                acc.count('k_agree_err')


def expand(cfg, raw):
    """raw specs -> concrete specs (operator sequences are expanded in the worker)"""
    import itertools
    for s in raw:
        if s['kind'] == 'o2seq':
            yield from o2_specs(s['cid'], s['seq'], cfg['pools'])
        elif s['kind'] == 'o2range':
            for k, seq in enumerate(itertools.islice(iter_seqs(s['n'], SYM_BIN_ALL if s['all'] else SYM_BIN_REP), s['lo'], s['hi'])):
                yield from o2_specs('%s_%d' % (s['cid'], s['lo'] + k), seq, cfg['pools'])
        else:
            yield s


def run_batch(cfg, acc, specs):
    res = run_impl(cfg, specs)
    recs = [judge(acc, s, res.get(s['cid'], 'NOOUTPUT')) for s in specs]
    more = derive(cfg, recs)
    if more:
        res2 = run_impl(cfg, more)
        recs += [judge(acc, s, res2.get(s['cid'], 'NOOUTPUT')) for s in more]
    correspond(cfg, acc, recs)


def process(args):
    cfg, raw = args
    acc = Acc()
    batch = []
    for spec in expand(cfg, raw):
        batch.append(spec)
        if len(batch) >= cfg.get('batch', 6000):
            run_batch(cfg, acc, batch)
            batch = []
    if batch:
        run_batch(cfg, acc, batch)
    return acc


def merge(run, acc):
    run.evaluations += acc.evals
    for k, v in acc.counts.items():
        run.count(k, v)
    run.nontrivial |= acc.nontrivial
    for s in acc.samples:
        if len(run.samples) < 6:
            run.samples.append(s)
    seen = run.extra.setdefault('_perkey', {})
    for key, what, replay, concrete in acc.viol:
        seen[key] = seen.get(key, 0) + 1
        if seen[key] <= MAX_PER_KEY:
            run.violation(key, what, replay, concrete=concrete)
        else:
            run.count('suppressed_repeat:' + key)


def run_all(run, cfg, raw, chunk=24000):
    """shard the raw specs over worker processes (one fork per worker, few driver launches per worker:
    python-side reading of the dumps is the cost, process start-up the latency)"""
    if not raw:
        return
    weight = sum((s['hi'] - s['lo']) * 2 if s['kind'] == 'o2range' else 1 + 3 * s.get('derive', 0) for s in raw)
    n = max(vlib.NCPU, (weight + chunk - 1) // chunk)
    n = min(n, len(raw))
    chunks = [raw[i::n] for i in range(n)]      # interleaved: every chunk gets the same mix of kinds
    c = dict(cfg)
    c['shards'] = 1
    if n == 1:
        merge(run, process((c, chunks[0])))
        return
    with multiprocessing.get_context('fork').Pool(min(vlib.NCPU, n)) as pool:
        for acc in pool.imap_unordered(process, [(c, ch) for ch in chunks]):
            merge(run, acc)


# =============================================================================================
# corpus

def decode_corpus_line(l):
    """see the header of corpus/c15_parse.txt"""
    out = bytearray()
    i = 0
    b = l.encode('utf-8')
    while i < len(b):
        c = b[i:i + 1]
        if c == b'\\' and i + 1 < len(b):
            d = b[i + 1:i + 2]
            if d == b'n':
                out += b'\n'
            elif d == b't':
                out += b'\t'
            elif d == b'r':
                out += b'\r'
            elif d == b'\\':
                out += b'\\'
            elif d == b'#':
                out += b'#'
            elif d == b'e':
                pass
            elif d == b'x' and i + 3 < len(b) + 0:
                out.append(int(b[i + 2:i + 4], 16))
                i += 2
            else:
                raise ValueError('bad escape in corpus line %r' % l)
            i += 2
        else:
            out += c
            i += 1
    return bytes(out)


def corpus_specs():
    out = []
    p = os.path.join(vlib.VERIF, 'corpus', 'c15_parse.txt')
    if os.path.exists(p):
        for i, l in enumerate(open(p, encoding='utf-8')):
            l = l.rstrip('\n')
            if not l.strip() or l.startswith('#'):
                continue
            out.append(dict(cid='c%d' % i, kind='corpus', src=decode_corpus_line(l), meta={'line': i + 1}))
    files = []
    root = os.path.join(vlib.REPO, 'ui-tests')
    for d, _, fs in os.walk(root):
        for fn in fs:
            if fn.endswith('.jsonnet'):
                files.append(os.path.join(d, fn))
    files.sort()
    skipped = 0
    for i, fp in enumerate(files):
        if os.path.getsize(fp) > 200 * 1024:
            skipped += 1
            continue
        out.append(dict(cid='u%d' % i, kind='file', src=open(fp, 'rb').read(), meta={'file': os.path.relpath(fp, vlib.REPO)}))
    return out, len(files), skipped


SOUP = ['(', ')', '[', ']', '{', '}', ',', '.', ';', ':', '::', ':::', '+:', '+::', '+:::', '=', '==', '!=', '<', '<=', '>', '>=',
        '<<', '>>', '+', '-', '*', '/', '%', '&', '&&', '|', '||', '^', '~', '!', '$', 'assert', 'else', 'error', 'false', 'for',
        'function', 'if', 'import', 'importstr', 'importbin', 'in', 'local', 'null', 'tailstrict', 'then', 'self', 'super', 'true',
        'x', 'y', 'f', '1', '2.5', '"s"', "'t'", '<=>', '|||\n a\n|||']


def soup_specs(rng, n):
    out = []
    for i in range(n):
        k = rng.choice([1, 2, 3, 4, 5, 6, 8, 12])
        out.append(dict(cid='m%d' % i, kind='soup', src=' '.join(rng.choice(SOUP) for _ in range(k)).encode(), meta={}))
    return out


def o1_specs(rng, pools, n, drop_every=4):
    g = Gen(rng, pools)
    out = []
    for i in range(n):
        size = rng.choice([2, 3, 4, 6, 8, 12, 16, 24, 40])
        t = g.expr(size)
        te = t  # generated trees carry no Paren nodes
        tmin = fix(t)
        pr = Printer(pools, rng)
        out.append(dict(cid='p%d' % i, kind='o1min', src=enc(pr.text(tmin)),
                        meta={'expect': tmin}))
        tr = fix(wrap_rand(t, rng, rng.choice([0.1, 0.3, 0.6])))
        out.append(dict(cid='r%d' % i, kind='o1red', src=enc(pr.text(tr)), meta={'expect': te, 'form': 'random'}))
        if i % 3 == 0:
            out.append(dict(cid='w%d' % i, kind='o1red', src=enc(pr.text(fix(wrap_all(t)))), meta={'expect': te, 'form': 'full'}))
        if i % drop_every == 0:
            paths = [q for q in paren_paths(tmin) if not right_edge_in_super(node_at(tmin, q)[2])]
            if paths:
                dropped = drop_paren_at(tmin, rng.choice(paths))
                out.append(dict(cid='d%d' % i, kind='o1drop', src=enc(Printer(pools, rng).text(dropped)), meta={'expect': te}))
    return out


def enc(text):
    return text.encode('utf-8')


def o2_raw(rng, tier):
    raw = []
    if tier == 'quick':
        seqs = []
        for n in (1, 2):
            seqs += enum_seqs(n, SYM_BIN_ALL)
        seen = set(seqs)
        k = 0
        while k < 600:
            s = random_seq(rng, rng.choice([3, 4]), SYM_BIN_ALL)
            if s not in seen:
                seen.add(s)
                seqs.append(s)
                k += 1
    else:
        step = 3000
        for n, full in ((1, 1), (2, 1), (3, 1), (4, 0)):
            total = count_seqs(n, len(SYM_BIN_ALL if full else SYM_BIN_REP))
            for lo in range(0, total, step):
                raw.append(dict(cid='q%d' % n, kind='o2range', n=n, all=full, lo=lo, hi=min(total, lo + step)))
        seen = set()
        while len(seen) < 60000:
            seen.add(random_seq(rng, 4, SYM_BIN_ALL))
        for i, s in enumerate(sorted(seen)):
            raw.append(dict(cid='qs%d' % i, kind='o2seq', seq=s))
        return raw
    for i, s in enumerate(seqs):
        raw.append(dict(cid='q%d' % i, kind='o2seq', seq=s))
    return raw


# =============================================================================================
# main check

def check(run):
    rng = vlib.rng_for(run.seed, ID)
    run.rule = ('corpus: every ui-tests/**/*.jsonnet (<=200 KB) and every line of corpus/c15_parse.txt.  O1: random trees over all '
                'expression kinds (size 2..40 nodes) printed with the needed parentheses only / random redundant / full parentheses '
                '(random white space and comments between tokens) and re-parsed; every 4th also with one needed pair removed.  '
                'O2: operator sequences (19 binary, 4 prefix, 7 postfix forms incl. `in super`): all of length <=2 plus a seeded '
                'sample of lengths 3-4 in quick; in thorough all of length <=3, all of length 4 over one operator per level (+ `in`) and 60000 sampled of length 4 over all operators; each as plain and as fully parenthesised text against '
                'a precedence-climbing reference written from the specification table.  O3: every index/slice colon layout.  '
                'Malformed: truncation/deletion/insertion at a random token of accepted texts, random token soup.  O4/O5 on every '
                'answer.  K: the model parses the implementation\'s token stream of every case; accepted trees also go through '
                'the model printer (min/red) and back (every corpus line plus a seeded sample of accepted texts < 4 KB).  Distinct non-trivial key = tree shape with atoms and spans erased, or '
                '(expected set, kind of the offending token).')
    run.assume = ['lexer is outside this property: literal payloads (numbers, strings, text blocks) are taken from the implementation\'s own token dump',
                  'harness/src/astdump.rs prints the AST and token stream faithfully (identity self-test: component astecho)',
                  'model fuel: 40x token count, retried once with 320x; out-of-fuel is reported, never counted as agreement']
    # T
    try:
        tab = translate(vlib.REPO)
        run.add_obligation('T:precedence chain and operator arms translated from parser/expr.rs', True)
        run.notes.append('translated chain: ' + ' > '.join(tab['chain']))
    except Exception as e:
        run.add_obligation('T:precedence chain and operator arms translated from parser/expr.rs', False, str(e))
    # proofs
    pres = vlib.prove(ID, THEOREMS, ALLOWED_AXIOMS)
    run.add_proof(pres, THEOREMS)
    # build
    impl_exe = vlib.build_harness()
    model_exe = None
    if NOMODEL:
        run.add_obligation('K:model runs', False, 'model skipped (VERIF_C15_NOMODEL=1, development only)')
    else:
        try:
            model_exe = vlib.build_model('parser')
        except Exception as e:
            run.add_obligation('K:model runs', False, 'model driver does not build: %s' % str(e)[-600:])
    pools = build_pools(impl_exe)
    cfg = {'exe': impl_exe, 'model': model_exe, 'seed': run.seed, 'pools': pools, 'timeout': 600}
    quick = run.tier == 'quick'
    cfg['quick'] = quick
    # corpus first (in every worker's batch), then the generated streams; accepted corpus / O1 texts also
    # seed the token-level malformed stream (spec['derive'] mutations each)
    cspecs, nfiles, skipped = corpus_specs()
    run.count('corpus_files', nfiles)
    run.count('corpus_files_skipped_large', skipped)
    for s in cspecs:
        s['derive'] = 1 if quick else 6
    o1 = o1_specs(rng, pools, 600 if quick else 30000)
    for i, s in enumerate(o1):
        if s['kind'] == 'o1min' and i % (4 if quick else 2) == 0:
            s['derive'] = 1 if quick else 2
    raw = cspecs + o3_specs() + o1 + o2_raw(rng, run.tier) + soup_specs(rng, 300 if quick else 6000)
    # model printer round trip (`rt min` / `rt red`): every corpus line, plus a seeded sample of the other
    # texts that are expected to be accepted (sources < 4 KB; the two pathological nesting files are left out)
    cand = [s for s in raw if s['kind'] in ('file', 'o1min', 'o1red', 'o3') and len(s.get('src') or b'') < 4096
            and not any(x in (s.get('meta') or {}).get('file', '') for x in ('many_brackets', 'many_parenthesis'))]
    rng.shuffle(cand)
    for s in [s for s in raw if s['kind'] == 'corpus'] + cand[:380 if quick else 8000]:
        s['rt'] = True
    run_all(run, cfg, raw)
    run.extra.pop('_perkey', None)
    if model_exe and not run.hist.get('k_cases'):
        run.add_obligation('K:model runs', False, 'no case reached the model')
    elif model_exe:
        run.add_obligation('K:model runs', True)


def replay(run, path):
    j = json.load(open(path))
    todo = []
    r = j.get('replay')
    if isinstance(r, dict) and 'source_hex' in r:
        todo.append(r)
    for d in j.get('details', []) or []:
        if isinstance(d, dict) and 'source_hex' in d:
            todo.append(d)
    if todo:
        impl_exe = vlib.build_harness()
        model_exe = None
        if any(t.get('k') for t in todo) and not NOMODEL:
            model_exe = vlib.build_model('parser')
        pools = build_pools(impl_exe)
        cfg = {'exe': impl_exe, 'model': model_exe, 'seed': run.seed, 'pools': pools, 'shards': 1}
        specs = []
        for i, t in enumerate(todo):
            src = bytes(int(x, 16) for x in t['source_hex'].split(',')) if t['source_hex'] else b''
            meta = dict(t.get('meta') or {})
            if isinstance(meta.get('expect'), str):
                meta['expect'] = read_one(meta['expect'])
            specs.append(dict(cid='r%d' % i, kind=t['kind'], src=src, meta=meta))
        merge(run, process((cfg, specs)))
        run.extra.pop('_perkey', None)
    else:
        print('replay file names a broken obligation, not an input:', json.dumps(j.get('no_longer_checks', j), indent=1)[:2000])
        try:
            translate(vlib.REPO)
        except Exception as e:
            run.add_obligation('T:precedence chain and operator arms translated from parser/expr.rs', False, str(e))
        pres = vlib.prove(ID, THEOREMS, ALLOWED_AXIOMS)
        run.add_proof(pres, THEOREMS)
    for v in run.violations:
        print('REPRODUCED:', v['what'])
    if not run.violations and not run.failed_obligations:
        print('not reproduced')
    return 1 if (run.violations or run.failed_obligations) else 0
