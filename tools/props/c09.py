"""C09 — scoping errors are found before anything runs, and only real ones.

Proof:  Props/C09.v over Model/Analyze.v (mirror of program/analyze.rs) and the
        independent inductive StaticOK (the specification's static rules).
K:      generated programs (fault-free, one injected fault, several faults) through the
        real front end (`front load`: lexer, parser, analyzer with `std` in scope); the
        model analyses the implementation's own AST dump; variant, spans (repeated first,
        then original) and name must agree; fault-free programs must be accepted by both.
Search: oracle on the implementation alone (`eval`): an injected fault is reported as the
        expected AnalyzeError at the injected token(s) before any std.trace fires; a
        fault-free program is never refused statically; no program ever makes the
        evaluator panic (`variable not found`, `get_object` unwrap).
"""
import os, sys, re, json, collections
import vlib
from vlib import hx, hxl

ID = 'C09'
COMPONENTS = ['analyze']
THEOREMS = ['C09_analyze_exact', 'C09_analyze_no_panic', 'C09_analyze_error_kind',
            'C09_field_name_sees_outer_scope', 'C09_comp_vars_left_to_right',
            'C09_object_locals_mutual', 'C09_analyze_closed', 'C09_walk_no_unbound',
            'C09_analyze_walk_no_unbound', 'C09_nonvacuous_ok', 'C09_nonvacuous_err',
            'C09_nonvacuous_walk',
            'C09_refeval_no_static_error']
ALLOWED_AXIOMS = set()
TRANSLATORS = []

# --------------------------------------------------------------------------- generator
#
# Programs are produced as text by type-directed recursive functions, so that fault-free
# programs mostly evaluate to a value (the run-time half of the property is only
# exercised by programs that actually run).  Every call of Gen.expr is a *site*; binder
# groups (locals, parameters, object locals, static fields) are sites as well.  The fault
# injector replaces the k-th site by exactly one scoping fault.  Sentinel characters mark
# the token(s) the error must point at: \x01..\x02 the repeated / only span, \x03..\x04
# the original one.

POOL = ['a', 'b', 'c', 'x', 'y']          # small pool: shadowing at every binder kind
FIELDS = ['g', 'h', 'k']                  # besides the guaranteed visible number field f

BKINDS = ['local', 'localfn', 'param', 'method-param', 'objlocal', 'arrcomp-var',
          'objcomp-var', 'objcomp-local', 'object']   # 'object' = self / $ / super
# who owns a parameter list: an anonymous function, the function sugar of a local / object local /
# object-comprehension local (`local f(x) = e`), or a method field (`f(x): e`)
OWNERS = ['anon', 'local-sugar', 'objlocal-sugar', 'objcomp-sugar', 'method']
PKINDS = ['local-value', 'local-body', 'objlocal-value', 'field-value', 'field-name', 'object-assert',
          'comp-clause', 'comp-body', 'dead-branch', 'call-arg'] + \
         [o + '-default' for o in OWNERS] + [o + '-body' for o in OWNERS]
# binder syntax form of the referenced variable: plain bind / function-sugar bind (the function name
# and its parameters) / method field (its parameters)
ROWS = [('local', 'plain'), ('localfn', 'sugar'), ('param', 'plain'), ('method-param', 'sugar'),
        ('method-param', 'method'), ('objlocal', 'plain'), ('objlocal', 'sugar'), ('objcomp-local', 'plain'),
        ('objcomp-local', 'sugar'), ('arrcomp-var', 'plain'), ('objcomp-var', 'plain'), ('object', 'plain')]


def form_of(entry):
    if len(entry) > 3:
        return entry[3]
    if entry[0] == 'localfn' or (entry[0] in ('objlocal', 'objcomp-local') and entry[1] == 'fn'):
        return 'sugar'
    return 'plain'
FKINDS = ['unbound', 'self', 'dollar', 'super', 'rep-local', 'rep-param', 'rep-field',
          'rep-objlocal', 'pos-after-named', 'import-computed', 'import-textblock']

M1, M2, M3, M4 = '\x01', '\x02', '\x03', '\x04'


class Ctx(object):
    __slots__ = ('scope', 'in_obj', 'pos', 'depth', 'near', 'live', 'in_f', 'has_super', 'self_f')

    def __init__(self):
        self.scope = {'std': ('top', 'std', True)}   # name -> (binder kind, type, usable on a live path)
        self.in_obj = False
        self.pos = 'root'
        self.depth = 0
        self.near = {}          # names bound next to this position whose scope does not reach it
        self.live = True
        self.in_f = False       # generating the value of a field f: self.f / $.f would recurse
        self.has_super = False
        self.self_f = False     # innermost object is a literal (has the number field f)

    def but(self, **kw):
        c = Ctx.__new__(Ctx)
        for s in Ctx.__slots__:
            setattr(c, s, getattr(self, s))
        for k, v in kw.items():
            setattr(c, k, v)
        return c

    def bind(self, names, **kw):
        """names: dict name -> (bkind, type, usable)"""
        sc = dict(self.scope)
        sc.update(names)
        return self.but(scope=sc, **kw)


class Gen(object):
    def __init__(self, rng, faults=(), size=5, fault_kind=None):
        self.rng = rng
        self.faults = set(faults)
        self.size = size
        self.nsite = 0
        self.sites = []                 # (pos, in_obj, live, kind-of-site)
        self.injected = []              # dicts
        self.refs = collections.Counter()   # (bkind, pos) of resolved references
        self.ntrace = 0
        self.want_kind = fault_kind
        self.uid = 0

    # ---- bookkeeping
    def site(self, ctx, what='expr'):
        k = self.nsite
        self.nsite += 1
        self.sites.append((ctx.pos, ctx.in_obj, ctx.live, what, any(n not in ctx.scope for n in ctx.near)))
        return k in self.faults

    def ref(self, ctx, bkind, form='plain'):
        self.refs[(bkind, form, ctx.pos)] += 1

    def fresh(self):
        self.uid += 1
        return self.uid

    def pick(self, l):
        return l[self.rng.randrange(len(l))]

    def chance(self, p):
        return self.rng.random() < p

    def ws(self):
        r = self.rng.random()
        if r < 0.85:
            return ' '
        if r < 0.9:
            return '\n  '
        if r < 0.94:
            return ' /* é日 */ '
        if r < 0.97:
            return ' # c\n'
        return '\t'

    # ---- faults
    def fault(self, ctx):
        """text of one scoping fault (an expression), with sentinels around the token(s)
        the diagnostic must name"""
        rng = self.rng
        kinds = ['unbound'] * 6 + ['rep-local', 'rep-param', 'rep-field', 'rep-objlocal',
                                   'pos-after-named', 'import-computed', 'import-textblock']
        if not ctx.in_obj:
            kinds += ['self', 'self', 'dollar', 'dollar', 'super', 'super', 'super']
        kind = self.pick(kinds)
        if self.want_kind and (self.want_kind in kinds):
            kind = self.want_kind
        elif any(n not in ctx.scope for n in ctx.near) and self.chance(0.7):
            kind = 'unbound'
        info = {'kind': kind, 'pos': ctx.pos, 'live': ctx.live, 'in_obj': ctx.in_obj, 'near': None, 'name': None}
        n = self.pick(POOL)
        if kind == 'unbound':
            near = [x for x in sorted(ctx.near) if x not in ctx.scope]
            free = [x for x in POOL if x not in ctx.scope]
            if near and self.chance(0.8):
                name = self.pick(near)
                info['near'] = ctx.near[name]
            elif free and self.chance(0.7):
                name = self.pick(free)
            else:
                name = self.pick(['zz', 'q0', 'self_', 'stdx', 'Std', 'local_'])
            info['name'] = name
            form = rng.random()
            if form < 0.5:
                txt = M1 + name + M2
            elif form < 0.7:
                txt = M1 + name + M2 + '.f'
            elif form < 0.85:
                txt = M1 + name + M2 + '(1)'
            else:
                txt = '(' + M1 + name + M2 + ' + 1)'
            info['variant'] = 'UnknownVariable'
        elif kind == 'self':
            txt = self.pick([M1 + 'self' + M2, M1 + 'self' + M2 + '.f', '(' + M1 + 'self' + M2 + ')', 'std.length(' + M1 + 'self' + M2 + ')'])
            info['variant'] = 'SelfOutsideObject'
        elif kind == 'dollar':
            txt = self.pick([M1 + '$' + M2, M1 + '$' + M2 + '.f', M1 + '$' + M2 + '["f"]'])
            info['variant'] = 'DollarOutsideObject'
        elif kind == 'super':
            txt = self.pick([M1 + 'super' + M2 + '.f', M1 + 'super' + M2 + '["f"]', '("f" in ' + M1 + 'super' + M2 + ')',
                             M1 + 'super' + M2 + '.f.g', M1 + 'super' + M2 + '[std.toString(1)]'])
            info['variant'] = 'SuperOutsideObject'
        elif kind == 'rep-local':
            info['name'] = n
            o = self.pick([x for x in POOL if x != n])
            txt = self.pick([
                '(local ' + M3 + n + M4 + ' = 1, ' + M1 + n + M2 + ' = 2; ' + n + ')',
                '(local ' + M3 + n + M4 + ' = 1, ' + o + ' = 3, ' + M1 + n + M2 + '(p) = 2; 0)',
                '(local ' + M3 + n + M4 + '(p) = p, ' + M1 + n + M2 + ' = 2; 0)',
            ])
            info['variant'] = 'RepeatedLocalName'
        elif kind == 'rep-param':
            info['name'] = n
            o = self.pick([x for x in POOL if x != n])
            txt = self.pick([
                '(function(' + M3 + n + M4 + ', ' + M1 + n + M2 + ') 0)',
                '(function(' + M3 + n + M4 + ', ' + o + ' = 1, ' + M1 + n + M2 + ' = 2) 0)(1)',
                '(local ' + o + '(' + M3 + n + M4 + ' = 1, ' + M1 + n + M2 + ') = 0; 0)',
                '{m(' + M3 + n + M4 + ', ' + M1 + n + M2 + '):: 0}',
                '{local m(' + M3 + n + M4 + ', ' + M1 + n + M2 + ') = 0}',
            ])
            info['variant'] = 'RepeatedParamName'
        elif kind == 'rep-field':
            info['name'] = n
            q = lambda s: self.pick(['"%s"', "'%s'"]) % s
            a = self.pick([n, q(n)])
            b = self.pick([n, q(n)])
            mid = self.pick(['', 'zz: 0, ', '["c" + 1]: 0, ', 'local l = 1, ', 'assert true, '])
            sep = self.pick([': ', ':: ', '::: ', '+: '])
            txt = '{' + M3 + a + M4 + ': 1, ' + mid + M1 + b + M2 + sep + '2}'
            if self.chance(0.2):
                txt = '{' + M3 + a + M4 + '(p): 1, ' + mid + M1 + b + M2 + sep + '2}'
            info['variant'] = 'RepeatedFieldName'
        elif kind == 'rep-objlocal':
            info['name'] = n
            txt = self.pick([
                '{local ' + M3 + n + M4 + ' = 1, f: 1, local ' + M1 + n + M2 + ' = 2}',
                '{local ' + M3 + n + M4 + '(p) = 1, local ' + M1 + n + M2 + ' = 2}',
                '{local ' + M3 + n + M4 + ' = 1, ["k" + i]: 1, local ' + M1 + n + M2 + ' = 2 for i in [1]}',
                '{local ' + M3 + n + M4 + ' = 1, local ' + M1 + n + M2 + ' = 2, ["k" + i]: 1 for i in [1]}',
            ])
            info['variant'] = 'RepeatedLocalName'
        elif kind == 'pos-after-named':
            txt = self.pick([
                '(function(p, q) 0)(p=1, ' + M1 + '2' + M2 + ')',
                'std.length(x=[1], ' + M1 + '[2]' + M2 + ')',
                '(function(p, q, r) 0)(1, q=1, ' + M1 + '(1 + 2)' + M2 + ')',
            ])
            info['variant'] = 'PositionalArgAfterNamed'
        elif kind == 'import-computed':
            kw = self.pick(['import', 'importstr', 'importbin'])
            txt = '(' + kw + ' ' + self.pick([M1 + '("a")' + M2, M1 + '"a" + "b"' + M2, M1 + 'std.thisFile' + M2, M1 + '1' + M2]) + ')'
            info['variant'] = 'ComputedImportPath'
        else:
            kw = self.pick(['import', 'importstr', 'importbin'])
            txt = '(' + kw + ' ' + M1 + '|||\n  a\n|||' + M2 + ')'
            info['variant'] = 'TextBlockAsImportPath'
        self.injected.append(info)
        # blanks: `$` next to `:` or `-` would lex as one operator
        return ' ' + txt + ' '

    # ---- variables
    def var(self, ctx, typ):
        c = [n for n, ent in sorted(ctx.scope.items()) if ent[1] == typ and (ent[2] or not ctx.live)]
        if not c:
            return None
        n = self.pick(c)
        self.ref(ctx, ctx.scope[n][0], form_of(ctx.scope[n]))
        return n

    def deeper(self, ctx):
        return ctx.but(depth=ctx.depth + 1)

    def leafy(self, ctx):
        return ctx.depth >= self.size or self.chance(0.08 * ctx.depth)

    # ---- expressions by type
    def expr(self, ctx, typ):
        if self.site(ctx):
            return self.fault(ctx)
        return getattr(self, 'g_' + typ)(self.deeper(ctx))

    def g_num(self, ctx):
        rng = self.rng
        if self.leafy(ctx):
            if self.chance(0.2):
                f = self.var(ctx, 'fn')
                if f:
                    return f + '(' + self.pick(['1', '2']) + ')'
            v = self.var(ctx, 'num') if self.chance(0.7) else None
            return v if v else self.pick(['0', '1', '2', '3.5', '1e2', '7'])
        r = rng.randrange(100)
        E = self.expr
        if r < 10:
            v = self.var(ctx, 'num')
            return v if v else '4'
        if r < 20:
            return '(' + E(ctx, 'num') + self.pick([' + ', ' - ', ' * ']) + E(ctx, 'num') + ')'
        if r < 27:
            return self.local_group(ctx, 'num')
        if r < 33:
            return '(if ' + E(ctx, 'bool') + ' then ' + E(ctx, 'num') + ' else ' + E(ctx, 'num') + ')'
        if r < 40:
            return self.dead(ctx, 'num')
        if r < 46:
            return self.call(ctx)
        if r < 54:
            return self.nearmiss(ctx)
        if r < 59:
            return 'std.length(' + E(ctx, self.pick(['arr', 'obj', 'objc', 'arr', 'str'])) + ')'
        if r < 66:
            return E(ctx, 'obj') + '.f'
        if r < 72 and ctx.in_obj and not ctx.in_f:
            return self.selfish(ctx)
        if r < 76:
            cond = 'true' if self.chance(0.4) else E(ctx, 'bool') + ' || true'
            return '(assert ' + cond + ' : ' + E(ctx.but(live=False, pos='dead-branch'), 'str') + '; ' + E(ctx, 'num') + ')'
        if r < 80 and ctx.live:
            self.ntrace += 1
            return 'std.trace("t", ' + E(ctx, 'num') + ')'
        if r < 84:
            a = E(ctx, 'arr')
            sl = self.pick(['0:1', ':', '1:', '::2', None])
            if sl is None:
                sl = E(ctx, 'num') + ':'
            return 'std.length(' + a + '[' + sl + '])'
        if r < 87:
            return '(-' + E(ctx, 'num') + ')'
        if r < 90:
            return E(ctx, 'obj') + '["f"]'
        if r < 93:
            return 'std.length(' + E(ctx, 'fn') + ')'
        if r < 96:
            return '(' + E(ctx, 'arr') + ' + [7])[0]'
        return '(' + E(ctx, 'num') + ')'

    def selfish(self, ctx):
        """a use of self / $ / super that has a number value"""
        self.ref(ctx, 'object')
        c = ['std.length(self)', 'std.length($)', '(if "f" in super then 1 else 0)']
        if ctx.self_f:
            c += ['self.f', 'self["f"]', 'self.f']
        if ctx.has_super and ctx.self_f:
            c += ['super.f', 'super["f"]']
        return self.pick(c)

    def g_bool(self, ctx):
        E = self.expr
        r = self.rng.randrange(100)
        if self.leafy(ctx) or r < 20:
            v = self.var(ctx, 'num') if self.chance(0.6) else None
            if v:
                return '(' + v + self.pick([' >= 0', ' < 1', ' == 2']) + ')'
            return self.pick(['true', 'false'])
        if r < 55:
            return '(' + E(ctx, 'num') + self.pick([' < ', ' <= ', ' == ', ' != ', ' > ']) + E(ctx, 'num') + ')'
        if r < 65:
            return '(!' + E(ctx, 'bool') + ')'
        if r < 75:
            return '(false && ' + E(ctx.but(live=False, pos='dead-branch'), 'bool') + ')'
        if r < 82:
            return '(true || ' + E(ctx.but(live=False, pos='dead-branch'), 'bool') + ')'
        if r < 92:
            return '("f" in ' + E(ctx, 'obj') + ')'
        if ctx.in_obj:
            self.ref(ctx, 'object')
            return '("f" in super)'
        return '(' + E(ctx, 'bool') + ' && ' + E(ctx, 'bool') + ')'

    def g_str(self, ctx):
        E = self.expr
        r = self.rng.randrange(100)
        v = self.var(ctx, 'str') if r < 35 else None
        if v:
            return v
        if self.leafy(ctx) or r < 55:
            return self.pick(['"s"', "'t'", '"é"', '@"v"'])
        if r < 85:
            return '("n" + ' + E(ctx, 'num') + ')'
        return 'std.toString(' + E(ctx, 'num') + ')'

    def g_arr(self, ctx):
        E = self.expr
        r = self.rng.randrange(100)
        if self.leafy(ctx) or r < 15:
            v = self.var(ctx, 'arr') if self.chance(0.6) else None
            return v if v else self.pick(['[1]', '[1, 2]', '[]', '[3, 4, 5]'])
        if r < 40:
            return '[' + ', '.join(E(ctx, 'num') for _ in range(self.rng.randint(1, 3))) + ']'
        if r < 75:
            return self.arrcomp(ctx)
        if r < 82:
            return '(' + E(ctx, 'arr') + ' + ' + E(ctx, 'arr') + ')'
        if r < 90:
            return 'std.map(' + E(ctx, 'fn') + ', ' + E(ctx, 'arr') + ')'
        return self.local_group(ctx, 'arr')

    def g_fn(self, ctx):
        """a function of one required number parameter (more may have defaults) returning a number"""
        v = self.var(ctx, 'fn') if self.chance(0.5) else None
        if v:
            return v
        return '(function' + self.params_body(ctx, 'anon', 1)[0] + ')'

    def g_obj(self, ctx):
        E = self.expr
        r = self.rng.randrange(100)
        if self.leafy(ctx):
            v = self.var(ctx, 'obj') if self.chance(0.6) else None
            return v if v else '{f: 1}'
        if r < 12:
            v = self.var(ctx, 'obj')
            if v:
                return v
        if r < 70:
            return self.objlit(ctx, False)
        if r < 82:
            return '(' + E(ctx, 'obj') + ' + ' + self.objlit(self.deeper(ctx), True) + ')'
        if r < 92:
            return E(ctx, 'obj') + ' ' + self.objlit(self.deeper(ctx), True)
        return self.local_group(ctx, 'obj')

    def g_objc(self, ctx):
        if self.leafy(ctx):
            return '{["k" + i]: i for i in [1, 2]}'
        return self.objcomp(ctx)

    # ---- binders
    def names(self, k):
        ns = list(POOL)
        self.rng.shuffle(ns)
        return ns[:k]

    def local_group(self, ctx, typ):
        """local n1 = v1, n2(p) = v2, ...; body  — names see each other (acyclic on live paths)"""
        rng = self.rng
        k = rng.randint(1, 3)
        ns = self.names(k)
        faulted = self.site(ctx, 'local-group')
        kinds = []
        for n in ns:
            t = self.pick(['num', 'num', 'num', 'arr', 'obj', 'fn', 'fn', 'str'])
            kinds.append(t)
        order = list(range(k))
        rng.shuffle(order)       # value i may use (on a live path) only names later in `order`
        rank = {ns[i]: order[i] for i in range(k)}
        parts = []
        used = rng.random() < 0.8
        for i, n in enumerate(ns):
            vis = {}
            for j, m in enumerate(ns):
                bk = 'localfn' if kinds[j] == 'fn' else 'local'
                vis[m] = (bk, kinds[j], rank[m] > rank[n])
            live = ctx.live and used
            c = ctx.bind(vis, pos='local-value' if live else 'dead-branch', live=live)
            if kinds[i] == 'fn':
                pb, _ = self.params_body(c, 'local-sugar', 1)
                parts.append([n, None, pb])
            else:
                parts.append([n, None, ' = ' + self.expr(c, kinds[i])])
        txts = []
        dup = rng.randrange(k) if faulted else None
        for i, (n, _, rhs) in enumerate(parts):
            nm = (M3 + n + M4) if dup == i else n
            if kinds[i] == 'fn':
                # rhs = "(params) body"  ->  name(params) = body
                close = self.split_params(rhs)
                txts.append(nm + rhs[:close + 1] + ' = ' + rhs[close + 1:])
            else:
                txts.append(nm + rhs)
        if faulted:
            n = ns[dup]
            txts.insert(rng.randint(dup + 1, len(txts)), M1 + n + M2 + self.pick([' = 0', '(p) = p']))
            self.injected.append({'kind': 'rep-local', 'pos': ctx.pos, 'live': ctx.live, 'in_obj': ctx.in_obj,
                                  'near': None, 'name': n, 'variant': 'RepeatedLocalName', 'inplace': True})
        body_scope = {}
        for j, m in enumerate(ns):
            body_scope[m] = ('localfn' if kinds[j] == 'fn' else 'local', kinds[j], True)
        if not used:
            body_scope = {m: (v[0], 'unused', True) for m, v in body_scope.items()}
        body = self.expr(ctx.bind(body_scope, pos='local-body'), typ)
        return '(local ' + ', '.join(txts) + ';' + self.ws() + body + ')'

    @staticmethod
    def split_params(s):
        """index of the ')' closing the parameter list that starts at s[0] == '('"""
        d = 0
        instr = None
        i = 0
        while i < len(s):
            ch = s[i]
            if instr:
                if ch == '\\':
                    i += 1
                elif ch == instr:
                    instr = None
            elif ch in '"\'':
                instr = ch
            elif ch in '([{':
                d += 1
            elif ch in ')]}':
                d -= 1
                if d == 0:
                    return i
            i += 1
        raise ValueError('unbalanced parameter list: ' + s)

    def params_body(self, ctx, owner, nreq):
        """'(p1, p2 = d2, ...) body' of a number-valued function with nreq required number
        parameters; returns (text, names)"""
        rng = self.rng
        nopt = rng.randint(0, 2)
        ns = self.names(nreq + nopt)
        faulted = self.site(ctx, 'param-group')
        bkind = 'param' if owner == 'anon' else 'method-param'
        form = 'plain' if owner == 'anon' else ('method' if owner == 'method' else 'sugar')
        vis = {n: (bkind, 'num', True, form) for n in ns}
        ps = []
        dup = rng.randrange(len(ns)) if faulted else None
        for i, n in enumerate(ns):
            nm = (M3 + n + M4) if dup == i else n
            if i < nreq:
                ps.append(nm)
            else:
                # default arguments see every parameter; evaluated only when the argument is omitted
                others = {m: (bkind, 'num', j < i, form) for j, m in enumerate(ns)}
                c = ctx.bind(others, pos=owner + '-default')
                ps.append(nm + ' = ' + self.expr(c, 'num'))
        if faulted:
            n = ns[dup]
            ps.insert(rng.randint(dup + 1, len(ps)), M1 + n + M2 + self.pick(['', ' = 0']))
            self.injected.append({'kind': 'rep-param', 'pos': ctx.pos, 'live': ctx.live, 'in_obj': ctx.in_obj,
                                  'near': None, 'name': n, 'variant': 'RepeatedParamName', 'inplace': True})
        body = self.expr(ctx.bind(vis, pos=owner + '-body'), 'num')
        return '(' + ', '.join(ps) + ')' + self.ws() + body, ns

    def call(self, ctx):
        """a call with positional then named arguments"""
        E = self.expr
        c = ctx.but(pos='call-arg')
        f = self.var(ctx, 'fn')
        ts = ' tailstrict' if self.chance(0.1) else ''
        if f and self.chance(0.75):
            return f + '(' + E(c, 'num') + ')' + ts
        # immediate function: we know the parameter names, so named arguments can be used
        nreq = self.rng.randint(1, 2)
        pb, ns = self.params_body(ctx, 'anon', nreq)
        args = []
        style = self.rng.random()
        for i in range(nreq):
            if style < 0.5 or (style < 0.8 and i == 0):
                args.append(E(c, 'num'))
            else:
                args.append(ns[i] + '=' + E(c, 'num'))
        if len(ns) > nreq and self.chance(0.4):
            args.append(ns[nreq] + ' = ' + E(c, 'num'))
        return '(function' + pb + ')(' + ', '.join(args) + ')' + ts

    @staticmethod
    def strip_marks(s):
        return s.replace(M1, '').replace(M2, '').replace(M3, '').replace(M4, '')

    @staticmethod
    def top_split(s):
        out, d, cur, instr, i = [], 0, '', None, 0
        while i < len(s):
            ch = s[i]
            if instr:
                cur += ch
                if ch == '\\':
                    i += 1
                    cur += s[i]
                elif ch == instr:
                    instr = None
            elif ch in '"\'':
                instr = ch
                cur += ch
            elif ch in '([{':
                d += 1
                cur += ch
            elif ch in ')]}':
                d -= 1
                cur += ch
            elif ch == ',' and d == 0:
                out.append(cur)
                cur = ''
            else:
                cur += ch
            i += 1
        if cur.strip():
            out.append(cur)
        return out

    def nearmiss(self, ctx):
        """a binder whose scope has just ended next to a sibling expression"""
        E = self.expr
        n = self.pick(POOL)
        r = self.rng.randrange(3)
        if r == 0:
            left = '(local ' + n + ' = ' + E(ctx.bind({n: ('local', 'num', False)}, pos='local-value'), 'num') + '; ' + \
                   E(ctx.bind({n: ('local', 'num', True)}, pos='local-body'), 'num') + ')'
            near = {n: 'local'}
        elif r == 1:
            left = '(function(' + n + ') ' + E(ctx.bind({n: ('param', 'num', True)}, pos='anon-body'), 'num') + ')(' + \
                   E(ctx.but(pos='call-arg'), 'num') + ')'
            near = {n: 'param'}
        else:
            left = 'std.length([' + E(ctx.bind({n: ('arrcomp-var', 'num', True)}, pos='comp-body'), 'num') + ' for ' + n + ' in ' + \
                   E(ctx.but(pos='comp-clause', near=dict(ctx.near, **{n: 'arrcomp-var'})), 'arr') + '])'
            near = {n: 'arrcomp-var'}
        nn = dict(ctx.near)
        nn.update(near)
        return '(' + left + ' + ' + E(ctx.but(near=nn), 'num') + ')'

    def dead(self, ctx, typ):
        """code that is analysed but never evaluated"""
        E = self.expr
        d = ctx.but(live=False, pos='dead-branch')
        r = self.rng.randrange(6)
        anyt = self.pick(['num', 'arr', 'obj', 'bool', 'str', 'fn', 'objc'])
        if r == 0:
            return '(if false then ' + E(d, anyt) + ' else ' + E(ctx, typ) + ')'
        if r == 1:
            return '(if true then ' + E(ctx, typ) + ' else ' + E(d, anyt) + ')'
        if r == 2:
            n = self.pick(POOL)
            return '(local ' + n + ' = ' + E(d.bind({n: ('local', anyt, True)}), anyt) + '; ' + \
                   E(ctx.bind({n: ('local', 'unused', True)}, pos='local-body'), typ) + ')'
        if r == 3:
            n, m = self.names(2)
            return '(function(' + n + ', ' + m + ' = ' + E(d.bind({n: ('param', 'num', True), m: ('param', 'num', True)}), 'num') + ') ' + \
                   E(ctx.bind({n: ('param', typ, True), m: ('param', 'num', True)}, pos='anon-body'), typ) + ')(' + \
                   E(ctx.but(pos='call-arg'), typ) + ', 5)'
        if r == 4:
            return '(if false then error ' + E(d, 'str') + ' else ' + E(ctx, typ) + ')'
        return '[' + E(ctx, typ) + ', ' + E(d, anyt) + '][0]'

    def specs(self, ctx, bkind):
        """for/if clauses; returns (text, ctx after the clauses)"""
        E = self.expr
        rng = self.rng
        nfor = rng.randint(1, 2)
        vs = self.names(nfor)
        out = []
        cur = ctx
        for i, v in enumerate(vs):
            later = {m: bkind for m in vs[i:]}
            c = cur.but(pos='comp-clause', near=dict(cur.near, **later))
            src = E(c, 'arr')
            out.append('for ' + v + ' in ' + src)
            cur = cur.bind({v: (bkind, 'num', True)})
            if self.chance(0.4):
                later = {m: bkind for m in vs[i + 1:]}
                out.append('if ' + E(cur.but(pos='comp-clause', near=dict(cur.near, **later)), 'bool'))
        return ' '.join(out), cur

    def arrcomp(self, ctx):
        st, c = self.specs(ctx, 'arrcomp-var')
        return '[' + self.expr(c.but(pos='comp-body'), 'num') + ' ' + st + ']'

    def objcomp(self, ctx):
        """{ [locals,] [key]: value [, locals] for ... }: key and clauses see the clause variables but
        neither the locals nor the new self; locals (value style and function sugar, before and after
        the field, referring to each other, to self / $ / super) and the value see everything"""
        E = self.expr
        rng = self.rng
        st, c = self.specs(ctx, 'objcomp-var')
        v0 = st.split(' ')[1]
        nl = rng.choice([0, 1, 2, 2, 3])
        ls = [n for n in self.names(nl + 1) if n != v0][:nl]
        lk = [self.pick(['num', 'num', 'fn', 'fn', 'arr']) for _ in ls]
        faulted = self.site(ctx, 'objcomp-local-group') if ls else False
        inner0 = c.but(in_obj=True, self_f=False, has_super=False, in_f=False)
        order = list(range(len(ls)))
        rng.shuffle(order)      # on a live path a local uses only locals later in `order` (no cycles)
        dup = rng.randrange(len(ls)) if faulted else None
        ltxt = []
        for i, n in enumerate(ls):
            vis = {m: ('objcomp-local', lk[j], order[j] > order[i]) for j, m in enumerate(ls)}
            lc = inner0.bind(vis, pos='objlocal-value')
            nm = (M3 + n + M4) if dup == i else n
            if lk[i] == 'fn':
                pb, _ = self.params_body(lc, 'objcomp-sugar', 1)
                close = self.split_params(pb)
                ltxt.append('local ' + nm + pb[:close + 1] + ' = ' + pb[close + 1:])
            else:
                ltxt.append('local ' + nm + ' = ' + E(lc, lk[i]))
        if faulted:
            n = ls[dup]
            ltxt.insert(rng.randint(dup + 1, len(ltxt)), 'local ' + M1 + n + M2 + self.pick([' = 0', '(p) = p']))
            self.injected.append({'kind': 'rep-objlocal', 'pos': ctx.pos, 'live': ctx.live, 'in_obj': ctx.in_obj,
                                  'near': None, 'name': n, 'variant': 'RepeatedLocalName', 'inplace': True})
        inner = inner0.bind({n: ('objcomp-local', lk[i], True) for i, n in enumerate(ls)})
        cut = rng.randint(0, len(ltxt))
        key = '("k" + ' + v0 + ' + "_" + ' + E(c.but(pos='field-name', near=dict(c.near, **{n: 'objcomp-local' for n in ls})), 'num') + ')'
        r = rng.random()
        if r < 0.25:
            val = 'std.length(' + self.arrcomp(self.deeper(inner.but(pos='comp-body'))) + ')'
        elif r < 0.4:
            # an ordinary object nested in the comprehension
            val = self.objlit(self.deeper(inner.but(pos='comp-body')), False) + '.f'
        else:
            val = E(inner.but(pos='comp-body'), 'num')
        body = ', '.join(ltxt[:cut] + ['[' + key + ']' + self.pick([': ', ': ', ': ', '+: ']) + val] + ltxt[cut:])
        return '{' + body + ' ' + st + '}'

    def objlit(self, ctx, has_super):
        """{ locals, asserts, f: number, other fields, methods, computed names }"""
        E = self.expr
        rng = self.rng
        nl = rng.randint(0, 2)
        ls = self.names(nl)
        lk = [self.pick(['num', 'num', 'fn', 'arr']) for _ in ls]
        lfaulted = self.site(ctx, 'objlocal-group') if ls else False
        ffaulted = self.site(ctx, 'field-group')
        order = list(range(nl))
        rng.shuffle(order)
        members = []
        fields = ['f'] + [x for x in FIELDS if self.chance(0.5)]
        inner0 = ctx.but(in_obj=True, self_f=True, has_super=has_super, in_f=False)
        allvis = {n: ('objlocal', lk[i], True) for i, n in enumerate(ls)}
        ldup = rng.randrange(nl) if lfaulted else None
        for i, n in enumerate(ls):
            vis = {m: ('objlocal', lk[j], order[j] > order[i]) for j, m in enumerate(ls)}
            c = inner0.bind(vis, pos='objlocal-value')
            nm = (M3 + n + M4) if ldup == i else n
            if lk[i] == 'fn':
                pb, _ = self.params_body(c, 'objlocal-sugar', 1)
                close = self.split_params(pb)
                members.append(('L', 'local ' + nm + pb[:close + 1] + ' = ' + pb[close + 1:]))
            else:
                members.append(('L', 'local ' + nm + ' = ' + E(c, lk[i])))
        if lfaulted:
            n = ls[ldup]
            members.append(('L', 'local ' + M1 + n + M2 + ' = 0'))
            self.injected.append({'kind': 'rep-objlocal', 'pos': ctx.pos, 'live': ctx.live, 'in_obj': ctx.in_obj,
                                  'near': None, 'name': n, 'variant': 'RepeatedLocalName', 'inplace': True})
        inner = inner0.bind(allvis)
        fdup = rng.randrange(len(fields)) if ffaulted else None
        q = lambda s: self.pick([s, '"%s"' % s, "'%s'" % s])
        for i, fn in enumerate(fields):
            nm = q(fn)
            if fdup == i:
                nm = M3 + nm + M4
            if fn == 'f':
                members.append(('F', nm + self.pick([': ', ': ', '::: ']) + E(inner.but(pos='field-value', in_f=True), 'num')))
            else:
                r = rng.random()
                if r < 0.45:
                    members.append(('F', nm + ': ' + E(inner.but(pos='field-value'), 'num')))
                elif r < 0.6:
                    # hidden: analysed, never manifested
                    anyt = self.pick(['num', 'arr', 'obj', 'fn', 'objc'])
                    members.append(('F', nm + ':: ' + E(inner.but(pos='field-value', live=False), anyt)))
                elif r < 0.8:
                    pb, _ = self.params_body(inner.but(live=False), 'method', 1)
                    close = self.split_params(pb)
                    members.append(('F', nm + pb[:close + 1] + ':: ' + pb[close + 1:]))
                elif r < 0.9:
                    members.append(('F', nm + ': ' + E(inner.but(pos='field-value'), 'obj')))
                else:
                    members.append(('F', nm + ': std.length(' + self.objcomp(self.deeper(inner.but(pos='field-value'))) + ')'))
        if ffaulted:
            fn = fields[fdup]
            members.append(('F', M1 + q(fn) + M2 + self.pick([': 0', ':: 0', '(p): 0', '+: 0'])))
            self.injected.append({'kind': 'rep-field', 'pos': ctx.pos, 'live': ctx.live, 'in_obj': ctx.in_obj,
                                  'near': None, 'name': fn, 'variant': 'RepeatedFieldName', 'inplace': True})
        # computed names are analysed in the OUTER scope: no object locals, outer self
        ncomp = rng.randint(0, 2)
        for i in range(ncomp):
            near = dict(ctx.near)
            near.update({n: 'objlocal' for n in ls})
            key = '["c%d_" + ' % i + E(ctx.but(pos='field-name', near=near), 'num') + ']'
            members.append(('F', key + self.pick([': ', ':: ']) + E(inner.but(pos='field-value'), 'num')))
        if self.chance(0.6):
            actx = inner.but(pos='object-assert', depth=max(0, inner.depth - 2))
            members.append(('A', 'assert ' + ('true' if self.chance(0.25) else E(actx, 'bool') + ' || true') +
                            (' : ' + E(inner.but(pos='dead-branch', live=False), 'str') if self.chance(0.5) else '')))
        # locals / asserts / fields may come in any order: object locals are visible everywhere
        # in the object; only repeated-name groups must keep their relative order
        idx = list(range(len(members)))
        if not (lfaulted or ffaulted):
            rng.shuffle(idx)
        else:
            # keep relative order inside each class, interleave classes at random
            pools = {'L': [m for m in members if m[0] == 'L'], 'F': [m for m in members if m[0] == 'F'],
                     'A': [m for m in members if m[0] == 'A']}
            seq = [m[0] for m in members]
            rng.shuffle(seq)
            members = [pools[k].pop(0) for k in seq]
            idx = list(range(len(members)))
        return '{' + (',' + self.ws()).join(members[i][1] for i in idx) + self.pick(['', ',']) + '}'

    def program(self):
        ctx = Ctx()
        body = self.expr(ctx, self.pick(['num', 'arr', 'obj', 'obj']))
        pre = self.pick(['', '', '// é日本\n', '/* c */ ', '\n\n', '# \U0001d11e\n\t'])
        return pre + 'std.trace("T0", ' + body + ')' + self.pick(['', '\n', ' // end'])


def extract_marks(text):
    """strip the sentinels; returns (bytes, primary span or None, original span or None)"""
    out = bytearray()
    pos = {}
    for ch in text:
        if ch in (M1, M2, M3, M4):
            pos.setdefault(ch, []).append(len(out))
        else:
            out += ch.encode('utf-8')
    def one(a, b):
        if a in pos and b in pos and len(pos[a]) == 1 and len(pos[b]) == 1:
            return (pos[a][0], pos[b][0])
        return None
    many = any(len(v) > 1 for v in pos.values())
    return bytes(out), one(M1, M2), one(M3, M4), many


def make_program(seed, nfaults, size, fault_kind=None):
    """deterministic program from an integer seed; returns dict"""
    import random
    r0 = random.Random(seed)
    g0 = Gen(random.Random(seed), (), size)
    g0.program()
    n = g0.nsite
    faults = ()
    if nfaults:
        # bias: half of the time choose among the sites of an under-represented position kind
        by = collections.defaultdict(list)
        for i, s in enumerate(g0.sites):
            by[s[0]].append(i)
        faults = set()
        near_sites = [i for i, s in enumerate(g0.sites) if s[4] and s[3] == 'expr']
        for _ in range(nfaults):
            u = r0.random()
            if u < 0.25 and near_sites:
                faults.add(r0.choice(near_sites))
            elif u < 0.7:
                k = r0.choice(sorted(by))
                faults.add(r0.choice(by[k]))
            else:
                faults.add(r0.randrange(n))
    g = Gen(random.Random(seed), faults, size, fault_kind)
    text = g.program()
    src, prim, orig, many = extract_marks(text)
    return {'src': src, 'primary': prim, 'original': orig, 'injected': g.injected, 'refs': g.refs,
            'nsites': g.nsite, 'ntrace': g.ntrace, 'sites': g.sites, 'seed': seed, 'nfaults': nfaults, 'size': size,
            'fault_kind': fault_kind}


# --------------------------------------------------------------------------- running

STD = vlib.cps('std')
MACH = ('PANIC', 'CRASH', 'TIMEOUT', 'NOOUTPUT')


def sp_hex(p):
    return '%x:%x' % p


def field(fs, prefix):
    for x in fs:
        if x.startswith(prefix):
            return x[len(prefix):]
    return None


def run_programs(run, progs, impl_exe, model_exe, label):
    """progs: list of dicts (make_program output or corpus entries with 'src', optional 'expect')"""
    lines = []
    for i, p in enumerate(progs):
        h = hxl(list(p['src']))
        lines.append('L%d\tfront\tload\t%s' % (i, h))
        lines.append('E%d\teval\tstack=%x\t%s' % (i, 60, h))
    impl = vlib.run_sharded(impl_exe, lines, timeout=300)
    mlines = []
    for i, p in enumerate(progs):
        f = impl.get('L%d' % i, 'NOOUTPUT').split('\t')
        ast = None
        if f[0] == 'OK' and len(f) >= 3:
            ast = f[2]
        elif f[0] == 'ERR' and len(f) > 1 and f[1] == 'ANALYZE':
            ast = field(f, 'AST=')
        p['_ast'] = ast
        if ast is not None:
            mlines.append('M%d\t%s\t%s' % (i, STD, ast))
    model = vlib.run_sharded(model_exe, mlines, timeout=300)
    for i, p in enumerate(progs):
        judge(run, p, impl.get('L%d' % i, 'NOOUTPUT'), impl.get('E%d' % i, 'NOOUTPUT'), model.get('M%d' % i), label)


def replay_of(p, lr, er, mr):
    d = {'kind': 'program', 'source_hex': hxl(list(p['src'])), 'load': lr[:300], 'eval': er[:300], 'model': (mr or '')[:300]}
    for k in ('seed', 'nfaults', 'size', 'fault_kind'):
        if k in p:
            d[k] = p[k]
    return d


def judge(run, p, lr, er, mr, label):
    run.evaluations += 2
    run.count(label)
    src = p['src']
    lf, ef = lr.split('\t'), er.split('\t')
    rp = replay_of(p, lr, er, mr)
    show = src.decode('utf-8', 'replace')
    show = show if len(show) < 400 else show[:400] + '...'
    # ---- machinery / crash
    if ef[0] in MACH:
        key = 'eval-' + ef[0].lower()
        dbg = er[:200]
        run.violation(key, 'the evaluator %s on a program (%s): %s' % (ef[0], dbg, show), rp)
        return
    if lf[0] in MACH:
        run.violation('load-' + lf[0].lower(), 'load_source %s: %s' % (lr[:200], show), rp)
        return
    if lf[0] == 'ERR' and lf[1] in ('LEX', 'PARSE'):
        # the generator only prints syntactically valid programs; corpus entries may say otherwise
        if p.get('expect') != 'syntax':
            run.violation('generator-syntax', 'generated program does not parse (%s): %s' % ('\t'.join(lf[1:4]), show), rp, concrete=False)
        return
    impl_err = None
    if lf[0] == 'ERR' and lf[1] == 'ANALYZE':
        impl_err = (lf[2], lf[3], lf[4])
    elif lf[0] != 'OK':
        run.violation('load-unexpected', 'unexpected load answer %s: %s' % (lr[:200], show), rp, concrete=False)
        return
    run.count('outcome:' + (impl_err[0] if impl_err else 'accepted'))
    # eval and load must tell the same static story
    ev_static = (ef[0] == 'ERR' and ef[1] == 'ANALYZE')
    if ev_static != (impl_err is not None) or (ev_static and ef[2] != impl_err[0]):
        run.violation('load-eval-disagree', 'load_source answers differ between two runs: %s vs %s: %s' % (lr[:80], er[:80], show), rp, concrete=False)
    traces = field(ef, 'T=')
    # ---- oracle on the implementation alone
    inj = p.get('injected')
    if inj is not None:
        if len(inj) == 0 and p.get('nfaults', 0) == 0:
            # fault-free: never refused statically
            if impl_err:
                run.violation('false-static-error:' + impl_err[0],
                              'a fault-free program is refused with %s %s: %s' % (impl_err[0], impl_err[1], show), rp)
            else:
                run.count('faultfree:' + ('value' if ef[0] == 'OK' else 'eval-error:' + (ef[2] if len(ef) > 2 else '?')))
        elif len(inj) == 1:
            x = inj[0]
            if not impl_err:
                run.violation('missed-static-error:' + x['kind'],
                              'a program with an injected %s fault at a %s position (%s) is accepted statically (eval: %s): %s'
                              % (x['kind'], x['pos'], 'live' if x['live'] else 'dead', er[:60], show), rp)
            else:
                if traces:
                    run.violation('trace-before-static-error', 'std.trace fired before the static error was reported: %s' % show, rp)
                exp_spans = None
                if p.get('primary'):
                    exp_spans = sp_hex(p['primary']) + (';' + sp_hex(p['original']) if p.get('original') else '')
                exp_name = vlib.cps(x['name']) if x.get('name') else '-'
                if impl_err[0] != x['variant']:
                    run.violation('wrong-static-error:%s-as-%s' % (x['kind'], impl_err[0]),
                                  'an injected %s fault is reported as %s: %s' % (x['kind'], impl_err[0], show), rp)
                elif exp_spans and impl_err[1] != exp_spans:
                    run.violation('wrong-error-location:' + x['kind'],
                                  'an injected %s fault at bytes %s is reported at %s: %s' % (x['kind'], exp_spans, impl_err[1], show), rp)
                elif impl_err[2] != exp_name:
                    run.violation('wrong-error-name:' + x['kind'], 'an injected %s fault on name %s is reported with name %s: %s'
                                  % (x['kind'], exp_name, impl_err[2], show), rp)
                else:
                    run.count('fault:%s@%s' % (x['kind'], x['pos']))
                    run.count('fault-live' if x['live'] else 'fault-dead')
                    run.nontrivial.add(('fault', x['kind'], x['pos'], x['live']))
                    if x.get('near'):
                        run.nontrivial.add(('near', x['near'], x['pos']))
                        run.count('nearmiss:%s@%s' % (x['near'], x['pos']))
        else:
            if not impl_err and len(inj) > 0:
                run.violation('missed-static-error:multi', 'a program with %d injected faults is accepted statically: %s' % (len(inj), show), rp)
            elif impl_err and traces:
                run.violation('trace-before-static-error', 'std.trace fired before the static error was reported: %s' % show, rp)
    exp = p.get('expect')
    if exp and exp not in ('syntax',):
        got = impl_err[0] if impl_err else 'OK'
        if got != exp:
            run.violation('corpus:%s-got-%s' % (exp, got), 'corpus program expected %s, implementation says %s: %s' % (exp, got, show), rp)
    # ---- correspondence
    if mr is None:
        run.violation('model-missing', 'no model answer for an analysed program: %s' % show, rp, concrete=False)
        return
    mf = mr.split('\t')
    if mf[0] in ('MODELEXC', 'NOOUTPUT', 'CRASH', 'TIMEOUT', 'FUEL'):
        run.violation('model-machinery', 'model driver %s on %s' % (mr[:200], show), rp, concrete=False)
        return
    nflag = field(mf, 'N=')
    if nflag != '1':
        run.violation('ast-number-shape', 'the parser produced a number literal outside the lexer shape (nums_ok fails): %s' % show, rp, concrete=False)
    if mf[0] == 'PANIC':
        run.violation('model-panic', 'the model reaches a panic site (%s) where the implementation answers %s: %s' % (mr[:100], lr[:80], show), rp, concrete=False)
        return
    model_err = (mf[1], mf[2], mf[3]) if mf[0] == 'ERR' else None
    if model_err != impl_err:
        # StaticOK <-> model is proved; the implementation decides differently from the model
        concrete = (model_err is None) != (impl_err is None)
        what = 'implementation %s / model %s on %s' % (impl_err or 'accepts', model_err or 'accepts', show)
        if concrete:
            run.violation('static-verdict-differs:%s/%s' % (impl_err[0] if impl_err else 'OK', model_err[0] if model_err else 'OK'),
                          'the static verdict differs from the proved-exact model: ' + what, rp)
        else:
            run.violation('first-error-differs:%s/%s' % (impl_err[0], model_err[0]),
                          'correspondence analyze (which error is reported first / where): ' + what, rp, concrete=False)
    if len(run.samples) < 6 and (impl_err or len(run.samples) < 2):
        run.samples.append({'program': show[:300], 'load': '\t'.join(lf[:5])[:200], 'model': mr[:200], 'eval': '\t'.join(ef[:3])[:120]})


CORPUS = os.path.join(vlib.VERIF, 'corpus', 'c09_programs.txt')


def corpus_programs():
    out = []
    if os.path.exists(CORPUS):
        for l in open(CORPUS, encoding='utf-8'):
            l = l.rstrip('\n')
            if not l or l.startswith('#'):
                continue
            exp, _, src = l.partition('\t')
            src = src.replace('\\n', '\n').replace('\\t', '\t').encode('utf-8')
            out.append({'src': src, 'expect': exp})
    return out


def matrices(run, progs):
    refs = collections.Counter()
    for p in progs:
        if p.get('nfaults') == 0:
            refs.update(p['refs'])
    rows = ['%s/%s' % r for r in ROWS]
    ref_m = {'%s/%s' % (b, f): {q: refs.get((b, f, q), 0) for q in PKINDS} for (b, f) in ROWS}
    fault_m = {f: {q: run.hist.get('fault:%s@%s' % (f, q), 0) for q in PKINDS + ['root']} for f in FKINDS}
    near_m = {b: {q: run.hist.get('nearmiss:%s@%s' % (b, q), 0) for q in PKINDS} for b in BKINDS}
    missing_ref = ['%s x %s' % (r, q) for r in rows for q in PKINDS if ref_m[r][q] == 0]
    for r in rows:
        for q in PKINDS:
            if ref_m[r][q]:
                run.nontrivial.add(('ref', r, q))
    run.extra['matrix_reference_binderkind_form_x_positionkind'] = ref_m
    run.extra['matrix_fault_kind_x_positionkind'] = fault_m
    run.extra['matrix_out_of_scope_binderkind_x_positionkind'] = near_m
    run.extra['matrix_reference_cells'] = len(rows) * len(PKINDS)
    run.extra['matrix_reference_uncovered'] = missing_ref
    return missing_ref


def check(run):
    rng = vlib.rng_for(run.seed, ID)
    run.rule = ('type-directed generator of Jsonnet programs over a 5-name variable pool (shadowing at local, local function, '
                'function/method parameter, object local, array/object comprehension variable, object-comprehension local, nested '
                'object binders); three streams: fault-free, exactly one injected scoping fault at a random site (expression sites and '
                'binder-group sites, 60% stratified by position kind), 2-3 faults (first-error order, K only).  non-trivial = distinct '
                '(fault kind x position kind x live/dead) of a correctly diagnosed fault, (out-of-scope binder kind x position kind) of a '
                'near-miss unbound variable, and (binder kind x position kind) of a resolved reference in a fault-free program.')
    run.assume = ['Rust core f64::from_str accepts "<digits>e<i64>" for every non-empty run of ASCII digits (number literals are lexer-shaped: checked per case by nums_ok)',
                  'FHashSet/FHashMap behave as finite sets/maps (modelled as lists with membership / association)',
                  'the run-time half is stated over an abstract walker of the environment discipline (Model/Analyze walk), not over the Rust evaluator; the evaluator itself is exercised by the oracle only']
    pres = vlib.prove(ID, THEOREMS, ALLOWED_AXIOMS)
    run.add_proof(pres, THEOREMS)
    impl_exe = vlib.build_harness()
    model_exe = vlib.build_model('analyze')

    quick = run.tier == 'quick'
    n_free, n_one, n_multi = (1000, 1600, 400) if quick else (30000, 40000, 8000)
    progs = corpus_programs()
    run.count('corpus', 0)
    gen = []
    for i in range(n_free):
        gen.append(make_program(rng.getrandbits(48), 0, rng.choice([3, 4, 5, 6])))
    for i in range(n_one):
        fk = rng.choice(FKINDS) if rng.random() < 0.35 else None
        gen.append(make_program(rng.getrandbits(48), 1, rng.choice([3, 4, 5, 6]), fk))
    for i in range(n_multi):
        gen.append(make_program(rng.getrandbits(48), rng.choice([2, 3]), rng.choice([3, 4, 5])))
    for p in gen:
        run.count('size:%d' % min(9, len(p['src']) // 200))
        # a single-fault program whose fault site fell in a region the second pass did not reach is fault-free
        if p['nfaults'] == 1 and len(p['injected']) == 0:
            p['nfaults'] = 0
    run_programs(run, progs, impl_exe, model_exe, 'corpus')
    run_programs(run, gen, impl_exe, model_exe, 'generated')
    missing = matrices(run, gen)
    run.count('reference-matrix-uncovered-cells', len(missing))
    if not quick:
        # the generator is random: a few of the 240 cells may stay empty for some seeds; they are listed in evidence
        run.add_obligation('coverage: at most 3 of the 240 (binder kind/syntax form x position kind) reference cells unexercised',
                           len(missing) <= 3, ', '.join(missing[:12]))


def replay(run, path):
    j = json.load(open(path))
    r = j.get('replay', {})
    if isinstance(r, dict) and r.get('kind') == 'program':
        src = bytes(int(x, 16) for x in r['source_hex'].split(',')) if r['source_hex'] else b''
        p = {'src': src}
        if 'seed' in r and r.get('seed') is not None:
            q = make_program(r['seed'], r.get('nfaults', 0), r.get('size', 4), r.get('fault_kind'))
            if q['src'] == src:
                p = q
                if p['nfaults'] == 1 and len(p['injected']) == 0:
                    p['nfaults'] = 0
        run_programs(run, [p], vlib.build_harness(), vlib.build_model('analyze'), 'replay')
    else:
        print('replay file names a broken obligation, not an input:', json.dumps(j.get('no_longer_checks', j), indent=1)[:2000])
        pres = vlib.prove(ID, THEOREMS, ALLOWED_AXIOMS)
        run.add_proof(pres, THEOREMS)
    for v in run.violations:
        print('REPRODUCED:', v['what'])
    if not run.violations and not run.failed_obligations:
        print('not reproduced')
    return 1 if (run.violations or run.failed_obligations) else 0
