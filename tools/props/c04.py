"""C04 — evaluation is call-by-need: unused parts never run, used parts run once;
meaning-preserving rewrites leave value, error message and std.trace output unchanged.

Proof:  Props/C04.v over Model/LazyCore.v (call-by-name evaluator of a lazy core
        fragment of Jsonnet: coincidence lemma, rewrite laws, dead-code irrelevance)
        and Model/Memo.v (thunk state machine: run_once, done_is_stable).
K:      generated LazyCore programs, printed to Jsonnet text, through the real
        pipeline (harness component `eval`) vs the extracted model: value / error and
        the SET of trace messages (plus: implementation trace is a subsequence of the
        call-by-name trace, and never fires a message more often than call-by-name).
Search: implementation only, metamorphic: every rewrite kind at sampled sites of
        much richer programs (ui-tests/pass, LazyCore programs, a rich generator):
        identical value, error message and trace sequence; uniquely numbered
        std.trace at binding positions outside function bodies fire at most once.
"""
import os, sys, re, json, glob, ast
from collections import Counter
import vlib
from vlib import hx, hxl, cps, uncps

ID = 'C04'
sys.setrecursionlimit(max(sys.getrecursionlimit(), 6000))
COMPONENTS = ['lazycore']
THEOREMS = ['C04_coincidence', 'C04_rw_local_name', 'C04_rw_local_name_results', 'C04_rw_identity', 'C04_rw_array_proj',
            'C04_rw_object_proj', 'C04_rw_dead_local', 'C04_rw_dead_bind', 'C04_rw_dead_field',
            'C04_rw_dead_field_value', 'C04_rw_dead_param', 'C04_dead_code_irrelevance',
            'C04_dead_bind_irrelevance', 'C04_error_in_dead_code', 'C04_run_once', 'C04_done_is_stable',
            'C04_never_back_to_pending', 'C04_set_done_assert_never_fires', 'C04_inprogress_reentry_fails',
            'C04_laziness_monotone', 'C04_laziness_monotone_arg', 'C04_laziness_monotone_item',
            'C04_nonvacuous_rewrites', 'C04_nonvacuous_laziness', 'C04_nonvacuous_machine']
ALLOWED_AXIOMS = set()
TRANSLATORS = []

FE, FM = 400, 60          # model fuel: closure depth / value nesting
STACK = 0x800             # implementation max stack for every run of this check


# =====================================================================================
# LazyCore programs (python side): tuples
#   ('null',) ('bool',b) ('num',z) ('str',s) ('var',x) ('local',[(x,e)],body)
#   ('func',[(p,default|None)],body) ('call',f,[args]) ('arr',[es]) ('index',a,i)
#   ('obj',[(f,hidden,e)]) ('field',o,f) ('self',) ('if',c,t,e) ('error',m)
#   ('add',a,b) ('eq',a,b) ('trace',m,e)

def enc_name(x):
    return cps(x)


def encode(e, out):
    k = e[0]
    if k == 'null':
        out.append('n')
    elif k == 'bool':
        out.append('t' if e[1] else 'f')
    elif k == 'num':
        out.append('i' + ('-%x' % -e[1] if e[1] < 0 else '%x' % e[1]))
    elif k == 'str':
        out.append('s' + cps(e[1]))
    elif k == 'var':
        out.append('v' + cps(e[1]))
    elif k == 'self':
        out.append('Z')
    elif k == 'local':
        out.append('L'); out.append('%x' % len(e[1]))
        for x, b in e[1]:
            out.append(enc_name(x)); encode(b, out)
        encode(e[2], out)
    elif k == 'func':
        out.append('U'); out.append('%x' % len(e[1]))
        for p, d in e[1]:
            out.append(enc_name(p))
            if d is None:
                out.append('0')
            else:
                out.append('1'); encode(d, out)
        encode(e[2], out)
    elif k == 'call':
        out.append('C'); encode(e[1], out); out.append('%x' % len(e[2]))
        for a in e[2]:
            encode(a, out)
    elif k == 'arr':
        out.append('A'); out.append('%x' % len(e[1]))
        for a in e[1]:
            encode(a, out)
    elif k == 'index':
        out.append('X'); encode(e[1], out); encode(e[2], out)
    elif k == 'obj':
        out.append('O'); out.append('%x' % len(e[1]))
        for f, h, b in e[1]:
            out.append(enc_name(f)); out.append('1' if h else '0'); encode(b, out)
    elif k == 'field':
        out.append('D'); encode(e[1], out); out.append(enc_name(e[2]))
    elif k == 'if':
        out.append('?'); encode(e[1], out); encode(e[2], out); encode(e[3], out)
    elif k == 'error':
        out.append('E'); encode(e[1], out)
    elif k == 'add':
        out.append('+'); encode(e[1], out); encode(e[2], out)
    elif k == 'eq':
        out.append('='); encode(e[1], out); encode(e[2], out)
    elif k == 'trace':
        out.append('R'); encode(e[1], out); encode(e[2], out)
    else:
        raise ValueError(k)
    return out


def wire_of(e):
    return ' '.join(encode(e, []))


def jstr(s, rng=None):
    q = '"' if (rng is None or rng.random() < 0.7) else "'"
    o = []
    for c in s:
        if c == q or c == '\\':
            o.append('\\' + c)
        elif c == '\n':
            o.append('\\n')
        elif ord(c) < 0x20 or (rng is not None and ord(c) > 0x7e and rng.random() < 0.5):
            o.append('\\u%04x' % ord(c))
        else:
            o.append(c)
    return q + ''.join(o) + q


def show(e, rng=None):
    """LazyCore -> Jsonnet source text (every composite parenthesised; a few equivalent
    surface forms chosen at random: quoted field names, o["f"], local f(x) = b, if without else)"""
    k = e[0]
    r = (lambda p: rng is not None and rng.random() < p)
    if k == 'null':
        return 'null'
    if k == 'bool':
        return 'true' if e[1] else 'false'
    if k == 'num':
        return show_num(e[1], rng)
    if k == 'str':
        return jstr(e[1], rng)
    if k == 'var':
        return e[1]
    if k == 'self':
        return 'self'
    if k == 'local':
        bs = []
        for x, b in e[1]:
            if b[0] == 'func' and r(0.5):
                bs.append('%s(%s) = %s' % (x, show_params(b[1], rng), show(b[2], rng)))
            else:
                bs.append('%s = %s' % (x, show(b, rng)))
        return '(local %s; %s)' % (', '.join(bs), show(e[2], rng))
    if k == 'func':
        return '(function(%s) %s)' % (show_params(e[1], rng), show(e[2], rng))
    if k == 'call':
        return '%s(%s)' % (show(e[1], rng), ', '.join(show(a, rng) for a in e[2]))
    if k == 'arr':
        return '[%s]' % ', '.join(show(a, rng) for a in e[1])
    if k == 'index':
        return '%s[%s]' % (show_post(e[1], rng), show(e[2], rng))
    if k == 'obj':
        ms = []
        for f, h, b in e[1]:
            nm = jstr(f) if r(0.2) else f
            ms.append('%s%s %s' % (nm, '::' if h else ':', show(b, rng)))
        return '{%s}' % ', '.join(ms)
    if k == 'field':
        if r(0.15):
            return '%s[%s]' % (show_post(e[1], rng), jstr(e[2]))
        return '%s.%s' % (show_post(e[1], rng), e[2])
    if k == 'if':
        if e[3] == ('null',) and r(0.5):
            return '(if %s then %s)' % (show(e[1], rng), show(e[2], rng))
        return '(if %s then %s else %s)' % (show(e[1], rng), show(e[2], rng), show(e[3], rng))
    if k == 'error':
        return '(error %s)' % show(e[1], rng)
    if k == 'add':
        return '(%s + %s)' % (show(e[1], rng), show(e[2], rng))
    if k == 'eq':
        return '(%s == %s)' % (show(e[1], rng), show(e[2], rng))
    if k == 'trace':
        return 'std.trace(%s, %s)' % (show(e[1], rng), show(e[2], rng))
    raise ValueError(k)


def show_num(z, rng):
    """an integer literal in one of its equivalent surface forms (plain, fraction part, exponent); literals
    beyond the double range are printed too (the model answers NumberOverflow for |z| >= 2^1024)"""
    a = abs(z)
    digits = '%d' % a
    forms = [digits]
    if rng is not None:
        forms.append(digits + '.0')
        forms.append(digits + 'e0')
        forms.append(digits + '.000E+0')
        t = digits.rstrip('0')
        if a != 0 and len(t) < len(digits):
            forms.append('%se%d' % (t, len(digits) - len(t)))
            forms.append('%s.0e+%d' % (t, len(digits) - len(t)))
        if a != 0 and len(digits) <= 15:
            forms.append('%s0e-1' % digits)
            forms.append('%s.%se%d' % (digits[0], digits[1:] or '0', len(digits) - 1))
    txt = rng.choice(forms) if rng is not None else digits
    return '(-%s)' % txt if z < 0 else txt


def show_post(e, rng):
    s = show(e, rng)
    if e[0] in ('num',) and not s.startswith('('):
        return '(%s)' % s     # 1.e: a digit followed by '.' would lex as a fraction
    return s


def show_params(ps, rng):
    return ', '.join(p if d is None else '%s = %s' % (p, show(d, rng)) for p, d in ps)


# ---------------------------------------------------------------- generator (typed-ish)

NUM, STR, BOOL, NUL = ('num',), ('str',), ('bool',), ('null',)
ALPHA = ['a', 'b', 'x', 'y', ' ', '0', 'é', '日', '"', "'", '\\', '-', '_', 'Z']


class Gen:
    """typed-ish generator of LazyCore programs: ~75% error-free, the rest with a deliberate
    type/arity/index/field error or an explicit error; dead bindings (often failing) everywhere;
    binder names from a small pool to force shadowing; unique trace message per site"""

    def __init__(self, rng, size):
        self.rng = rng
        self.size = size
        self.nsite = 0
        self.nodes = 0
        self.sites_outside = set()   # trace messages of binding positions outside every function body
        self.err_budget = 1 if rng.random() < 0.3 else 0
        self.kinds = set()

    def site(self, e, infun):
        """wrap a binding position with a uniquely numbered trace"""
        if self.rng.random() < 0.75:
            self.nsite += 1
            m = 'site-%d' % self.nsite
            if not infun:
                self.sites_outside.add(m)
            self.kinds.add('trace')
            return ('trace', ('str', m), e)
        return e

    def name(self, env, avoid=()):
        pool = ['v0', 'v1', 'v2', 'v3', 'v4', 'w']
        c = [p for p in pool if p not in avoid]
        return self.rng.choice(c)

    def rand_str(self):
        n = self.rng.choice([0, 1, 1, 2, 3, 5])
        return ''.join(self.rng.choice(ALPHA) for _ in range(n))

    def rand_type(self, d):
        r = self.rng.random()
        if d <= 0 or r < 0.55:
            return self.rng.choice([NUM, NUM, STR, BOOL, NUL])
        if r < 0.75:
            return ('arr', self.rand_type(d - 1), self.rng.randint(0, 3))
        if r < 0.92:
            fs = {}
            for f in self.rng.sample(['a', 'b', 'c', 'd'], self.rng.randint(0, 3)):
                fs[f] = self.rand_type(d - 1)
            return ('obj', fs)
        np = self.rng.randint(0, 2)
        return ('fun', [self.rand_type(0) for _ in range(np)], self.rand_type(d - 1))

    def failing(self, d, env, ctx):
        """an expression that fails when evaluated (for dead positions and the error stream)"""
        r = self.rng.random()
        self.kinds.add('failing')
        if r < 0.42:
            return ('error', ('str', 'dead-' + self.rand_str()))
        if r < 0.5:
            # a literal that is not a finite double fails when (and only when) it is evaluated
            return ('num', self.rng.choice([10 ** 400, -(10 ** 400), 10 ** 309, 2 ** 1024, 17976931348623159 * 10 ** 292 * 10]))
        if r < 0.6:
            return ('add', ('null',), ('num', 1))
        if r < 0.7:
            return ('index', ('arr', [('num', 1)]), ('num', self.rng.choice([1, 5, -1])))
        if r < 0.8:
            return ('field', ('obj', [('a', False, ('num', 1))]), 'zz')
        if r < 0.85:
            return ('call', ('num', 3), [])
        if r < 0.9:
            return ('if', ('num', 0), ('num', 1), ('num', 2))
        if r < 0.95:
            return ('error', ('add', ('str', 'n='), ('num', self.rng.randint(-3, 99))))
        return ('call', ('func', [('p', None)], ('num', 1)), [])

    def lit(self, ty, d, env, ctx):
        k = ty[0]
        if k == 'num':
            return ('num', self.rng.choice([0, 1, 2, 3, 7, -1, -5, 10, 100, 1000, 2 ** 31, 2 ** 52, 2 ** 53, -(2 ** 53), 9007199254740991]))
        if k == 'str':
            return ('str', self.rand_str())
        if k == 'bool':
            return ('bool', self.rng.random() < 0.5)
        if k == 'null':
            return ('null',)
        if k == 'arr':
            return ('arr', [self.site(self.expr(ty[1], d - 1, env, ctx), ctx['infun']) for _ in range(ty[2])])
        if k == 'obj':
            return self.obj(ty, d, env, ctx)
        if k == 'fun':
            return self.func(ty, d, env, ctx)
        raise ValueError(ty)

    def obj(self, ty, d, env, ctx):
        self.kinds.add('obj')
        names = list(ty[1].keys())
        self.rng.shuffle(names)
        # extra fields: hidden helpers and dead fields
        extra = []
        for _ in range(self.rng.choice([0, 0, 1, 2])):
            f = self.rng.choice(['h', 'k', 'dead', 'z'])
            if f not in names and f not in [x[0] for x in extra]:
                extra.append((f, self.rand_type(0)))
        order = names + [x[0] for x in extra]
        self.rng.shuffle(order)
        tys = dict(ty[1]); tys.update(dict(extra))
        fields = []
        avail = {}
        for f in order:
            ctx2 = dict(ctx); ctx2['self'] = dict(avail)
            hidden = (f not in ty[1])
            if hidden and self.rng.random() < 0.5:
                body = self.failing(d - 1, env, ctx2)      # a dead, failing hidden field
            else:
                body = self.expr(tys[f], d - 1, env, ctx2)
                avail[f] = tys[f]
            fields.append((f, hidden, self.site(body, ctx['infun'])))
        return ('obj', fields)

    def func(self, ty, d, env, ctx):
        self.kinds.add('func')
        ps = []
        env2 = dict(env)
        used = []
        for pt in ty[1]:
            p = self.name(env, used)
            used.append(p)
            ps.append([p, None, pt])
        # optional parameters with defaults (may refer to earlier parameters), often dead/failing
        for _ in range(self.rng.choice([0, 0, 1])):
            p = self.name(env, used)
            used.append(p)
            ps.append([p, 'default', self.rand_type(0)])
        ctx2 = dict(ctx); ctx2['infun'] = True
        for p, _, pt in ps:
            env2[p] = pt
        out = []
        seen_env = dict(env)
        for p, dflt, pt in ps:
            if dflt is None:
                out.append((p, None))
            else:
                if self.rng.random() < 0.4:
                    de = self.failing(0, env2, ctx2)
                    env2.pop(p, None)    # never use a failing default
                else:
                    de = self.expr(pt, d - 2, {k: v for k, v in env2.items() if k != p}, ctx2)
                out.append((p, de))
        body = self.expr(ty[2], d - 1, env2, ctx2)
        return ('func', out, body)

    def vars_of(self, ty, env):
        return [x for x, t in env.items() if t == ty]

    def expr(self, ty, d, env, ctx):
        self.nodes += 1
        rng = self.rng
        if self.err_budget and rng.random() < 0.03:
            self.err_budget = 0
            return self.failing(d, env, ctx)
        if d <= 0 or self.nodes > self.size:
            vs = self.vars_of(ty, env)
            if vs and rng.random() < 0.6:
                return ('var', rng.choice(vs))
            if ty[0] in ('arr', 'obj', 'fun'):
                return self.lit((ty[0], ty[1], 0) if ty[0] == 'arr' and d < -2 else ty, 0 if d > 0 else d - 1, env, ctx) \
                    if d > -4 else self.tiny(ty)
            return self.lit(ty, 0, env, ctx)
        r = rng.random()
        if r < 0.12:
            return self.lit(ty, d, env, ctx)
        if r < 0.30:
            vs = self.vars_of(ty, env)
            if vs:
                return ('var', rng.choice(vs))
            return self.share(ty, d, env, ctx)
        if r < 0.46:
            return self.local(ty, d, env, ctx)
        if r < 0.54:
            self.kinds.add('if')
            c = self.expr(BOOL, d - 1, env, ctx)
            # the untaken branch is often a failing expression
            a = self.expr(ty, d - 1, env, ctx)
            b = self.failing(d - 1, env, ctx) if rng.random() < 0.3 else self.expr(ty, d - 1, env, ctx)
            if c == ('bool', False):
                a, b = b, a
            elif c[0] != 'bool' and b[0] in ('error',) and rng.random() < 0.9:
                b = self.expr(ty, d - 1, env, ctx)
            return ('if', c, a, b)
        if r < 0.66:
            return self.call(ty, d, env, ctx)
        if r < 0.74:
            self.kinds.add('index')
            n = rng.randint(1, 3)
            i = rng.randrange(n)
            es = []
            for j in range(n):
                if j == i:
                    es.append(self.site(self.expr(ty, d - 1, env, ctx), ctx['infun']))
                elif rng.random() < 0.5:
                    es.append(self.site(self.failing(d - 1, env, ctx), ctx['infun']))
                else:
                    es.append(self.site(self.expr(self.rand_type(0), d - 2, env, ctx), ctx['infun']))
            ix = ('num', i) if rng.random() < 0.7 else ('add', ('num', i), ('num', 0))
            return ('index', ('arr', es), ix)
        if r < 0.82:
            self.kinds.add('field')
            # via self when available
            sf = [f for f, t in (ctx.get('self') or {}).items() if t == ty]
            if sf and rng.random() < 0.7:
                self.kinds.add('self')
                return ('field', ('self',), rng.choice(sf))
            fs = {'a': ty}
            for f in rng.sample(['b', 'c'], rng.randint(0, 2)):
                fs[f] = self.rand_type(0)
            return ('field', self.obj(('obj', fs), d, env, ctx), 'a')
        if r < 0.9:
            k = ty[0]
            if k == 'num':
                self.kinds.add('add')
                return ('add', self.expr(NUM, d - 1, env, ctx), self.expr(NUM, d - 1, env, ctx))
            if k == 'str':
                self.kinds.add('add')
                other = rng.choice([STR, STR, NUM, BOOL, NUL])
                a, b = self.expr(STR, d - 1, env, ctx), self.expr(other, d - 1, env, ctx)
                return ('add', a, b) if rng.random() < 0.6 else ('add', b, a)
            if k == 'arr':
                self.kinds.add('add')
                n1 = rng.randint(0, ty[2])
                return ('add', self.expr(('arr', ty[1], n1), d - 1, env, ctx),
                        self.expr(('arr', ty[1], ty[2] - n1), d - 1, env, ctx))
            if k == 'bool':
                self.kinds.add('eq')
                t = rng.choice([NUM, STR, BOOL, NUL])
                t2 = t if rng.random() < 0.8 else rng.choice([NUM, STR, NUL])
                return ('eq', self.expr(t, d - 1, env, ctx), self.expr(t2, d - 1, env, ctx))
            return self.lit(ty, d, env, ctx)
        if r < 0.95:
            return self.site(self.expr(ty, d - 1, env, ctx), True)   # a trace in a non-binding position
        return self.lit(ty, d, env, ctx)

    def share(self, ty, d, env, ctx):
        """one traced binding used several times: memoisation is observable (call-by-name traces repeat)"""
        self.kinds.add('share')
        rng = self.rng
        x = self.name(env)
        k = ty[0]
        if k in ('num', 'str'):
            b = self.site(self.expr(ty, d - 2, env, ctx), ctx['infun'])
            body = ('add', ('var', x), ('var', x))
            if rng.random() < 0.4:
                body = ('add', body, ('var', x))
            return ('local', [(x, b)], body)
        if k == 'arr' and ty[2] >= 1:
            b = self.site(self.expr(ty[1], d - 2, env, ctx), ctx['infun'])
            return ('local', [(x, b)], ('arr', [('var', x)] * ty[2]))
        if k == 'bool':
            t = rng.choice([NUM, STR])
            b = self.site(self.expr(t, d - 2, env, ctx), ctx['infun'])
            return ('local', [(x, b)], ('eq', ('var', x), ('var', x)))
        if k == 'obj' and ty[1]:
            # an object whose fields all read one hidden traced field through self
            f0 = sorted(ty[1].keys())[0]
            fields = [('h', True, self.site(self.expr(ty[1][f0], d - 2, env, dict(ctx, self={})), ctx['infun']))]
            for f, t in ty[1].items():
                if t == ty[1][f0]:
                    self.kinds.add('self')
                    fields.append((f, False, ('field', ('self',), 'h')))
                else:
                    fields.append((f, False, self.tiny(t)))
            rng.shuffle(fields)
            return ('obj', fields)
        return self.lit(ty, d, env, ctx)

    def tiny(self, ty):
        k = ty[0]
        if k == 'arr':
            return ('arr', [self.tiny(ty[1]) for _ in range(ty[2])])
        if k == 'obj':
            return ('obj', [(f, False, self.tiny(t)) for f, t in ty[1].items()])
        if k == 'fun':
            return ('func', [('p%d' % i, None) for i in range(len(ty[1]))], self.tiny(ty[2]))
        return {'num': ('num', 4), 'str': ('str', 't'), 'bool': ('bool', True), 'null': ('null',)}[k]

    def local(self, ty, d, env, ctx):
        self.kinds.add('local')
        rng = self.rng
        n = rng.choice([1, 1, 2, 3])
        used = []
        binds = []
        for _ in range(n):
            x = self.name(env, used)
            used.append(x)
            if rng.random() < 0.12:
                binds.append([x, ('fun', [NUM], rng.choice([NUM, STR])), None])
            else:
                binds.append([x, self.rand_type(1) if rng.random() < 0.7 else ty, None])
        # binds may refer to binds later in a random order (acyclic), bodies see all of them
        order = list(range(n))
        rng.shuffle(order)
        env_all = dict(env)
        env_avail = {k: v for k, v in env.items() if k not in used}
        dead = set()
        for idx in order:
            x, t, _ = binds[idx]
            if rng.random() < 0.25:
                binds[idx][2] = self.failing(d - 1, env_avail, ctx)     # dead, failing
                dead.add(x)
                self.kinds.add('dead-local')
            elif t[0] == 'fun' and t[1] and t[1][0] == NUM and t[2][0] in ('num', 'str', 'arr') and rng.random() < 0.8:
                binds[idx][2] = self.recfun(x, t, d, env_avail, ctx)
                env_avail = dict(env_avail); env_avail[x] = t
            else:
                binds[idx][2] = self.expr(t, d - 1, env_avail, ctx)
                env_avail = dict(env_avail); env_avail[x] = t
        for x, t, _ in binds:
            env_all[x] = t
        for x in dead:
            env_all.pop(x, None)
        body = self.expr(ty, d - 1, env_all, ctx)
        return ('local', [(x, self.site(b, ctx['infun']) if b[0] != 'func' else b) for x, t, b in binds], body)

    def recfun(self, x, t, d, env, ctx):
        """a structurally recursive function on a small counter: f(n, ...) = if n == 0 then base else step(f(n + -1, ...))"""
        self.kinds.add('recursion')
        ps = [('n', None)] + [('q%d' % i, None) for i in range(1, len(t[1]))]
        env2 = dict(env); env2['n'] = NUM
        for (p, _), pt in zip(ps[1:], t[1][1:]):
            env2[p] = pt
        ctx2 = dict(ctx); ctx2['infun'] = True
        base = self.expr(t[2], 1, env2, ctx2)
        rec = ('call', ('var', x), [('add', ('var', 'n'), ('num', -1))] + [('var', p) for p, _ in ps[1:]])
        if t[2][0] == 'num':
            step = ('add', rec, ('var', 'n'))
        elif t[2][0] == 'str':
            step = ('add', rec, ('str', '.'))
        else:
            step = rec
        return ('func', ps, ('if', ('eq', ('var', 'n'), ('num', 0)), base, step))

    def call(self, ty, d, env, ctx):
        self.kinds.add('call')
        rng = self.rng
        # a known function variable returning ty?
        fv = [(x, t) for x, t in env.items() if t[0] == 'fun' and t[2] == ty]
        if fv and rng.random() < 0.6:
            x, t = rng.choice(fv)
            args = []
            for i, pt in enumerate(t[1]):
                if i == 0 and pt == NUM:
                    args.append(('num', rng.randint(0, 4)))    # counters of recursive functions stay small
                else:
                    args.append(self.site(self.expr(pt, d - 2, env, ctx), ctx['infun']))
            return ('call', ('var', x), args)
        np = rng.randint(0, 2)
        ft = ('fun', [self.rand_type(0) for _ in range(np)], ty)
        f = self.func(ft, d, env, ctx)
        args = []
        for pt in ft[1]:
            # an argument the body may ignore: sometimes failing (then make sure it is not used: bind a fresh dead parameter)
            args.append(self.site(self.expr(pt, d - 2, env, ctx), ctx['infun']))
        # dead extra parameter receiving a failing argument
        if rng.random() < 0.3:
            self.kinds.add('dead-arg')
            f = ('func', [('dead_p', None)] + list(f[1]), f[2])
            args = [self.site(self.failing(d - 2, env, ctx), ctx['infun'])] + args
        return ('call', f, args)


def gen_program(rng, size):
    g = Gen(rng, size)
    ty = g.rand_type(2)
    while ty[0] == 'fun':
        ty = g.rand_type(2)
    if rng.random() < 0.2:
        # a nested object is bound once, read in part and returned whole (both orders): the whole run,
        # manifestation of the result included, must show every trace of the structure
        oty = g.rand_type(3)
        tries = 0
        while not (oty[0] == 'obj' and oty[1]) and tries < 20:
            oty = g.rand_type(3); tries += 1
        if oty[0] == 'obj' and oty[1]:
            g.kinds.add('part-then-whole')
            ctx = {'infun': False, 'self': None}
            lit = g.obj(oty, rng.choice([3, 4]), {}, ctx)
            rd = ('var', 'pw')
            t = oty
            while t[0] == 'obj' and t[1] and (rd == ('var', 'pw') or rng.random() < 0.6):
                f = rng.choice(sorted(t[1].keys()))
                rd = ('field', rd, f)
                t = t[1][f]
            items = [rd, ('var', 'pw')]
            if rng.random() < 0.5:
                items.reverse()
            if rng.random() < 0.3:
                items.append(('field', ('var', 'pw'), rng.choice(sorted(oty[1].keys()))))
            return ('local', [('pw', lit)], ('arr', items)), g
    e = g.expr(ty, rng.choice([3, 4, 5, 6]), {}, {'infun': False, 'self': None})
    return e, g


# =====================================================================================
# running and canonicalising

def eval_case(cid, src, stack=STACK):
    return (cid, 'eval', ['stack=%x' % stack, hxl(list(src.encode('utf-8')))])


def parse_traces(field):
    assert field.startswith('T='), field
    body = field[2:]
    if body == '':
        return []
    return [uncps(m) for m in body.split('/')]


def json_pairs(text):
    return json.loads(text, object_pairs_hook=lambda ps: ('O', tuple(ps)))


def freeze(j):
    if isinstance(j, list):
        return ('A', tuple(freeze(x) for x in j))
    if isinstance(j, tuple) and j and j[0] == 'O':
        return ('O', tuple((k, freeze(v)) for k, v in j[1]))
    if isinstance(j, float) and j == int(j):
        return int(j)
    return j


def canon_impl(r):
    """-> (class, payload, traces); class in ok / err / loaderr / crash"""
    f = r.split('\t')
    if f[0] == 'OK':
        txt = uncps(f[1])
        return ('ok', txt, parse_traces(f[2]))
    if f[0] == 'ERR':
        if f[1] != 'EVAL':
            return ('loaderr', f[1] + ':' + f[2], [])
        variant, msg = f[2], f[3]
        dbg = ''
        tr = []
        for x in f[4:]:
            if x.startswith('T='):
                tr = parse_traces(x)
            elif x.startswith('D='):
                dbg = uncps(x[2:])
        payload = None
        if variant in ('ExplicitError', 'AssertFailed'):
            payload = uncps(msg) if msg != '-' else (None if variant == 'AssertFailed' else '')
        elif variant == 'UnknownObjectField':
            m = re.search(r'field_name: "((?:[^"\\]|\\.)*)"', dbg)
            payload = m.group(1) if m else None
        elif variant == 'CallParamNotBound':
            m = re.search(r'param_name: "((?:[^"\\]|\\.)*)"', dbg)
            payload = m.group(1) if m else None
        return ('err', (variant, payload), tr)
    return ('crash', r[:200], [])


def canon_model(r):
    f = r.split('\t')
    if f[0] == 'OK':
        return ('ok', f[1], parse_traces(f[2]))
    if f[0] == 'ERR':
        variant = f[1]
        payload = None
        if variant in ('ExplicitError', 'UnknownObjectField', 'CallParamNotBound'):
            payload = uncps(f[2]) if f[2] not in ('-',) else ''
        return ('err', (variant, payload), parse_traces(f[3]))
    if f[0] == 'OOF':
        return ('oof', f[1], parse_traces(f[2]))
    if f[0] == 'FUEL':
        return ('fuel', None, parse_traces(f[1]))
    return ('machinery', r[:200], [])


def is_subsequence(a, b):
    it = iter(b)
    return all(any(x == y for y in it) for x in a)


def compare_k(ci, cm):
    """None = agree; otherwise a description.  ci / cm canonical tuples."""
    if ci[0] == 'ok' and cm[0] == 'ok':
        try:
            ji, jm = freeze(json_pairs(ci[1])), freeze(json_pairs(cm[1]))
        except Exception as ex:
            return 'unparsable JSON (%s): impl %r model %r' % (ex, ci[1][:80], cm[1][:80])
        if ji != jm:
            return 'value differs: implementation %s / call-by-name model %s' % (ci[1][:120], cm[1][:120])
    elif ci[0] == 'err' and cm[0] == 'err':
        if ci[1][0] != cm[1][0]:
            return 'error differs: implementation %s / model %s' % (ci[1], cm[1])
        if cm[1][1] is not None and ci[1][1] is not None and ci[1][1] != cm[1][1]:
            return 'error payload differs: implementation %r / model %r' % (ci[1], cm[1])
    else:
        return 'outcome class differs: implementation %s %s / model %s %s' % (ci[0], str(ci[1])[:100], cm[0], str(cm[1])[:100])
    ti, tm = ci[2], cm[2]
    if set(ti) != set(tm):
        return 'trace message sets differ: only implementation %s / only model %s' % (sorted(set(ti) - set(tm))[:5], sorted(set(tm) - set(ti))[:5])
    if not is_subsequence(ti, tm):
        return 'implementation trace is not a subsequence of the call-by-name trace: %s vs %s' % (ti[:12], tm[:12])
    return None


# =====================================================================================
# text-level rewriting of arbitrary Jsonnet programs (via the real parser's spans)

def sexp_parse(text):
    """S-expression reader for the astdump format -> nested lists of atoms"""
    toks = re.findall(r'\(|\)|[^\s()]+', text)
    pos = 0

    def rd():
        nonlocal pos
        t = toks[pos]
        pos += 1
        if t == '(':
            l = []
            while toks[pos] != ')':
                l.append(rd())
            pos += 1
            return l
        return t
    out = rd()
    return out


EXPR_HEADS = {'Null', 'Bool', 'Self', 'Dollar', 'String', 'TextBlock', 'Number', 'Paren', 'Object', 'Array', 'ArrayComp',
              'Field', 'Index', 'Slice', 'SuperField', 'SuperIndex', 'Call', 'Ident', 'Local', 'If', 'Binary', 'Unary',
              'ObjExt', 'Func', 'Assert', 'Import', 'ImportStr', 'ImportBin', 'Error', 'InSuper'}


def span_of(node):
    a, b = node[1].split(':')
    return int(a, 16), int(b, 16)


class Sites:
    """walks the AST dump; collects
       exprs  : (start, end, multi)        every expression node that may be wrapped
       binds  : (start, end, multi, kind)  binding positions (local value, array item, call argument, field value)
       objects: (open_brace_pos, multi)    object literals with members
       funcs  : (body_start, multi)        function literals / function binds / method fields
       multi = the position may legitimately be evaluated more than once (under a function body, a comprehension,
       or - for arbitrary programs - an object member, since objects can be extended)"""

    def __init__(self, fields_once):
        self.exprs, self.binds, self.objects, self.funcs = [], [], [], []
        self.arrays, self.fieldsets, self.eqs = [], [], []   # permutable element slots / field slots / == operands
        self.fields_once = fields_once
        self.has_import = False

    def walk(self, n, multi, wrap_ok=True):
        h = n[0]
        if h not in EXPR_HEADS:
            raise ValueError('unknown AST head ' + str(h))
        a, b = span_of(n)
        if wrap_ok:
            self.exprs.append((a, b, multi))
        if h in ('Null', 'Bool', 'Self', 'Dollar', 'String', 'TextBlock', 'Number', 'Ident', 'SuperField'):
            return
        if h == 'Paren':
            self.walk(n[2], multi)
        elif h == 'Object':
            self.obj_inside(n[2], a, multi)
        elif h == 'Array':
            if len(n) >= 4:
                self.arrays.append([span_of(x) for x in n[2:]])
            for x in n[2:]:
                sa, sb = span_of(x)
                self.binds.append((sa, sb, multi, 'item'))
                self.walk(x, multi)
        elif h == 'ArrayComp':
            self.walk(n[2], True)
            self.specs(n[3], multi)
        elif h == 'Field':
            self.walk(n[2], multi)
        elif h == 'Index':
            self.walk(n[2], multi); self.walk(n[3], multi)
        elif h == 'Slice':
            self.walk(n[2], multi)
            for x in n[3:6]:
                if x != '_':
                    self.walk(x, multi)
        elif h == 'SuperIndex':
            self.walk(n[3], multi)
        elif h == 'Call':
            self.walk(n[2], multi)
            for arg in n[4][1:]:
                x = arg[1] if arg[0] == 'Pos' else arg[2]
                sa, sb = span_of(x)
                self.binds.append((sa, sb, multi, 'arg'))
                self.walk(x, multi)
        elif h == 'Local':
            for bd in n[2][1:]:
                self.bind(bd, multi)
            self.walk(n[3], multi)
        elif h == 'If':
            self.walk(n[2], multi); self.walk(n[3], multi)
            if n[4] != '_':
                self.walk(n[4], multi)
        elif h == 'Binary':
            if n[3] in ('Eq', 'Ne'):
                self.eqs.append((span_of(n[2]), span_of(n[4])))
            self.walk(n[2], multi); self.walk(n[4], multi)
        elif h == 'Unary':
            self.walk(n[3], multi)
        elif h == 'ObjExt':
            self.walk(n[2], multi)
            oa, ob = n[4].split(':')
            self.obj_inside(n[3], int(oa, 16), multi)
        elif h == 'Func':
            self.params(n[2])
            sa, sb = span_of(n[3])
            self.funcs.append((sa, multi))
            self.walk(n[3], True)
        elif h == 'Assert':
            self.assert_(n[2], multi)
            self.walk(n[3], multi)
        elif h in ('Import', 'ImportStr', 'ImportBin'):
            self.has_import = True
        elif h == 'Error':
            self.walk(n[2], multi)
        elif h == 'InSuper':
            self.walk(n[2], multi)

    def params(self, ps):
        for p in ps[1:]:
            if p[2] != '_':
                self.walk(p[2], True)

    def assert_(self, a, multi):
        self.walk(a[2], multi)
        if a[3] != '_':
            self.walk(a[3], multi)

    def bind(self, bd, multi):
        # (Bind (Id ..) params value)
        if bd[2] != '_':
            self.params(bd[2][2])
            sa, sb = span_of(bd[3])
            self.funcs.append((sa, multi))
            self.walk(bd[3], True)
        else:
            sa, sb = span_of(bd[3])
            self.binds.append((sa, sb, multi, 'local'))
            self.walk(bd[3], multi)

    def specs(self, sp, multi):
        first = True
        for s in sp[1:]:
            if s[0] == 'For':
                self.walk(s[2], multi if first else True)
            else:
                self.walk(s[1], True)
            first = False

    def obj_inside(self, o, open_pos, multi):
        inner_multi = multi if self.fields_once else True
        if o[0] == 'Members':
            self.objects.append((open_pos, multi))
            slots = []
            for m in o[1:]:
                if m[0] == 'MField':
                    f = m[1]
                    fn = f[1]
                    ns = fn[1][1] if fn[0] == 'FnIdent' else fn[2]
                    start = int(ns.split(':')[0], 16)
                    end = span_of(f[4] if f[0] == 'FValue' else f[5])[1]
                    slots.append((start, end))
            if len(slots) >= 2:
                self.fieldsets.append(slots)
            for m in o[1:]:
                if m[0] == 'MLocal':
                    self.bind(m[1], inner_multi)
                elif m[0] == 'MAssert':
                    self.assert_(m[1], inner_multi)
                elif m[0] == 'MField':
                    f = m[1]
                    fn = f[1]
                    if fn[0] == 'FnExpr':
                        self.walk(fn[1], multi)
                    if f[0] == 'FValue':
                        sa, sb = span_of(f[4])
                        self.binds.append((sa, sb, inner_multi, 'field'))
                        self.walk(f[4], inner_multi)
                    else:
                        self.params(f[2])
                        sa, sb = span_of(f[5])
                        self.funcs.append((sa, inner_multi))
                        self.walk(f[5], True)
        else:
            # comprehension: (Comp (Locals..) name plus body (Locals..) specs)
            for l in o[1][1:]:
                self.bind(l, True)
            self.walk(o[2], True)
            self.walk(o[4], True)
            for l in o[5][1:]:
                self.bind(l, True)
            self.specs(o[6], multi)


def tail_array(root):
    """element spans of the array literal in tail position of the program (through locals / parentheses / asserts)"""
    n = root
    while True:
        if n[0] == 'Local':
            n = n[3]
        elif n[0] == 'Paren':
            n = n[2]
        elif n[0] == 'Assert':
            n = n[3]
        else:
            break
    if n[0] == 'Array' and len(n) >= 4:
        return [span_of(x) for x in n[2:]]
    return None


def permute_slots(src, slots, perm, paren=False):
    """slot i receives the text of slot perm[i]"""
    texts = [src[a:e] for a, e in slots]
    out = src
    for i in sorted(range(len(slots)), key=lambda i: -slots[i][0]):
        a, e = slots[i]
        t = texts[perm[i]]
        out = out[:a] + (b'(' + t + b')' if paren else t) + out[e:]
    return out


def token_spans(toks_text):
    """[(kind, start, end)] from the token dump"""
    out = []
    for m in re.finditer(r'\((\w+)(?: [^()]*?)? ([0-9a-f]+):([0-9a-f]+)\)', toks_text):
        out.append((m.group(1), int(m.group(2), 16), int(m.group(3), 16)))
    return out


SELFISH = re.compile(rb'self|super|\$')
# dead-param side conditions: the arity of the function is not observed (std.length / std.isEmpty of a function,
# std.makeArray demands exactly one parameter) and it is not called tailstrict (which forces every parameter
# thunk, defaults included: eval/mod.rs State::CallWithExpr)
ARITY_OBSERVERS = ('std.length', 'std.isEmpty', 'std.makeArray', 'tailstrict')
HIDDEN_OBSERVERS = ('All', 'objectHasEx', 'objectFieldsEx', 'inc_hidden', 'std.get(', 'std.mergePatch', 'std.prune')

WRAP_KINDS = ['local-name', 'identity', 'array-proj', 'object-proj', 'dead-local']


def rewrite(src, kind, site, k, dead_body):
    """src: bytes.  Returns the rewritten program bytes."""
    if kind in WRAP_KINDS:
        a, b = site[0], site[1]
        t = src[a:b]
        if kind == 'local-name':
            new = b'(local nm__%d = (%s); nm__%d)' % (k, t, k)
        elif kind == 'identity':
            new = b'((function(id__%d) id__%d)((%s)))' % (k, k, t)
        elif kind == 'array-proj':
            new = b'([(%s)][0])' % t
        elif kind == 'object-proj':
            new = b'({pj__%d: (%s)}.pj__%d)' % (k, t, k)
        else:
            new = b'(local dead__%d = %s; (%s))' % (k, dead_body, t)
        return src[:a] + new + src[b:]
    if kind == 'dead-field':
        p = site[0]
        assert src[p:p + 1] == b'{', src[p:p + 10]
        return src[:p + 1] + b' dead__%d:: %s, ' % (k, dead_body) + src[p + 1:]
    if kind == 'dead-param':
        p, need_comma = site
        assert src[p:p + 1] == b')', src[p:p + 10]
        return src[:p] + (b', ' if need_comma else b' ') + b'dead__%d = %s' % (k, dead_body) + src[p:]
    raise ValueError(kind)


def instrument(src, binds):
    """wrap the given binding positions (start, end) with uniquely numbered traces; inner spans first"""
    ins = []
    for i, (a, b) in enumerate(binds):
        # the marker fires strictly BEFORE the wrapped expression is evaluated (array literal, then the index
        # expression, then the item is forced), so a position that was demanded but failed still counts as demanded
        ins.append((a, 1, i, b'([('))
        ins.append((b, 0, -i, b')][std.trace("once-%d", 0)])' % i))
    # at equal positions: closers (0) before openers (1); among openers outer (longer) first; among closers inner first
    res = bytearray()
    pos = 0
    byp = {}
    for p, isopen, i, txt in ins:
        byp.setdefault(p, []).append((isopen, i, txt))
    for p in sorted(byp):
        res += src[pos:p]
        pos = p
        closers = [x for x in byp[p] if x[0] == 0]
        openers = [x for x in byp[p] if x[0] == 1]
        # closers: inner first = the one that opened last = larger start; we stored -i, recover spans
        closers.sort(key=lambda x: -binds[-x[1]][0])
        openers.sort(key=lambda x: -binds[x[1]][1])
        for x in closers:
            res += x[2]
        for x in openers:
            res += x[2]
    res += src[pos:]
    return bytes(res)


class Base:
    """one base program for the metamorphic search"""

    def __init__(self, label, src, fields_once, exhaustive=False):
        self.label = label
        self.src = src
        self.fields_once = fields_once
        self.exhaustive = exhaustive      # every expression site x every wrapping rewrite (small programs)
        self.expect = None                # generator-known trace multiset of a successful run (list) or None
        self.sites = None
        self.toks = None


def analyse_bases(bases, impl_exe):
    cases = [('p%d' % i, 'front', ['parse', hxl(list(b.src))]) for i, b in enumerate(bases)]
    res = vlib.run_sharded(impl_exe, [vlib.impl_line(c) for c in cases], timeout=120)
    good = []
    for i, b in enumerate(bases):
        r = res.get('p%d' % i, 'NOOUTPUT')
        f = r.split('\t')
        if f[0] != 'OK':
            continue
        try:
            s = Sites(b.fields_once)
            s.walk(sexp_parse(f[2]), False)
        except RecursionError:
            continue      # many_brackets / many_parenthesis: nesting deeper than this reader follows
        except Exception as ex:
            raise RuntimeError('AST dump of %s not understood: %r' % (b.label, ex))
        if s.has_import:
            continue
        b.sites = s
        b.toks = token_spans(f[1])
        try:
            b.tail = tail_array(sexp_parse(f[2]))
        except Exception:
            b.tail = None
        good.append(b)
    return good


def param_close(b, body_start):
    """position of the ')' closing the parameter list that precedes a function body starting at body_start;
    returns (pos, need_comma) or None"""
    toks = b.toks
    # last non-trivia token ending at or before body_start, skipping '=' / ':' / '::' / ':::' of binds and methods
    idx = None
    for i, (k, a, e) in enumerate(toks):
        if e <= body_start:
            idx = i
        else:
            break
    while idx is not None and idx >= 0:
        k, a, e = toks[idx]
        txt = b.src[a:e]
        if txt == b')':
            prev = b.src[toks[idx - 1][1]:toks[idx - 1][2]] if idx > 0 else b''
            return a, (prev not in (b'(', b','))
        if txt in (b'=', b':', b'::', b':::'):
            idx -= 1
            continue
        return None
    return None


def plan_variants(b, rng, per_prog):
    """list of (kind, site-description, rewritten source)"""
    s = b.sites
    src = b.src
    out = []
    k = 0
    deads = [b'error "dead"', b'std.trace("dead-fired", null)', b'(1 + null)', b'[][0]']
    exprs = list(s.exprs)
    rng.shuffle(exprs)
    kinds_cycle = list(WRAP_KINDS)
    if b.exhaustive:
        for (a, e, multi) in exprs[:12]:
            for kind in WRAP_KINDS:
                if kind == 'object-proj' and SELFISH.search(src[a:e]):
                    continue
                k += 1
                out.append((kind, '%x:%x' % (a, e), rewrite(src, kind, (a, e), k, rng.choice(deads))))
        exprs = []
    for (a, e, multi) in exprs[:per_prog]:
        kind = rng.choice(kinds_cycle)
        if kind == 'object-proj' and SELFISH.search(src[a:e]):
            kind = rng.choice(['local-name', 'identity', 'array-proj'])
        k += 1
        out.append((kind, '%x:%x' % (a, e), rewrite(src, kind, (a, e), k, rng.choice(deads))))
    # permutations: same value (up to the permutation), same trace multiset
    def rperm(n):
        p = list(range(n))
        while p == list(range(n)):
            rng.shuffle(p)
        return p
    if getattr(b, 'tail', None):
        for _ in range(2 if len(b.tail) > 2 else 1):
            p = rperm(len(b.tail))
            out.append(('permute-tail-array', ','.join(str(x) for x in p), permute_slots(src, b.tail, p)))
    fss = list(s.fieldsets)
    rng.shuffle(fss)
    for slots in fss[:max(1, per_prog // 3)]:
        p = rperm(len(slots))
        out.append(('permute-fields', '%x' % slots[0][0], permute_slots(src, slots, p)))
    eqs = list(s.eqs)
    rng.shuffle(eqs)
    for (l, r) in eqs[:max(1, per_prog // 3)]:
        out.append(('swap-eq', '%x' % l[0], permute_slots(src, [l, r], [1, 0], paren=True)))
    txt = src.decode('utf-8', 'replace')
    if not any(h in txt for h in HIDDEN_OBSERVERS):
        objs = list(s.objects)
        rng.shuffle(objs)
        for (p, multi) in objs[:max(1, per_prog // 4)]:
            k += 1
            out.append(('dead-field', '%x' % p, rewrite(src, 'dead-field', (p,), k, rng.choice(deads))))
    if not any(h in txt for h in ARITY_OBSERVERS):
        fs = list(s.funcs)
        rng.shuffle(fs)
        for (bs, multi) in fs[:max(1, per_prog // 4)]:
            pc = param_close(b, bs)
            if pc is None:
                continue
            k += 1
            out.append(('dead-param', '%x' % pc[0], rewrite(src, 'dead-param', pc, k, rng.choice(deads))))
    return out


def same_outcome(c0, c1, ordered=True):
    """implementation vs implementation: identical value / error message / trace output"""
    if c0[0] != c1[0]:
        return 'outcome class %s -> %s (%s -> %s)' % (c0[0], c1[0], str(c0[1])[:80], str(c1[1])[:80])
    if c0[1] != c1[1]:
        return 'result %s -> %s' % (str(c0[1])[:100], str(c1[1])[:100])
    if sorted(c0[2]) != sorted(c1[2]):
        return 'trace multiset %s -> %s' % (c0[2][:10], c1[2][:10])
    if ordered and c0[2] != c1[2]:
        return 'trace order %s -> %s' % (c0[2][:10], c1[2][:10])
    return None


UNSTABLE = ('StackOverflow',)


def perm_why(kind, where, c0, c1):
    """base (successful) vs permuted program: same value up to the permutation, same trace multiset"""
    if c1[0] != 'ok':
        return 'outcome class ok -> %s (%s)' % (c1[0], str(c1[1])[:80])
    if sorted(c0[2]) != sorted(c1[2]):
        return 'trace multiset %s -> %s' % (c0[2][:10], c1[2][:10])
    if kind == 'permute-tail-array':
        try:
            j0, j1 = freeze(json_pairs(c0[1])), freeze(json_pairs(c1[1]))
            p = [int(x) for x in where.split(',')]
            if not (j0[0] == 'A' and j1[0] == 'A' and len(j0[1]) == len(p) == len(j1[1]) and all(j1[1][i] == j0[1][p[i]] for i in range(len(p)))):
                return 'value is not the permuted value: %s -> %s' % (c0[1][:80], c1[1][:80])
        except ValueError:
            if sorted(c0[1]) != sorted(c1[1]):
                return 'value %s -> %s' % (c0[1][:80], c1[1][:80])
    elif c0[1] != c1[1]:
        return 'value %s -> %s' % (c0[1][:100], c1[1][:100])
    return None


def metamorphic(run, bases, impl_exe, rng, per_prog, label):
    bases = analyse_bases(bases, impl_exe)
    cases = []
    meta = {}
    phase2 = []
    for bi, b in enumerate(bases):
        cid = 'b%d' % bi
        cases.append((cid, 'eval', ['stack=%x' % STACK, hxl(list(b.src))]))
        meta[cid] = (b, 'base', '', b.src)
        for vi, (kind, where, new) in enumerate(plan_variants(b, rng, per_prog)):
            vid = 'b%d.%d' % (bi, vi)
            cases.append((vid, 'eval', ['stack=%x' % STACK, hxl(list(new))]))
            meta[vid] = (b, kind, where, new)
        # once-instrumentation: every binding position gets a numbered trace; the ones outside function
        # bodies / comprehensions / (for arbitrary programs) object members must fire at most once
        allb = [(a, e) for (a, e, multi, kd) in b.sites.binds]
        if allb:
            oid = 'b%d.once' % bi
            inst = instrument(b.src, allb)
            cases.append((oid, 'eval', ['stack=%x' % STACK, hxl(list(inst))]))
            meta[oid] = (b, 'once', str(sum(1 for x in b.sites.binds if not x[2])), inst)
    res = vlib.run_sharded(impl_exe, [vlib.impl_line(c) for c in cases], timeout=300)
    for cid, (b, kind, where, new) in meta.items():
        if kind == 'base':
            if b.expect is not None:
                run.evaluations += 1
                c0 = canon_impl(res.get(cid, 'NOOUTPUT'))
                if c0[0] == 'ok' and sorted(c0[2]) != sorted(b.expect):
                    run.violation('whole-value-trace-output', 'the program returns its whole structure, so every traced leaf must be evaluated exactly once '
                                  'during the run: expected trace multiset %s, got %s — %s' % (sorted(b.expect)[:12], sorted(c0[2])[:12], b.src.decode('utf-8', 'replace')[:300]),
                                  {'kind': 'expect', 'label': b.label, 'base_hex': hxl(list(b.src)), 'expect': sorted(b.expect)})
                elif c0[0] == 'ok':
                    run.count(label + ':whole-value-traces-complete')
                    run.nontrivial.add((b.label, 'expect'))
                else:
                    run.count(label + ':expect-base-' + c0[0])
            continue
        run.evaluations += 1
        base_id = cid.split('.')[0]
        c0 = canon_impl(res.get(base_id, 'NOOUTPUT'))
        c1 = canon_impl(res.get(cid, 'NOOUTPUT'))
        replay = {'kind': 'meta', 'label': b.label, 'rewrite': kind, 'where': where,
                  'base_hex': hxl(list(b.src)), 'new_hex': hxl(list(new)), 'fields_once': b.fields_once}
        if c0[0] in ('crash', 'loaderr') :
            run.count(label + ':base-' + c0[0])
            continue
        if c1[0] == 'loaderr':
            # the rewriter produced a program the front end rejects: a defect of the rewriter, never a pass
            run.violation('rewriter-invalid:' + kind, 'rewrite %s at %s of %s produced a rejected program (%s)' % (kind, where, b.label, c1[1]),
                          replay, concrete=False)
            continue
        if (c0[0] == 'err' and c0[1][0] in UNSTABLE) or (c1[0] == 'err' and c1[1][0] in UNSTABLE):
            run.count(label + ':skipped-stack-overflow')
            continue
        if kind == 'once':
            tr = [m for m in c1[2] if m.startswith('once-')]
            rest = [m for m in c1[2] if not m.startswith('once-')]
            why = same_outcome(c0, (c1[0], c1[1], rest))
            if why:
                run.violation('once-instrumentation-changes-result', 'tracing binding positions of %s changes the outcome: %s' % (b.label, why), replay)
                continue
            oncable = set('once-%d' % i for i, x in enumerate(b.sites.binds) if not x[2])
            replay['oncable'] = sorted(oncable)
            cnt = Counter(tr)
            multi = sorted(m for m, k in cnt.items() if m in oncable and k > 1)
            if multi:
                run.violation('evaluated-more-than-once', 'binding position(s) %s of %s evaluated more than once (%s)' % (multi[:4], b.label, [cnt[m] for m in multi[:4]]), replay)
                continue
            run.count(label + ':once-sites', int(where))
            run.count(label + ':once-sites-fired', len(set(tr) & oncable))
            if tr:
                run.nontrivial.add(('once', b.label, len(tr)))
            # positions that were never demanded: replacing them by a failing expression must not matter
            fired = set(tr)
            und = [(x[0], x[1]) for i, x in enumerate(b.sites.binds) if ('once-%d' % i) not in fired]
            und.sort(key=lambda x: (x[0], -x[1]))
            outer = []
            for (a, e) in und:
                if outer and a >= outer[-1][0] and e <= outer[-1][1]:
                    continue
                outer.append((a, e))
            if outer:
                phase2.append((b, c0, outer))
            continue
        if kind in ('permute-tail-array', 'permute-fields', 'swap-eq'):
            if c0[0] != 'ok':
                run.count(label + ':skipped-permutation-of-failing-base')
                continue
            why = perm_why(kind, where, c0, c1)
            if why:
                run.violation('permutation-changes-outcome:' + kind, 'rewrite %s (%s) of %s changes the outcome: %s' % (kind, where, b.label, why), replay)
            else:
                run.count(label + ':' + kind)
                run.nontrivial.add((b.label, kind, where))
            continue
        if kind == 'dead-param' and c0[0] == 'err' and c0[1][0] == 'TooManyCallArgs':
            run.count(label + ':skipped-arity-error')
            continue
        why = same_outcome(c0, c1)
        if why:
            run.violation('rewrite-changes-outcome:' + kind, 'rewrite %s at %s of %s changes the outcome: %s' % (kind, where, b.label, why), replay)
        else:
            run.count(label + ':' + kind)
            run.nontrivial.add((b.label, kind, where))
    # ---- phase 2: never-demanded binding positions replaced by failing expressions
    cases2 = []
    meta2 = {}
    for i, (b, c0, outer) in enumerate(phase2):
        rng.shuffle(outer)
        variants = [outer] if len(outer) <= 1 else [outer, outer[:max(1, len(outer) // 2)]]
        for vi, spans in enumerate(variants):
            new = b.src
            for (a, e) in sorted(spans, key=lambda x: -x[0]):
                new = new[:a] + b'(error "undemanded")' + new[e:]
            cid = 'u%d.%d' % (i, vi)
            cases2.append((cid, 'eval', ['stack=%x' % STACK, hxl(list(new))]))
            meta2[cid] = (b, c0, spans, new)
    res2 = vlib.run_sharded(impl_exe, [vlib.impl_line(c) for c in cases2], timeout=300)
    for cid, (b, c0, spans, new) in meta2.items():
        run.evaluations += 1
        c1 = canon_impl(res2.get(cid, 'NOOUTPUT'))
        replay = {'kind': 'meta', 'label': b.label, 'rewrite': 'undemanded-to-error', 'where': ','.join('%x:%x' % x for x in spans[:20]),
                  'base_hex': hxl(list(b.src)), 'new_hex': hxl(list(new)), 'fields_once': b.fields_once}
        if c1[0] == 'loaderr':
            run.violation('rewriter-invalid:undemanded-to-error', 'replacing undemanded positions of %s produced a rejected program (%s)' % (b.label, c1[1]), replay, concrete=False)
            continue
        if (c1[0] == 'err' and c1[1][0] in UNSTABLE):
            continue
        why = same_outcome(c0, c1)
        if why:
            run.violation('undemanded-part-matters', 'replacing %d never-demanded binding position(s) of %s by failing expressions changes the outcome: %s' % (len(spans), b.label, why), replay)
        else:
            run.count(label + ':undemanded-to-error')
            run.count(label + ':undemanded-positions', len(spans))
            run.nontrivial.add((b.label, 'undemanded', len(spans)))
    return len(bases)


# =====================================================================================
# a richer generator for the implementation-only search (beyond the LazyCore fragment)

RICH_TEMPLATES = [
    'std.map(function(x) %(E)s + x, [1, 2, 3])',
    'std.foldl(function(acc, x) acc + [x, %(E)s], [1, 2], [])',
    'std.foldr(function(x, acc) acc + x, [%(E)s, 2], 0)',
    'std.sort([3, 1, 2], keyF=function(x) %(E)s - x)',
    'std.filter(function(x) x > %(E)s, [1, 5, 9])',
    'std.makeArray(3, function(i) i + %(E)s)',
    'std.mapWithKey(function(k, v) v + %(E)s, {a: 1, b: 2})',
    '[x + %(E)s for x in [1, 2, 3] if x != %(E2)s]',
    '{[k]: %(E)s for k in ["p", "q"]}',
    '{a: %(E)s, b: self.a + 1} + {a+: 1, c: super.a}',
    '{a: %(E)s, b: $.a, c: {d: $.b}}',
    'local o = {x: %(E)s, y:: self.x + 1}; o {x: 10, z: super.y} ',
    '{local t = %(E)s, a: t, b: t + t}',
    'local f(a, b=a + %(E)s) = a + b; [f(1), f(1, 2), f(b=3, a=%(E2)s)]',
    'assert %(E)s >= %(E)s : "never"; %(E2)s',
    '{assert self.a == %(E)s, a: %(E)s}',
    'std.length([%(E)s, error "lazy item"]) + %(E2)s',
    'std.objectHas({a: error "lazy field"}, "a") && %(E)s > -100',
    'local arr = [%(E)s, %(E2)s, error "unused"]; arr[0] + arr[1]',
    'std.join(",", std.map(function(x) std.toString(x + %(E)s), [1, 2]))',
    'if %(E)s > 2 then std.trace("then", %(E2)s) else std.trace("else", %(E2)s)',
    'local a = std.trace("a-forced", %(E)s); a + a + a',
    '(function(x, y) x)(%(E)s, error "dead argument")',
    'std.foldl(function(a, b) a + b, std.map(function(i) std.trace("m" + i, i + %(E)s), [1, 2, 3]), 0)',
    'local xs = std.map(function(i) std.trace("cell" + i, i * %(E)s), [1, 2, 3]); [xs[0], xs[0], xs[2]]',
    'std.sort(std.map(function(i) std.trace("k" + i, %(E)s - i), [1, 2, 3]))',
    '%(E)s + (%(E2)s) * 2 - std.abs(-3)',
    '"%%d-%%s" %% [%(E)s, "q"]',
    '[%(E)s, %(E2)s][1:]',
    'local rec(n) = if n <= 0 then %(E)s else rec(n - 1) + 1; rec(5) tailstrict',
    'std.prune({a: null, b: [%(E)s, null]})',
    'std.setUnion([%(E)s], [%(E2)s])',
    'std.all([%(E)s == %(E)s, true])',
]


def rich_expr(rng, d):
    r = rng.random()
    if d <= 0 or r < 0.35:
        return rng.choice(['1', '2', '3', '(1 + 1)', '10', 'std.length("ab")', '(local q = 4; q)', '[7, 8][1]', '{n: 5}.n'])
    t = rng.choice(['(%s + %s)', '(local u = %s; u + %s)', '(if %s > 1 then %s else 0)', '[%s, %s][0]', 'std.max(%s, %s)',
                    '{a: %s, b: %s}.a', '(function(p, q) p + q)(%s, %s)', 'std.trace("t", %s) + %s'])
    return t % (rich_expr(rng, d - 1), rich_expr(rng, d - 1))


def gen_rich(rng):
    t = rng.choice(RICH_TEMPLATES)
    body = t % {'E': rich_expr(rng, rng.randint(0, 2)), 'E2': rich_expr(rng, rng.randint(0, 2))}
    r = rng.random()
    if r < 0.3:
        return body
    if r < 0.6:
        t2 = rng.choice(RICH_TEMPLATES) % {'E': rich_expr(rng, 1), 'E2': rich_expr(rng, 1)}
        return '[%s, %s]' % (body, t2)
    if r < 0.8:
        return 'local top = %s; {r: top, again: top}' % body
    return '{out: %s}' % body


# ---------------------------------------------------------------- nested structures read in part, then returned whole
# A nested structure (literal objects/arrays, object and array comprehensions, std.mapWithKey / std.map
# results) with a uniquely named std.trace at every leaf is bound once, read IN PART (a constant field, a
# traced leaf, std.length, std.objectHas, `in`, std.objectFields, an element) and also returned WHOLE, in a
# random order.  Whatever the order, the run must evaluate every leaf exactly once, so the generator knows the
# trace multiset of a successful run.

def gen_nested(rng):
    cnt = [0]
    expect = []

    def fresh(pfx):
        cnt[0] += 1
        return '%s%d' % (pfx, cnt[0])

    def leaf():
        m = fresh('n-')
        expect.append(m)
        return ('std.trace("%s", %s)' % (m, rng.choice(['"localhost"', '5432', 'true', 'null', '[1, 2]', '{z: 1}'])), ('leaf',))

    def struct(d):
        r = rng.random()
        if d <= 0 or r < 0.15:
            if rng.random() < 0.7:
                return leaf()
            return (rng.choice(['5432', '"const"', 'null']), ('const',))
        if r < 0.45:
            fs = {}
            parts = []
            for f in rng.sample(['host', 'port', 'db', 'opts', 'k'], rng.randint(1, 3)):
                t, sh = struct(d - 1)
                fs[f] = sh
                parts.append('%s%s %s' % (f, rng.choice([':', ':', ':', '::']) if False else ':', t))
            return ('{ ' + ', '.join(parts) + ' }', ('obj', fs))
        if r < 0.6:
            items = [struct(d - 1) for _ in range(rng.randint(1, 3))]
            return ('[' + ', '.join(t for t, _ in items) + ']', ('arr', [sh for _, sh in items]))
        if r < 0.72:
            pfx = fresh('oc') + '-'
            keys = rng.sample(['p', 'q', 'r'], rng.randint(1, 3))
            for k in keys:
                expect.append(pfx + k)
            inner = ('obj', {'v': ('leaf',), 'w': ('const',)})
            return ('{ [k]: { v: std.trace("%s" + k, k), w: 1 } for k in %s }' % (pfx, json.dumps(keys)), ('obj', {k: inner for k in keys}))
        if r < 0.84:
            pfx = fresh('mw') + '-'
            keys = rng.sample(['a', 'b', 'c'], rng.randint(1, 3))
            for k in keys:
                expect.append(pfx + k)
            inner = ('obj', {'w': ('leaf',), 'c': ('const',)})
            src = '{ ' + ', '.join('%s: %d' % (k, i) for i, k in enumerate(keys)) + ' }'
            return ('std.mapWithKey(function(k, v) { w: std.trace("%s" + k, v), c: 0 }, %s)' % (pfx, src), ('obj', {k: inner for k in keys}))
        pfx = fresh('ac') + '-'
        n = rng.randint(1, 3)
        for i in range(1, n + 1):
            expect.append('%s%d' % (pfx, i))
        inner = ('obj', {'i': ('leaf',), 'c': ('const',)})
        lst = '[' + ', '.join(str(i) for i in range(1, n + 1)) + ']'
        if rng.random() < 0.5:
            return ('[{ i: std.trace("%s" + x, x), c: 0 } for x in %s]' % (pfx, lst), ('arr', [inner] * n))
        return ('std.map(function(x) { i: std.trace("%s" + x, x), c: 0 }, %s)' % (pfx, lst), ('arr', [inner] * n))

    def read(x, sh):
        k = sh[0]
        if k == 'obj' and sh[1]:
            f = rng.choice(sorted(sh[1].keys()))
            r = rng.random()
            if r < 0.5:
                return read('%s.%s' % (x, f), sh[1][f])
            return rng.choice(['std.length(%s)' % x, 'std.objectHas(%s, "%s")' % (x, f), '"%s" in %s' % (f, x),
                               'std.objectFields(%s)' % x, 'std.objectHas(%s, "nosuch")' % x])
        if k == 'arr' and sh[1]:
            i = rng.randrange(len(sh[1]))
            if rng.random() < 0.6:
                return read('%s[%d]' % (x, i), sh[1][i])
            return 'std.length(%s)' % x
        if k == 'leaf':
            return x if rng.random() < 0.5 else 'std.type(%s)' % x
        return x

    t, sh = struct(rng.choice([2, 2, 3]))
    while sh[0] not in ('obj', 'arr'):
        cnt[0] = 0; del expect[:]
        t, sh = struct(rng.choice([2, 2, 3]))
    items = [read('s', sh) for _ in range(rng.choice([1, 1, 2, 3]))] + ['s']
    rng.shuffle(items)
    if rng.random() < 0.75:
        body = '[' + ', '.join(items) + ']'
    else:
        names = rng.sample(['a', 'b', 'c', 'd', 'e'], len(items))
        body = '{ ' + ', '.join('%s: %s' % (n, it) for n, it in zip(names, items)) + ' }'
    return 'local s = %s; %s' % (t, body), list(expect)


# ---------------------------------------------------------------- leaves
# "e fails  =>  every wrapping of e fails the same way; e is a constant => every wrapping yields it":
# small programs that consist of, or hold in a strict position, a LEAF expression of every kind that can
# fail or that the evaluator may special-case when it sits in a delayed position (constant folding of
# literals into finished thunks): overflowing / boundary / huge number literals, strings and text blocks,
# error, division by zero, null / booleans, empty array / object, references to std members.
# These bases are rewritten exhaustively (every expression site x every wrapping rewrite).

LEAVES = ['1e400', '1e309', '-1e400', '1.7976931348623157e308', '1.7976931348623159e308', '5e-324', '1e-400', '2e308',
          '0.1', '1e308', '9007199254740993', '123456789012345678901234567890', '1' + '0' * 320, '0', '-0', '1.5', '00' if False else '7',
          '""', '"a"', "'q\\u0000\\n'", '@"v\\"', '|||\n  text\n   block\n|||', 'error "leaf"', 'error 1e400', '1/0', '1e308 * 10', '1e308 + 1e308',
          'null', 'true', 'false', '[]', '{}', '[1e400]', '{f: 1e400}', 'std.length', 'std.thisFile', 'std', 'std.pi', 'std.nosuch',
          'function(x) x', '[][0]', '{}.f', '"a"[5]', '1 + null', 'if 1 then 2']

LEAF_CONTEXTS = ['%s', '%s', '%s', '%s + 1', '1 + %s', '%s > 1', '%s == %s', '[%s]', '{a: %s}', 'std.type(%s)', 'std.toString(%s)',
                 '-%s', '!%s', 'if %s == 0 then 1 else 2', 'std.length([%s])', 'local a = %s; 1', 'local a = %s; a', '[%s, 2][1]',
                 '{a: %s, b: 1}.b', '(function(p) 1)(%s)', '(function(p) p)(%s)', '%s + "s"', '"s" + %s', 'std.isNumber(%s)',
                 '[%s][0] > 1', '{f: %s}.f > 1', 'local v = %s; v > 1', 'std.map(function(x) x, [%s])', 'std.trace("t", %s)',
                 'assert %s != 1 : "a"; 3', '{a: %s, assert self.a != 1}', '[x for x in [%s]]', 'std.objectHas({a: %s}, "a")']


def gen_leaf(rng, i):
    leaf = LEAVES[i % len(LEAVES)]
    ctx = rng.choice(LEAF_CONTEXTS)
    l2 = '(%s)' % leaf if (leaf.startswith('-') or ' ' in leaf or leaf.startswith('function') or leaf.startswith('if')) and ctx != '%s' else leaf
    if leaf.startswith('|||') and ctx != '%s':
        l2 = '(%s\n)' % leaf
    return ctx.replace('%s', l2) if ctx.count('%s') > 1 else ctx % l2


# ---------------------------------------------------------------- object locals / asserts / layers
# Programs that create ONE instance of an object built from 1-3 literal layers (each with object
# locals, asserts and fields that share those locals, upper layers using super / +: / overriding) and
# then read that single instance through several access paths in a random order.  Because there is one
# instance, every binding position inside the layers (object locals, field values, call arguments in
# asserts) may be evaluated at most once — these bases run with fields_once = True.

def objloc_num(rng, names, d=1):
    """a small numeric expression over the given names"""
    r = rng.random()
    if d <= 0 or r < 0.3 or not names:
        if names and rng.random() < 0.7:
            return rng.choice(names)
        return str(rng.choice([0, 1, 2, 3, 7, 20]))
    t = rng.choice(['(%s + %s)', '(%s * %s)', 'std.max(%s, %s)', '[%s, %s][0]', '(if %s >= %s then 1 else 2)',
                    '(local t = %s; t + %s)', 'std.trace("inner", %s) + %s'])
    return t % (objloc_num(rng, names, d - 1), objloc_num(rng, names, d - 1))


def gen_objloc(rng):
    nlayers = rng.choice([1, 1, 2, 2, 3])
    layers = []
    all_fields = []          # (name, kind) kind in lit / comp
    lower_fields = []        # numeric fields of lower layers (for super)
    for li in range(1, nlayers + 1):
        members = []
        locs = []
        nloc = rng.choice([1, 1, 2, 3])
        for j in range(nloc):
            x = 'x%d%s' % (li, 'abc'[j])
            avail = list(locs)
            if rng.random() < 0.25 and all_fields:
                nums = [f for f, k in all_fields if k != 'str']
                if nums:
                    avail.append('self.' + rng.choice(nums))
            if li > 1 and lower_fields and rng.random() < 0.25:
                avail.append('super.' + rng.choice(lower_fields))
            members.append('local %s = %s' % (x, objloc_num(rng, avail, rng.choice([0, 1, 1, 2]))))
            locs.append(x)
        if rng.random() < 0.3:
            members.append('local fn%d(z) = z + %s' % (li, rng.choice(locs)))
            fn = 'fn%d' % li
        else:
            fn = None
        # asserts: mostly true, over locals (often the same local several times) and fields
        for _ in range(rng.choice([0, 1, 1, 2, 3])):
            a, b = rng.choice(locs), rng.choice(locs)
            cond = rng.choice(['%s > -1000' % a, '%s + %s != 123457' % (a, b), 'std.isNumber(%s)' % a,
                               '%s == %s' % (a, a), 'std.length([%s, %s]) == 2' % (a, b),
                               '%s >= 0 || %s < 0' % (a, b)])
            if rng.random() < 0.04:
                cond = '%s < -1000' % a
            msg = rng.choice(['', ' : "assert-%d"' % li, ' : "v=" + %s' % b])
            members.append('assert %s%s' % (cond, msg))
        mine = []
        overridden = []
        nf = rng.choice([2, 3, 4])
        for j in range(nf):
            r = rng.random()
            vis = rng.choice([':', ':', ':', '::'])
            if r < 0.3:
                f = 'k%d%d' % (li, j)
                members.append('%s%s %s' % (f, vis, rng.choice(['0', '5', 'null', 'true', '"lit"', '[]'])))
                mine.append((f, 'str'))
            elif r < 0.85 or li == 1 or not lower_fields:
                f = 'a%d%d' % (li, j)
                names = list(locs) + ['self.' + g for g, k in mine if k == 'num']
                body = objloc_num(rng, names, rng.choice([0, 1, 1]))
                if rng.random() < 0.5:
                    body = '%s * 2 + %s' % (rng.choice(locs), body)
                if fn and rng.random() < 0.4:
                    body = '%s(%s)' % (fn, body)
                members.append('%s%s %s' % (f, vis, body))
                mine.append((f, 'num'))
            else:
                cand = [g for g in lower_fields if g not in [m for m, _ in mine] and g not in overridden]
                if not cand:
                    continue
                g = rng.choice(cand)
                overridden.append(g)
                how = rng.random()
                if how < 0.4:
                    members.append('%s+%s %s' % (g, vis, rng.choice(locs)))          # g+: x
                elif how < 0.7:
                    members.append('%s%s super.%s + %s' % (g, vis, g, rng.choice(locs)))
                else:
                    f = 'd%d%d' % (li, j)
                    members.append('%s%s super.%s + %s' % (f, vis, g, rng.choice(locs)))
                    mine.append((f, 'num'))
        if rng.random() < 0.2:
            members.append('inner%d: { local y = %s, assert y == y, v: y, w: y + 1 }' % (li, rng.choice(locs)))
            mine.append(('inner%d' % li, 'str'))
        rng.shuffle(members)
        layers.append('{ ' + ', '.join(members) + ' }')
        for f, k in mine:
            if f not in [g for g, _ in all_fields]:
                all_fields.append((f, k))
        lower_fields += [f for f, k in mine if k == 'num' and f not in lower_fields]
    if nlayers >= 2 and rng.random() < 0.3:
        obj = layers[0] + ' ' + layers[1] + ''.join(' + ' + l for l in layers[2:])     # e { ... } form
    else:
        obj = ' + '.join(layers)
    names = [f for f, _ in all_fields]
    acc = []
    for _ in range(rng.choice([2, 3, 3, 4, 5])):
        f = rng.choice(names)
        acc.append(rng.choice(['o.%s' % f, 'o.%s' % f, 'o.%s' % f, 'o["%s"]' % f, 'std.objectHas(o, "%s")' % f, '"%s" in o' % f,
                               'std.length(o)', 'o', 'std.objectFields(o)', 'o == o', 'std.objectHasAll(o, "%s")' % f,
                               'std.get(o, "%s")' % f, 'std.toString(o)', 'std.objectValues(o)']))
    return 'local o = %s; [%s]' % (obj, ', '.join(acc))


# =====================================================================================

def load_corpus():
    out = []
    for path in sorted(glob.glob(os.path.join(vlib.VERIF, 'corpus', 'c04_*.txt'))):
        if os.path.basename(path) == 'c04_lazyfacts.txt':
            continue      # laziness facts of the standard library: check_lazyfacts
        for ln, l in enumerate(open(path, encoding='utf-8')):
            l = l.rstrip('\n')
            if l and not l.startswith('#'):
                out.append(('%s:%d' % (os.path.basename(path), ln + 1), l))
    return out


def ui_pass_programs():
    out = []
    root = os.path.join(vlib.REPO, 'ui-tests', 'pass')
    for path in sorted(glob.glob(os.path.join(root, '**', '*.jsonnet'), recursive=True)):
        try:
            src = open(path, 'rb').read()
        except Exception:
            continue
        if len(src) > 60000:
            continue
        out.append((os.path.relpath(path, root), src))
    return out


# a tiny reader for corpus lines in LazyCore surface syntax is not needed: corpus lines are Jsonnet text
# programs (used by the metamorphic search) or, prefixed with "K ", python literals of LazyCore tuples.

def check_lazyfacts(run, impl_exe, only=None):
    """corpus/c04_lazyfacts.txt (generated by hand from the unchanged tree by tools/gen_c04_lazyfacts.py): a call of a
    standard-library function with ONE part replaced by `error "never"`, under a shallow observer, that succeeded.
    It must still succeed with the same value: the part is not evaluated and the result does not depend on it."""
    path = os.path.join(vlib.VERIF, 'corpus', 'c04_lazyfacts.txt')
    facts = []
    if os.path.exists(path):
        for l in open(path, encoding='utf-8'):
            l = l.rstrip('\n')
            if l and not l.startswith('#'):
                f = l.split('\t')
                if len(f) == 3 and (only is None or f[1] == only):
                    facts.append(f)
    cases = [eval_case('f%d' % i, f[1], stack=0x190) for i, f in enumerate(facts)]
    res = vlib.run_sharded(impl_exe, [vlib.impl_line(c) for c in cases], timeout=120)
    for i, (fn, prog, val) in enumerate(facts):
        run.evaluations += 1
        c = canon_impl(res.get('f%d' % i, 'NOOUTPUT'))
        why = None
        if c[0] != 'ok':
            why = 'now ends with %s %s' % (c[0], str(c[1])[:80])
        else:
            try:
                same = freeze(json_pairs(c[1])) == freeze(json_pairs(val))
            except ValueError:
                same = c[1] == val
            if not same:
                why = 'value %s, was %s' % (c[1][:80], val[:80])
        if why:
            run.violation('unused-part-now-evaluated:' + fn,
                          'std.%s: a part that the result did not depend on (and that was not evaluated) matters now: %s %s (fact from corpus/c04_lazyfacts.txt: %s)'
                          % (fn, prog, why, val[:80]), {'kind': 'lazyfact', 'function': fn, 'program': prog, 'value': val})
        else:
            run.count('F:lazyfact-holds')
            run.nontrivial.add(('lazyfact', prog))
    run.count('F:lazyfact-functions', len(set(f[0] for f in facts)))
    return len(facts)


def run_k(run, progs, impl_exe, model_exe, label):
    """progs: list of (key, ast, text, sites_outside)"""
    cases_i, cases_m = [], []
    for i, (key, e, text, outside) in enumerate(progs):
        cid = 'k%d' % i
        cases_i.append(eval_case(cid, text))
        cases_m.append((cid, 'lazycore', ['%x' % FE, '%x' % FM, wire_of(e)]))
    ri = vlib.run_sharded(impl_exe, [vlib.impl_line(c) for c in cases_i], timeout=300)
    rm = vlib.run_sharded(model_exe, [vlib.model_line(c) for c in cases_m], timeout=90)
    for i, (key, e, text, outside) in enumerate(progs):
        cid = 'k%d' % i
        run.evaluations += 1
        a, b = ri.get(cid, 'NOOUTPUT'), rm.get(cid, 'NOOUTPUT')
        ci, cm = canon_impl(a), canon_model(b)
        replay = {'kind': 'k', 'key': key, 'source': text, 'wire': wire_of(e), 'impl': a[:2000], 'model': b[:2000],
                  'outside': sorted(outside)}
        if cm[0] == 'machinery' or b.startswith(('MODELEXC', 'CRASH', 'TIMEOUT', 'NOOUTPUT')):
            run.count(label + ':model-undecided-' + b.split('\t')[0].lower())
            if b.startswith('MODELEXC') and 'stack_overflow' not in b:
                run.violation('model-machinery', 'model driver failed on %s: %s' % (text[:200], b[:200]), replay, concrete=False)
            continue
        if ci[0] in ('crash', 'loaderr'):
            run.violation('k-impl-' + ci[0], 'generated LazyCore program is not accepted/evaluated by the implementation: %s on %s' % (ci[1], text[:300]),
                          replay, concrete=(ci[0] == 'crash'))
            continue
        if cm[0] == 'oof':
            run.count(label + ':outside-fragment')
            continue
        if cm[0] == 'fuel':
            if ci[0] == 'err' and ci[1][0] in ('InfiniteRecursion', 'StackOverflow'):
                run.count(label + ':diverges-both')
            else:
                run.count(label + ':model-out-of-fuel')
            continue
        # once-count on the implementation
        cnt_i, cnt_m = Counter(ci[2]), Counter(cm[2])
        multi = sorted(m for m, k in cnt_i.items() if m in outside and k > 1)
        if multi:
            run.violation('evaluated-more-than-once', 'binding position(s) %s outside every function body evaluated more than once in %s' % (multi[:4], text[:300]), replay)
            continue
        over = [m for m, k in cnt_i.items() if k > cnt_m.get(m, 0)]
        why = compare_k(ci, cm)
        if why is None and over:
            why = 'message %r fires %d times on the implementation, %d under call-by-name' % (over[0], cnt_i[over[0]], cnt_m.get(over[0], 0))
        if why:
            # the model provably satisfies the rewrite laws and is call-by-name; a differing value / error /
            # demanded-set on the implementation is a failure of "evaluates as call-by-need" on this input
            run.violation('lazycore-correspondence', 'LazyCore program: %s — %s' % (why, text[:300]), replay)
            continue
        run.count(label + ':' + ci[0] + (':' + ci[1][0] if ci[0] == 'err' else ''))
        demanded = len(set(ci[2]))
        if demanded >= 1 and len(cm[2]) >= 1:
            run.nontrivial.add(key)
        if len(cm[2]) > len(ci[2]):
            run.count(label + ':memoisation-observed')
        if len(run.samples) < 4 and demanded >= 2:
            run.samples.append({'component': 'lazycore', 'program': text[:400], 'implementation': a[:200], 'model': b[:200]})


def check(run):
    rng = vlib.rng_for(run.seed, ID)
    run.rule = ('K: typed-ish generator of LazyCore programs (locals with mutually visible binds, functions with defaults, recursion on small '
                'counters, arrays/indexing, objects with self and hidden fields, if, error, +, ==, std.trace at ~75% of binding positions with a '
                'unique message; ~30% of programs carry one deliberate failure; dead failing bindings/fields/arguments/branches everywhere); '
                'non-trivial = distinct program in which at least one trace site is demanded.  Search: for every base program (ui-tests/pass '
                'without imports, LazyCore programs, single-instance object programs (1-3 layers with object locals shared by asserts and fields, super/+:, read through literal/computed/inherited fields, objectHas, in, length, ==, manifestation in random order), rich-template programs using std.map/foldl/sort keyF/comprehensions/super/$/asserts/tailstrict) '
                'sampled (site, rewrite kind) pairs; non-trivial = distinct (program, kind, site) whose rewritten program was evaluated and compared.')
    run.assume = ['the analyzer rejects unbound variables, self outside objects, repeated binder/parameter/field names (the model panics / takes the first match there)',
                  'numbers in the fragment are exact integers of magnitude <= 2^53 (beyond: reported OutOfFragment and skipped, counted)',
                  'call-by-name and call-by-need demand the same set of bindings (the K comparison of trace SETS rests on this; multiplicity is checked on the implementation alone)']
    pres = vlib.prove(ID, THEOREMS, ALLOWED_AXIOMS)
    run.add_proof(pres, THEOREMS)
    impl_exe = vlib.build_harness()
    model_exe = vlib.build_model('lazycore')
    quick = run.tier == 'quick'

    # ---- K
    progs = []
    nk = 1200 if quick else 30000
    for i in range(nk):
        e, g = gen_program(rng, rng.choice([15, 30, 60, 100]))
        text = show(e, rng)
        progs.append(('g%d' % i, e, text, g.sites_outside))
        for kd in g.kinds:
            run.count('gen-kind:' + kd)
    corpus = load_corpus()
    kcorp = []
    for key, l in corpus:
        if l.startswith('K '):
            e = ast.literal_eval(re.sub(r'(\d+)\*\*(\d+)', lambda m: str(int(m.group(1)) ** int(m.group(2))), l[2:]))
            kcorp.append((key, e, show(e), set()))
    run_k(run, kcorp + progs, impl_exe, model_exe, 'K')

    # ---- laziness facts of the standard library
    check_lazyfacts(run, impl_exe)

    # ---- Search (implementation only)
    bases = []
    for key, l in corpus:
        if l.startswith('ONCE '):
            bases.append(Base(key, l[5:].encode('utf-8'), True))     # a single-instance program: members count as once-able
        elif not l.startswith('K '):
            bases.append(Base(key, l.encode('utf-8'), False))
    for rel, src in ui_pass_programs():
        bases.append(Base('ui-tests/pass/' + rel, src, False))
    n_ui = len(bases)
    nl = 100 if quick else 3000
    for key, e, text, outside in progs[:nl]:
        bases.append(Base('lazycore-' + key, text.encode('utf-8'), True))
    nr = 150 if quick else 5000
    for i in range(nr):
        bases.append(Base('rich-%d' % i, gen_rich(rng).encode('utf-8'), False))
    nleaf = 150 if quick else 2500
    for i in range(nleaf):
        bases.append(Base('leaf-%d' % i, gen_leaf(rng, i).encode('utf-8'), False, exhaustive=True))
    nn = 150 if quick else 4000
    for i in range(nn):
        src, expect = gen_nested(rng)
        bb = Base('nested-%d' % i, src.encode('utf-8'), True)
        bb.expect = expect
        bases.append(bb)
    no = 150 if quick else 6000
    for i in range(no):
        bases.append(Base('objloc-%d' % i, gen_objloc(rng).encode('utf-8'), True))
    used = metamorphic(run, bases, impl_exe, rng, 6 if quick else 20, 'S')
    run.count('S:base-programs', used)
    run.count('S:ui-tests-and-corpus-bases', n_ui)


def replay(run, path):
    j = json.load(open(path))
    r = j.get('replay', {})
    if isinstance(r, dict) and r.get('kind') == 'k':
        impl_exe = vlib.build_harness()
        model_exe = vlib.build_model('lazycore')
        cases_i = [eval_case('k0', r['source'])]
        a = vlib.run_lines(impl_exe, [vlib.impl_line(c) for c in cases_i]).get('k0', 'NOOUTPUT')
        b = vlib.run_lines(model_exe, ['k0\t%x\t%x\t%s' % (FE, FM, r['wire'])]).get('k0', 'NOOUTPUT')
        ci, cm = canon_impl(a), canon_model(b)
        print('implementation:', ci)
        print('model         :', cm)
        outside = set(r.get('outside', []))
        multi = sorted(m for m, k in Counter(ci[2]).items() if m in outside and k > 1)
        why = None
        if multi:
            why = 'evaluated more than once: %s' % multi
        elif cm[0] in ('ok', 'err') and ci[0] in ('ok', 'err'):
            why = compare_k(ci, cm)
        elif ci[0] == 'crash':
            why = 'implementation crash'
        if why:
            run.violation(j.get('key', 'lazycore-correspondence'), why, r)
    elif isinstance(r, dict) and r.get('kind') == 'lazyfact':
        impl_exe = vlib.build_harness()
        res = vlib.run_lines(impl_exe, [vlib.impl_line(eval_case('f', r['program'], stack=0x190))])
        c = canon_impl(res.get('f', 'NOOUTPUT'))
        print('program:', r['program']); print('  ->', c); print('fact   :', r['value'])
        same = False
        if c[0] == 'ok':
            try:
                same = freeze(json_pairs(c[1])) == freeze(json_pairs(r['value']))
            except ValueError:
                same = c[1] == r['value']
        if not same:
            run.violation(j.get('key', 'unused-part-now-evaluated'), 'std.%s: %s no longer gives %s' % (r['function'], r['program'], r['value']), r)
    elif isinstance(r, dict) and r.get('kind') == 'expect':
        impl_exe = vlib.build_harness()
        base = bytes(int(x, 16) for x in r['base_hex'].split(','))
        res = vlib.run_lines(impl_exe, [vlib.impl_line(('b', 'eval', ['stack=%x' % STACK, hxl(list(base))]))])
        c0 = canon_impl(res.get('b', 'NOOUTPUT'))
        print('program:', base.decode('utf-8', 'replace')[:1500]); print('  ->', c0); print('expected traces:', r['expect'])
        if c0[0] == 'ok' and sorted(c0[2]) != sorted(r['expect']):
            run.violation(j.get('key', 'whole-value-trace-output'), 'trace multiset %s, expected %s' % (sorted(c0[2]), r['expect']), r)
    elif isinstance(r, dict) and r.get('kind') == 'meta':
        impl_exe = vlib.build_harness()
        base = bytes(int(x, 16) for x in r['base_hex'].split(',')) if r['base_hex'] else b''
        new = bytes(int(x, 16) for x in r['new_hex'].split(',')) if r['new_hex'] else b''
        cases = [('b', 'eval', ['stack=%x' % STACK, hxl(list(base))]), ('n', 'eval', ['stack=%x' % STACK, hxl(list(new))])]
        res = vlib.run_lines(impl_exe, [vlib.impl_line(c) for c in cases])
        c0, c1 = canon_impl(res.get('b', 'NOOUTPUT')), canon_impl(res.get('n', 'NOOUTPUT'))
        print('base     :', base.decode('utf-8', 'replace')[:1500]); print('  ->', c0)
        print('rewritten:', new.decode('utf-8', 'replace')[:1500]); print('  ->', c1)
        if r['rewrite'] in ('permute-tail-array', 'permute-fields', 'swap-eq'):
            why = perm_why(r['rewrite'], r['where'], c0, c1) if c0[0] == 'ok' else None
            if why:
                run.violation(j.get('key', 'permutation'), why, r)
        elif r['rewrite'] == 'once':
            tr = [m for m in c1[2] if m.startswith('once-')]
            rest = [m for m in c1[2] if not m.startswith('once-')]
            why = same_outcome(c0, (c1[0], c1[1], rest))
            oncable = set(r.get('oncable', tr))
            multi = sorted(m for m, k in Counter(tr).items() if k > 1 and m in oncable)
            if why or multi:
                run.violation(j.get('key', 'once'), why or ('evaluated more than once: %s' % multi), r)
        else:
            why = same_outcome(c0, c1)
            if why:
                run.violation(j.get('key', 'rewrite'), why, r)
    else:
        print('replay file names a broken obligation, not an input:', json.dumps(j.get('no_longer_checks', j), indent=1)[:2000])
        pres = vlib.prove(ID, THEOREMS, ALLOWED_AXIOMS)
        run.add_proof(pres, THEOREMS)
    for v in run.violations:
        print('REPRODUCED:', v['what'])
    if not run.violations and not run.failed_obligations:
        print('not reproduced')
    return 1 if (run.violations or run.failed_obligations) else 0
