"""C08 — `==` is a structural equivalence and `<` a total order, mutually consistent.

Proof:  Props/C08.v over Model/Compare.v (lazy value trees; equals / compare with the
        early-exit structure of State::EqualsValue/EqualsArray/EqualsObject/CompareValue/
        CompareArray) and Model/Utf8Order.v (byte order of UTF-8 = code-point order).
K:      groups of related values (triples; lazily failing variants) printed both as Jsonnet
        expressions and as model trees; every ordered pair through == != < <= > >=
        std.equals std.__compare std.__compare_array std.primitiveEquals on the real evaluator
        (harness component `eval`) and on the extracted model.
Search: the algebraic laws evaluated on the implementation's answers alone (reflexive, symmetric,
        transitive, != negation, std.equals agreement, same-JSON, trichotomy, antisymmetry,
        transitivity of < and <=, consistency of the six operators and of std.__compare*,
        code-point / numeric / lexicographic reference order, unordered types error, laziness).
"""
import os, sys, re, json, struct
import vlib
from vlib import hx, hxl

ID = 'C08'
COMPONENTS = ['compare']
THEOREMS = [
    'C08_utf8_order_is_cp_order', 'C08_str_compare_is_cp_order', 'C08_str_eqb_is_eq', 'C08_f64_order_laws',
    'C08_f64_eqb_iff_same_json_number', 'C08_f64_compare_is_value_order', 'C08_equals_total',
    'C08_equals_iff_same_json', 'C08_equals_refl', 'C08_equals_sym', 'C08_equals_trans', 'C08_equals_trans_lazy',
    'C08_ne_is_negb_eq', 'C08_std_equals_agrees', 'C08_primitive_equals_agrees',
    'C08_primitive_equals_non_primitive', 'C08_compare_total', 'C08_compare_trichotomy',
    'C08_compare_trichotomy_gen', 'C08_compare_eq_iff_equals', 'C08_compare_antisym', 'C08_compare_trans',
    'C08_compare_le_trans', 'C08_compare_trans_eq', 'C08_le_ge_consistent', 'C08_compare_array_lex',
    'C08_std_compare_agrees', 'C08_std_compare_array_agrees', 'C08_compare_unordered_errors', 'C08_equals_no_panic',
    'C08_compare_no_panic', 'C08_equals_early_exit', 'C08_equals_length_first', 'C08_equals_object_early_exit',
    'C08_equals_hidden_never_forced', 'C08_compare_early_exit', 'C08_compare_prefix_early_exit', 'C08_nonvacuous',
]
ALLOWED_AXIOMS = set()
TRANSLATORS = []

OPS = ['eq', 'ne', 'lt', 'le', 'gt', 'ge', 'equals', 'compare', 'compare_array', 'primitive_equals']
OP_SRC = {
    'eq': '%s == %s', 'ne': '%s != %s', 'lt': '%s < %s', 'le': '%s <= %s', 'gt': '%s > %s', 'ge': '%s >= %s',
    'equals': 'std.equals(%s, %s)', 'compare': 'std.__compare(%s, %s)',
    'compare_array': 'std.__compare_array(%s, %s)', 'primitive_equals': 'std.primitiveEquals(%s, %s)',
}

# ------------------------------------------------------------------ abstract values
# ['null'] ['bool',0|1] ['num',bits] ['str',[cps]] ['arr',[v..]] ['obj',assert,[[namecps,vis,v]..]] ['fun']
# ['fail',[cps]] ['faily',tag]          assert: None | '-' (fails without message) | [cps] (fails with message)
# object fields are kept sorted by the UTF-8 bytes of the name (ObjectData::get_fields_order)

def f_of_bits(b):
    return struct.unpack('<d', struct.pack('<Q', b))[0]


def bits_of_f(x):
    return struct.unpack('<Q', struct.pack('<d', x))[0]


def is_finite_bits(b):
    return (b >> 52) & 0x7ff != 0x7ff


NUM_POOL = [0.0, -0.0, 1.0, -1.0, 2.0, 0.5, 1.5, 3.0, 10.0, -10.0, 1e308, -1e308, 1.7976931348623157e308,
            5e-324, -5e-324, 2.2250738585072014e-308, 2.225073858507201e-308, 9007199254740991.0, 9007199254740992.0,
            9007199254740994.0, -9007199254740992.0, 0.1, 0.30000000000000004, 0.3, 1e-7, 123456789.0, 4294967296.0]

CHAR_POOL = [0x61, 0x62, 0x41, 0x7a, 0x30, 0x20, 0x7f, 0x80, 0xe9, 0xff, 0x7ff, 0x800, 0xd7ff, 0xe000, 0xff5e, 0xfffd,
             0xffff, 0x10000, 0x1f600, 0x10ffff, 0x0, 0x22, 0x5c, 0xa, 0x301, 0xdf, 0x65e5]
HIGH_BMP = [0xe000, 0xff5e, 0xfffd, 0xffff, 0xf900]
ASTRAL = [0x10000, 0x1f600, 0x10ffff, 0x20000]
NAME_POOL = ['a', 'b', 'c', 'aa', 'A', 'é', '～', '\U00010000', 'z', '', 'a b', 'ࠀ']


def utf8key(cps):
    return ''.join(chr(c) for c in cps).encode('utf-8')


def gen_num(rng):
    r = rng.random()
    if r < 0.55:
        return ['num', bits_of_f(rng.choice(NUM_POOL))]
    if r < 0.8:
        return ['num', bits_of_f(float(rng.randint(-5, 5)))]
    while True:
        b = rng.getrandbits(64)
        if is_finite_bits(b):
            return ['num', b]


def gen_str(rng):
    n = rng.choice([0, 1, 1, 2, 2, 3, 4])
    pool = CHAR_POOL if rng.random() < 0.75 else HIGH_BMP + ASTRAL
    return ['str', [rng.choice(pool) for _ in range(n)]]


def gen_ordered(rng, depth):
    r = rng.random()
    if depth <= 0 or r < 0.3:
        return gen_num(rng) if rng.random() < 0.5 else gen_str(rng)
    n = rng.choice([0, 1, 2, 2, 3, 4])
    kind = rng.random()
    if kind < 0.45:
        return ['arr', [gen_num(rng) for _ in range(n)]]
    if kind < 0.7:
        return ['arr', [gen_str(rng) for _ in range(n)]]
    return ['arr', [gen_ordered(rng, depth - 1) for _ in range(n)]]


def gen_obj(rng, depth):
    names = rng.sample(NAME_POOL, rng.choice([0, 1, 2, 2, 3, 4]))
    fields = []
    for nm in names:
        vis = rng.choice(['d', 'd', 'd', 'h', 'v'])
        if vis == 'h' and rng.random() < 0.5:
            v = rng.choice([['fun'], ['fail', [0x68, 0x69, 0x64]], ['faily', 1]])
        else:
            v = gen_any(rng, depth - 1)
        fields.append([[ord(c) for c in nm], vis, v])
    fields.sort(key=lambda f: utf8key(f[0]))
    asrt = None
    if rng.random() < 0.06:
        asrt = rng.choice(['-', [0x6d, 0x31], [0x6d, 0xe9]])
    return ['obj', asrt, fields]


def gen_any(rng, depth):
    r = rng.random()
    if depth <= 0 or r < 0.3:
        k = rng.random()
        if k < 0.15:
            return ['null']
        if k < 0.3:
            return ['bool', rng.randint(0, 1)]
        if k < 0.6:
            return gen_num(rng)
        if k < 0.9:
            return gen_str(rng)
        if k < 0.96:
            return ['fun']
        return ['fail', [0x65, 0x30 + rng.randint(0, 9)]] if rng.random() < 0.7 else ['faily', 1]
    if r < 0.6:
        return ['arr', [gen_any(rng, depth - 1) for _ in range(rng.choice([0, 1, 2, 2, 3]))]]
    if r < 0.9:
        return gen_obj(rng, depth)
    return gen_ordered(rng, depth)


def clone(v):
    return json.loads(json.dumps(v))


def mutate(rng, v, depth=0):
    """a value close to v: equal, or differing at one (possibly deep) position"""
    v = clone(v)
    k = v[0]
    r = rng.random()
    if r < 0.12 and depth > 0:
        return v
    if k == 'num':
        b = v[1]
        x = f_of_bits(b)
        c = rng.random()
        if x == 0.0 and c < 0.5:
            return ['num', b ^ (1 << 63)]          # -0 <-> +0
        if c < 0.6:
            nb = b + rng.choice([-1, 1])           # neighbouring double
            if 0 <= nb < (1 << 64) and is_finite_bits(nb) and (nb >> 63) == (b >> 63):
                return ['num', nb]
        if c < 0.8:
            return ['num', b ^ (1 << 63)]
        return gen_num(rng)
    if k == 'str':
        s = v[1]
        c = rng.random()
        if c < 0.35:
            return ['str', s + [rng.choice(CHAR_POOL)]]     # proper prefix
        if c < 0.55 and s:
            return ['str', s[:-1]]
        if c < 0.7 and s:
            i = rng.randrange(len(s))
            s[i] = rng.choice(CHAR_POOL)
            return ['str', s]
        if c < 0.9 and s:
            # UTF-16 order differs from code-point order exactly between U+E000..U+FFFF and the astral planes
            i = rng.randrange(len(s))
            s[i] = rng.choice(ASTRAL) if s[i] < 0x10000 else rng.choice(HIGH_BMP)
            if rng.random() < 0.5 and i > 0:
                s[i - 1] = rng.choice(HIGH_BMP)
            return ['str', s]
        return gen_str(rng)
    if k == 'arr':
        xs = v[1]
        c = rng.random()
        if c < 0.5 and xs:
            i = rng.randrange(len(xs))
            xs[i] = mutate(rng, xs[i], depth + 1)
            return v
        if c < 0.65:
            xs.append(gen_any(rng, 1) if rng.random() < 0.3 else (clone(xs[-1]) if xs else gen_num(rng)))
            return v
        if c < 0.8 and xs:
            xs.pop()
            return v
        if c < 0.9 and xs:
            i = rng.randrange(len(xs))
            xs[i] = ['fail', [0x70, 0x30 + rng.randint(0, 9)]]
            return v
        return v
    if k == 'obj':
        fs = v[2]
        c = rng.random()
        if c < 0.45 and fs:
            i = rng.randrange(len(fs))
            fs[i][2] = mutate(rng, fs[i][2], depth + 1)
            return v
        if c < 0.6 and fs:
            i = rng.randrange(len(fs))
            fs[i][1] = rng.choice(['d', 'h', 'v'])
            return v
        if c < 0.72:
            nm = rng.choice(NAME_POOL)
            cp = [ord(ch) for ch in nm]
            if all(f[0] != cp for f in fs):
                fs.append([cp, rng.choice(['d', 'h']), gen_any(rng, 1)])
                fs.sort(key=lambda f: utf8key(f[0]))
            return v
        if c < 0.82 and fs:
            fs.pop(rng.randrange(len(fs)))
            return v
        if c < 0.88:
            v[1] = None if v[1] is not None else [0x6d, 0x32]
            return v
        return v
    if k == 'bool':
        return ['bool', 1 - v[1]] if rng.random() < 0.7 else ['null']
    if k in ('fail', 'faily'):
        # both sides failing at one position with different errors: the lhs must be forced first
        if rng.random() < 0.6:
            return ['fail', [0x71, 0x30 + rng.randint(0, 9)]] if (k == 'faily' or rng.random() < 0.7) else ['faily', 1]
        return gen_any(rng, 1)
    return gen_any(rng, 1) if rng.random() < 0.5 else v


# ------------------------------------------------------------------ printing

def tree(v):
    k = v[0]
    if k == 'null':
        return 'n'
    if k == 'bool':
        return 't' if v[1] else 'f'
    if k == 'num':
        return 'd' + hx(v[1])
    if k == 'str':
        return 's' + hxl(v[1])
    if k == 'fun':
        return 'F'
    if k == 'fail':
        return 'x' + hxl(v[1])
    if k == 'faily':
        return 'y' + hx(v[1])
    if k == 'arr':
        return ' '.join(['a' + hx(len(v[1]))] + [tree(x) for x in v[1]])
    if k == 'obj':
        a = '-' if v[1] is None else ('A-' if v[1] == '-' else 'A' + hxl(v[1]))
        out = ['o' + hx(len(v[2])), a]
        for nm, vis, x in v[2]:
            out.append(vis + hxl(nm))
            out.append(tree(x))
        return ' '.join(out)
    raise ValueError(k)


def src_str(rng, cps):
    out = ['"']
    for c in cps:
        if c == 0x22:
            out.append('\\"')
        elif c == 0x5c:
            out.append('\\\\')
        elif c < 0x20 or c == 0x7f:
            out.append('\\u%04x' % c)
        elif c < 0x80:
            out.append(chr(c))
        elif rng.random() < 0.3:
            if c >= 0x10000:
                d = c - 0x10000
                out.append('\\u%04x\\u%04x' % (0xd800 + (d >> 10), 0xdc00 + (d & 0x3ff)))
            else:
                out.append('\\u%04x' % c)
        else:
            out.append(chr(c))
    out.append('"')
    return ''.join(out)


def src_num(bits):
    x = f_of_bits(bits)
    s = repr(abs(x))
    if s.endswith('.0'):
        s = s[:-2]
    return '(-%s)' % s if (bits >> 63) else s


VIS_SRC = {'d': ':', 'h': '::', 'v': ':::'}


def src_obj(rng, v):
    asrt, fields = v[1], v[2]
    layers = [[], []] if rng.random() < 0.55 else [[]]
    top = len(layers) - 1
    for nm, vis, x in fields:
        key = src_str(rng, nm)
        val = src(rng, x)
        if top == 0:
            layers[0].append('%s%s %s' % (key, VIS_SRC[vis], val))
            continue
        place = rng.random()
        if place < 0.35:
            layers[1].append('%s%s %s' % (key, VIS_SRC[vis], val))
        elif place < 0.6:
            layers[0].append('%s%s %s' % (key, VIS_SRC[vis], val))
        else:
            # in both layers: the child overrides the value, visibility merges
            decoy = rng.choice(['error "never"', '0', '"decoy"', '[error "never"]', 'function() 1'])
            if vis == 'd':
                vc, vb = ':', ':'
            elif rng.random() < 0.5:
                vc, vb = VIS_SRC[vis], rng.choice([':', '::', ':::'])
            else:
                vc, vb = ':', VIS_SRC[vis]
            layers[0].append('%s%s %s' % (key, vb, decoy))
            layers[1].append('%s%s %s' % (key, vc, val))
    if asrt is not None:
        a = 'assert false' if asrt == '-' else 'assert false : %s' % src_str(rng, asrt)
        layers[rng.randrange(len(layers))].append(a)
    elif rng.random() < 0.1:
        layers[rng.randrange(len(layers))].append('assert true')
    outs = []
    for l in layers:
        rng.shuffle(l)
        outs.append('{' + ', '.join(l) + '}')
    return '(' + ' + '.join(outs) + ')' if len(outs) > 1 else outs[0]


def src(rng, v):
    k = v[0]
    if k == 'null':
        return 'null'
    if k == 'bool':
        return 'true' if v[1] else 'false'
    if k == 'num':
        return src_num(v[1])
    if k == 'str':
        return src_str(rng, v[1])
    if k == 'fun':
        return rng.choice(['(function(x) x)', 'std.length', '(function() 1)'])
    if k == 'fail':
        return '(error %s)' % src_str(rng, v[1])
    if k == 'faily':
        return '(1 / 0)'
    if k == 'arr':
        xs = [src(rng, x) for x in v[1]]
        if len(xs) >= 2 and rng.random() < 0.25:
            i = rng.randint(0, len(xs))
            return '([' + ', '.join(xs[:i]) + '] + [' + ', '.join(xs[i:]) + '])'
        return '[' + ', '.join(xs) + ']'
    if k == 'obj':
        return src_obj(rng, v)
    raise ValueError(k)


# ------------------------------------------------------------------ reference notions (on abstract values)

def clean(v):
    """has a JSON value: every visible part is fail-free and function-free, asserts hold"""
    k = v[0]
    if k in ('fail', 'faily', 'fun'):
        return False
    if k == 'arr':
        return all(clean(x) for x in v[1])
    if k == 'obj':
        return v[1] is None and all(clean(x) for _, vis, x in v[2] if vis != 'h')
    return True


def failfree_all(v):
    k = v[0]
    if k in ('fail', 'faily'):
        return False
    if k == 'arr':
        return all(failfree_all(x) for x in v[1])
    if k == 'obj':
        return v[1] is None and all(failfree_all(x) for _, _, x in v[2])
    return True


def to_json(v):
    k = v[0]
    if k == 'null':
        return ('null',)
    if k == 'bool':
        return ('bool', v[1])
    if k == 'num':
        return ('num', f_of_bits(v[1]))          # float ==: -0.0 == 0.0
    if k == 'str':
        return ('str', tuple(v[1]))
    if k == 'arr':
        return ('arr', tuple(to_json(x) for x in v[1]))
    if k == 'obj':
        return ('obj', tuple((tuple(nm), to_json(x)) for nm, vis, x in v[2] if vis != 'h'))
    raise ValueError(k)


def has_neg_zero(v):
    k = v[0]
    if k == 'num':
        return v[1] == 1 << 63
    if k == 'arr':
        return any(has_neg_zero(x) for x in v[1])
    if k == 'obj':
        return any(has_neg_zero(x) for _, vis, x in v[2] if vis != 'h')
    return False


def ordered(v):
    k = v[0]
    return k in ('num', 'str') or (k == 'arr' and all(ordered(x) for x in v[1]))


def spec_cmp(x, y):
    """reference order on fail-free values: numbers numerically, strings by code point,
    arrays lexicographically; 'ERR' where the walk meets a pair without an order"""
    kx, ky = x[0], y[0]
    if kx == 'num' and ky == 'num':
        a, b = f_of_bits(x[1]), f_of_bits(y[1])
        return -1 if a < b else (1 if a > b else 0)
    if kx == 'str' and ky == 'str':
        a, b = x[1], y[1]              # lists of code points: Python compares lexicographically
        return -1 if a < b else (1 if a > b else 0)
    if kx == 'arr' and ky == 'arr':
        for p, q in zip(x[1], y[1]):
            c = spec_cmp(p, q)
            if c != 0:
                return c
        return -1 if len(x[1]) < len(y[1]) else (1 if len(x[1]) > len(y[1]) else 0)
    return 'ERR'


def diff_depth(x, y):
    """depth of the first difference (None when the JSON values are equal); clean values only"""
    if to_json(x) == to_json(y):
        return None
    if x[0] == 'arr' and y[0] == 'arr' and len(x[1]) == len(y[1]):
        for p, q in zip(x[1], y[1]):
            d = diff_depth(p, q)
            if d is not None:
                return d + 1
    if x[0] == 'obj' and y[0] == 'obj':
        fx = [(nm, v) for nm, vis, v in x[2] if vis != 'h']
        fy = [(nm, v) for nm, vis, v in y[2] if vis != 'h']
        if [n for n, _ in fx] == [n for n, _ in fy]:
            for (_, p), (_, q) in zip(fx, fy):
                d = diff_depth(p, q)
                if d is not None:
                    return d + 1
    return 0


def poison_after(rng, x, y):
    """(x', y'): copies of two arrays / two objects whose elements after the deciding position of ==
    (and of <) are replaced by failing thunks; None when there is no such position"""
    if x[0] == 'arr' and y[0] == 'arr':
        xs, ys = x[1], y[1]
        n = min(len(xs), len(ys))
        for i in range(n):
            if not (clean(xs[i]) and clean(ys[i])):
                return None
            if to_json(xs[i]) != to_json(ys[i]):
                if i + 1 >= max(len(xs), len(ys)):
                    return None
                nx, ny = clone(x), clone(y)
                for j in range(i + 1, len(xs)):
                    nx[1][j] = ['fail', [0x6c, 0x61, 0x7a, 0x79]]
                for j in range(i + 1, len(ys)):
                    ny[1][j] = ['faily', 1]
                return nx, ny
        return None
    if x[0] == 'obj' and y[0] == 'obj' and x[1] is None and y[1] is None:
        fx = [i for i, f in enumerate(x[2]) if f[1] != 'h']
        fy = [i for i, f in enumerate(y[2]) if f[1] != 'h']
        if [x[2][i][0] for i in fx] != [y[2][i][0] for i in fy]:
            return None
        for k, (i, j) in enumerate(zip(fx, fy)):
            p, q = x[2][i][2], y[2][j][2]
            if not (clean(p) and clean(q)):
                return None
            if to_json(p) != to_json(q):
                if k + 1 >= len(fx):
                    return None
                nx, ny = clone(x), clone(y)
                for i2 in fx[k + 1:]:
                    nx[2][i2][2] = ['fail', [0x6c, 0x61, 0x7a, 0x79]]
                for j2 in fy[k + 1:]:
                    ny[2][j2][2] = ['faily', 1]
                return nx, ny
        return None
    return None


# ------------------------------------------------------------------ groups

def make_group(rng, gid, vals, kind, pairs=None):
    """vals: abstract values; the group fixes their printed form once"""
    n = len(vals)
    if pairs is None:
        pairs = [(i, j) for i in range(n) for j in range(n)]
    return {'id': gid, 'kind': kind, 'vals': vals, 'src': [src(rng, v) for v in vals],
            'tree': [tree(v) for v in vals], 'pairs': [list(p) for p in pairs]}


def gen_group(rng, gid):
    r = rng.random()
    depth = rng.choice([1, 2, 2, 3])
    if r < 0.5:
        x = gen_ordered(rng, depth)
    elif r < 0.75:
        x = gen_obj(rng, depth)
    else:
        x = gen_any(rng, depth)
    y = mutate(rng, x)
    z = mutate(rng, rng.choice([x, y]))
    if rng.random() < 0.15:
        z = gen_ordered(rng, depth) if ordered(x) else gen_any(rng, depth)
    vals = [x, y, z]
    rng.shuffle(vals)
    return make_group(rng, gid, vals, 'triple')


def lazy_group(rng, gid, x, y):
    p = poison_after(rng, x, y)
    if p is None:
        return None
    return make_group(rng, gid, [x, y, p[0], p[1]], 'lazy', pairs=[(0, 1), (2, 3), (1, 0), (3, 2)])


def program(g, i, j, op):
    binds = ', '.join('v%d = %s' % (k, s) for k, s in enumerate(g['src']))
    return 'local %s; %s' % (binds, OP_SRC[op] % ('v%d' % i, 'v%d' % j))


TYNAMES = ('Null', 'Bool', 'Number', 'String', 'Array', 'Object', 'Function')


def canon_impl(r):
    """implementation answer -> the model's result notation"""
    f = r.split('\t')
    if f[0] == 'OK':
        t = vlib.uncps(f[1]).strip()
        return {'true': 'B1', 'false': 'B0', '-1': 'I-1', '0': 'I0', '1': 'I1'}.get(t, 'OK?' + t)
    if f[0] == 'ERR' and len(f) > 3 and f[1] == 'EVAL':
        var, msg = f[2], f[3]
        dbg = ''
        for x in f[4:]:
            if x.startswith('D='):
                dbg = vlib.uncps(x[2:])
        if var in ('ExplicitError', 'AssertFailed'):
            return 'E:%s:%s' % (var, msg)
        if var == 'DivByZero':
            return 'E:Other:1'
        if var == 'CompareDifferentTypesInequality':
            m = re.search(r'lhs_type: (\w+), rhs_type: (\w+)', dbg)
            return 'E:%s:%s:%s' % (var, m.group(1), m.group(2)) if m else 'E:%s:?' % var
        if var == 'PrimitiveEqualsNonPrimitive':
            m = re.search(r'got_type: (\w+)', dbg)
            return 'E:%s:%s' % (var, m.group(1)) if m else 'E:%s:?' % var
        if var == 'InvalidStdFuncArgType':
            m = re.search(r'arg_index: (\d+).*got_type: (\w+)', dbg, re.S)
            return 'E:%s:%x:%s' % (var, int(m.group(1)), m.group(2)) if m else 'E:%s:?' % var
        return 'E:' + var
    return r.replace('\t', ' ')[:200]


def is_err(r):
    return r.startswith('E:')


def is_cmp_err(r):
    return r.startswith('E:Compare')


def run_groups(run, groups, impl_exe, model_exe, label):
    """evaluate every (pair, op) of every group on both sides; K comparison + law oracle"""
    icases, mcases = [], []
    for g in groups:
        for (i, j) in g['pairs']:
            mcases.append(('%s.%d.%d' % (g['id'], i, j), 'compare', [','.join(OPS), g['tree'][i], g['tree'][j]]))
            for op in OPS:
                p = program(g, i, j, op)
                icases.append(('%s.%d.%d.%s' % (g['id'], i, j, op), 'eval', ['', hxl(list(p.encode('utf-8')))]))
        for k in range(len(g['vals'])):
            # the value itself, manifested (same-JSON oracle on the implementation's own output)
            p = 'local v = %s; v' % g['src'][k]
            icases.append(('%s.m%d' % (g['id'], k), 'eval', ['', hxl(list(p.encode('utf-8')))]))
    ires = vlib.run_sharded(impl_exe, [vlib.impl_line(c) for c in icases], timeout=300)
    mres = vlib.run_sharded(model_exe, [vlib.model_line(c) for c in mcases], timeout=300)
    for g in groups:
        R = {}
        M = {}
        for (i, j) in g['pairs']:
            ms = mres.get('%s.%d.%d' % (g['id'], i, j), 'NOOUTPUT').split(';')
            for k, op in enumerate(OPS):
                raw = ires.get('%s.%d.%d.%s' % (g['id'], i, j, op), 'NOOUTPUT')
                R[(i, j, op)] = canon_impl(raw)
                M[(i, j, op)] = ms[k] if k < len(ms) else 'MODEL:' + ms[0]
                run.evaluations += 1
        man = [ires.get('%s.m%d' % (g['id'], k), 'NOOUTPUT') for k in range(len(g['vals']))]
        judge(run, g, R, M, man, label)


def replay_of(g, extra):
    d = {'kind': 'group', 'group': g}
    d.update(extra)
    return d


def judge(run, g, R, M, man, label):
    vals = g['vals']
    n = len(vals)
    run.count(label + '_groups')

    def viol(key, what, i, j, op=None):
        prog = program(g, i, j, op or 'eq')
        run.violation(key, '%s | program: %s' % (what, prog[:600]), replay_of(g, {'pair': [i, j], 'op': op, 'program': prog}))

    # ---- machinery / crash
    for (i, j, op), r in R.items():
        if not (r[:1] in 'BI' and r in ('B0', 'B1', 'I-1', 'I0', 'I1')) and not is_err(r):
            viol('impl-abnormal:' + r.split(' ')[0][:30], 'evaluation of a comparison did not end in a value or an error: %s' % r, i, j, op)
    # ---- laws on the implementation alone
    for (i, j) in [tuple(p) for p in g['pairs']]:
        x, y = vals[i], vals[j]
        r = {op: R[(i, j, op)] for op in OPS}
        eq, ne, lt, le, gt, ge = r['eq'], r['ne'], r['lt'], r['le'], r['gt'], r['ge']
        run.count('outcome_eq_' + (eq if not is_err(eq) else 'error'))
        run.count('outcome_lt_' + (lt if not is_err(lt) else ('cmp_error' if is_cmp_err(lt) else 'forced_error')))
        # != is the negation of ==
        if (eq, ne) not in (('B1', 'B0'), ('B0', 'B1')) and not (is_err(eq) and eq == ne):
            viol('ne-not-negation', '`!=` is not the negation of `==`: == gives %s, != gives %s' % (eq, ne), i, j, 'ne')
        # std.equals agrees with ==
        if r['equals'] != eq:
            viol('std-equals-differs', 'std.equals gives %s, == gives %s' % (r['equals'], eq), i, j, 'equals')
        cx, cy = clean(x), clean(y)
        if cx and cy:
            same = to_json(x) == to_json(y)
            want = 'B1' if same else 'B0'
            if eq != want:
                viol('eq-not-same-json', '== gives %s on two values that are %s JSON value' % (eq, 'the same' if same else 'not the same'), i, j, 'eq')
            # the implementation's own manifestation agrees (when no -0 is involved)
            if not has_neg_zero(x) and not has_neg_zero(y) and man[i].startswith('OK') and man[j].startswith('OK'):
                msame = man[i] == man[j]
                if (eq == 'B1') != msame and not is_err(eq):
                    viol('eq-vs-manifest', '== gives %s but the two values manifest %s' % (eq, 'identically' if msame else 'differently'), i, j, 'eq')
            d = diff_depth(x, y)
            if (d is None and x[0] in ('arr', 'obj')) or (d is not None and d >= 2):
                run.nontrivial.add((g['tree'][i], g['tree'][j]))
            run.count('diff_depth_' + ('equal' if d is None else str(min(d, 3))))
        # primitive equality
        pe = r['primitive_equals']
        prim = ('null', 'bool', 'num', 'str')
        if x[0] in prim and y[0] in prim:
            if pe != eq:
                viol('primitive-equals-differs', 'std.primitiveEquals gives %s, == gives %s on primitive values' % (pe, eq), i, j, 'primitive_equals')
        elif x[0] not in ('fail', 'faily') and y[0] not in ('fail', 'faily'):
            if x[0] == y[0]:
                if not is_err(pe):
                    viol('primitive-equals-non-primitive', 'std.primitiveEquals answers %s on two %s values' % (pe, x[0]), i, j, 'primitive_equals')
            elif pe != 'B0':
                viol('primitive-equals-mixed', 'std.primitiveEquals gives %s on values of different types' % pe, i, j, 'primitive_equals')
        # the six operators and the three-way functions are one order
        cmp3 = r['compare']
        if not is_err(lt):
            ok = (not is_err(gt) and not is_err(le) and not is_err(ge) and not is_err(eq) and not is_err(cmp3))
            if not ok:
                viol('order-partial-answer', '< answers %s but one of <=,>,>=,==,std.__compare fails: %s' % (lt, r), i, j, 'lt')
            else:
                ntrue = [lt, eq, gt].count('B1')
                if ntrue != 1:
                    viol('trichotomy', 'not exactly one of <, ==, > holds: %s %s %s' % (lt, eq, gt), i, j, 'lt')
                if le != ('B1' if (lt == 'B1' or eq == 'B1') else 'B0') or ge != ('B1' if (gt == 'B1' or eq == 'B1') else 'B0'):
                    viol('le-ge-derived', '<= / >= are not (< or ==) / (> or ==): lt=%s eq=%s gt=%s le=%s ge=%s' % (lt, eq, gt, le, ge), i, j, 'le')
                want3 = 'I-1' if lt == 'B1' else ('I1' if gt == 'B1' else 'I0')
                if cmp3 != want3:
                    viol('std-compare-differs', 'std.__compare gives %s where <,==,> give %s,%s,%s' % (cmp3, lt, eq, gt), i, j, 'compare')
        else:
            for op in ('le', 'gt', 'ge', 'compare'):
                if r[op] != lt:
                    viol('order-error-differs', '< fails with %s but %s gives %s' % (lt, op, r[op]), i, j, op)
        ca = r['compare_array']
        if x[0] == 'arr' and y[0] == 'arr':
            if ca != cmp3:
                viol('compare-array-differs', 'std.__compare_array gives %s, std.__compare gives %s' % (ca, cmp3), i, j, 'compare_array')
        elif x[0] not in ('fail', 'faily') and y[0] not in ('fail', 'faily'):
            if not ca.startswith('E:InvalidStdFuncArgType'):
                viol('compare-array-non-array', 'std.__compare_array gives %s on a non-array argument' % ca, i, j, 'compare_array')
        # values without an order: an error, never an answer
        if x[0] not in ('fail', 'faily') and y[0] not in ('fail', 'faily'):
            if not (x[0] == y[0] and x[0] in ('num', 'str', 'arr')):
                for op in ('lt', 'le', 'gt', 'ge', 'compare'):
                    if not is_cmp_err(r[op]):
                        viol('unordered-answered', '%s gives %s on %s vs %s (no order defined)' % (op, r[op], x[0], y[0]), i, j, op)
                run.count('unordered_pairs')
        # reference order: numeric / code point / lexicographic
        if failfree_all(x) and failfree_all(y) and x[0] == y[0] and x[0] in ('num', 'str', 'arr'):
            c = spec_cmp(x, y)
            if c == 'ERR':
                if not is_cmp_err(cmp3):
                    viol('lex-unordered-answered', 'std.__compare gives %s though the lexicographic walk meets values without an order' % cmp3, i, j, 'compare')
            else:
                want3 = {-1: 'I-1', 0: 'I0', 1: 'I1'}[c]
                if cmp3 != want3:
                    key = 'order-string-codepoint' if x[0] == 'str' else ('order-number' if x[0] == 'num' else 'order-array-lex')
                    viol(key, 'std.__compare gives %s, the reference order (numbers numerically, strings by code point, arrays lexicographically) gives %s' % (cmp3, want3), i, j, 'compare')
                run.count('ordered_pairs')
        # symmetric laws need the reverse pair
        if [j, i] in g['pairs']:
            req, rlt, rgt, rle, rge = (R[(j, i, o)] for o in ('eq', 'lt', 'gt', 'le', 'ge'))
            if not is_err(eq) and not is_err(req) and eq != req:
                viol('eq-not-symmetric', 'a == b gives %s, b == a gives %s' % (eq, req), i, j, 'eq')
            if cx and cy and (is_err(eq) or is_err(req)):
                viol('eq-error-on-clean', '== fails (%s / %s) on values with a JSON value' % (eq, req), i, j, 'eq')
            if not is_err(lt):
                if rgt != lt or rge != le or rlt != gt or rle != ge:
                    viol('order-antisymmetry', 'a<b,a<=b,a>b,a>=b = %s,%s,%s,%s but b>a,b>=a,b<a,b<=a = %s,%s,%s,%s' % (lt, le, gt, ge, rgt, rge, rlt, rle), i, j, 'lt')
    # reflexivity
    for i in range(n):
        if (i, i, 'eq') in R:
            e = R[(i, i, 'eq')]
            if e == 'B0' or (clean(vals[i]) and e != 'B1'):
                viol('eq-not-reflexive', 'a == a gives %s' % e, i, i, 'eq')
            if not is_err(R[(i, i, 'lt')]) and (R[(i, i, 'lt')] != 'B0' or R[(i, i, 'le')] != 'B1'):
                viol('lt-not-irreflexive', 'a < a gives %s, a <= a gives %s' % (R[(i, i, 'lt')], R[(i, i, 'le')]), i, i, 'lt')
    # transitivity over all ordered triples of the group
    if g['kind'] == 'triple':
        for i in range(n):
            for j in range(n):
                for k in range(n):
                    if R[(i, j, 'eq')] == 'B1' and R[(j, k, 'eq')] == 'B1' and R[(i, k, 'eq')] != 'B1':
                        viol('eq-not-transitive', 'a == b and b == c hold but a == c gives %s (b is v%d)' % (R[(i, k, 'eq')], j), i, k, 'eq')
                    if R[(i, j, 'lt')] == 'B1' and R[(j, k, 'lt')] == 'B1' and R[(i, k, 'lt')] != 'B1':
                        viol('lt-not-transitive', 'a < b and b < c hold but a < c gives %s (b is v%d)' % (R[(i, k, 'lt')], j), i, k, 'lt')
                    if R[(i, j, 'le')] == 'B1' and R[(j, k, 'le')] == 'B1' and R[(i, k, 'le')] != 'B1':
                        viol('le-not-transitive', 'a <= b and b <= c hold but a <= c gives %s (b is v%d)' % (R[(i, k, 'le')], j), i, k, 'le')
    # laziness: elements after the deciding position are never forced
    if g['kind'] == 'lazy':
        for (p, q) in (((0, 1), (2, 3)), ((1, 0), (3, 2))):
            for op in OPS:
                a, b = R[(p[0], p[1], op)], R[(q[0], q[1], op)]
                if a != b:
                    viol('early-exit', '%s gives %s, but %s once the elements after the deciding position fail when forced' % (op, a, b), q[0], q[1], op)
        run.count('lazy_pairs')
    # ---- K: model vs implementation, every (pair, op)
    for key, r in R.items():
        m = M[key]
        if r != m:
            i, j, op = key
            x, y = vals[i], vals[j]
            # the model provably meets the laws; where the property fixes the answer the implementation's
            # differing answer is the failure, otherwise only the correspondence is broken
            determined = (clean(x) and clean(y) and op in ('eq', 'ne', 'equals')) or \
                         (failfree_all(x) and failfree_all(y) and ordered(x) and ordered(y))
            prog = program(g, i, j, op)
            run.violation('model-differs:%s:%s' % (op, m.split(':')[1] if is_err(m) and ':' in m else m[:2]),
                          'correspondence compare: %s — implementation %s, model %s | program: %s' % (op, r, m, prog[:600]),
                          replay_of(g, {'pair': [i, j], 'op': op, 'program': prog, 'impl': r, 'model': m}), concrete=determined)
    if len(run.samples) < 4:
        i, j = g['pairs'][1 % len(g['pairs'])]
        run.samples.append({'component': 'compare', 'program': program(g, i, j, 'lt')[:400],
                            'a': g['tree'][i][:200], 'b': g['tree'][j][:200],
                            'results': {op: R[(i, j, op)] for op in OPS}})


# ------------------------------------------------------------------ corpus

def parse_tree(tokens):
    t = tokens.pop(0)
    c, rest = t[0], t[1:]
    if c == 'n':
        return ['null']
    if c == 't':
        return ['bool', 1]
    if c == 'f':
        return ['bool', 0]
    if c == 'F':
        return ['fun']
    if c == 'd':
        return ['num', int(rest, 16)]
    if c == 's':
        return ['str', [int(x, 16) for x in rest.split(',')] if rest else []]
    if c == 'x':
        return ['fail', [int(x, 16) for x in rest.split(',')] if rest else []]
    if c == 'y':
        return ['faily', int(rest, 16)]
    if c == 'a':
        return ['arr', [parse_tree(tokens) for _ in range(int(rest, 16))]]
    if c == 'o':
        a = tokens.pop(0)
        asrt = None if a == '-' else ('-' if a == 'A-' else [int(x, 16) for x in a[1:].split(',')])
        fs = []
        for _ in range(int(rest, 16)):
            ft = tokens.pop(0)
            nm = [int(x, 16) for x in ft[1:].split(',')] if ft[1:] else []
            fs.append([nm, ft[0], parse_tree(tokens)])
        fs.sort(key=lambda f: utf8key(f[0]))
        return ['obj', asrt, fs]
    raise ValueError(t)


def corpus_groups(rng):
    """corpus/c08_groups.txt: one group per line, values (model tree notation) separated by ' | '"""
    out = []
    p = os.path.join(vlib.VERIF, 'corpus', 'c08_groups.txt')
    if os.path.exists(p):
        for ln, l in enumerate(open(p, encoding='utf-8')):
            l = l.strip()
            if not l or l.startswith('#'):
                continue
            vals = [parse_tree(part.split()) for part in l.split('|')]
            out.append(make_group(rng, 'c%d' % ln, vals, 'triple'))
            if len(vals) >= 2:
                lg = lazy_group(rng, 'cl%d' % ln, vals[0], vals[1])
                if lg:
                    out.append(lg)
    return out


# ------------------------------------------------------------------ main check

def check(run):
    rng = vlib.rng_for(run.seed, ID)
    run.rule = ('groups of three related values (a generated value, a mutation of it, a mutation of either; numbers incl. +-0, '
                'neighbouring doubles, 2^53 boundary, subnormals; strings over an alphabet of 1-4-byte code points incl. U+FF5E vs U+10000, '
                'prefixes; nested arrays of unequal lengths; objects with hidden/forced-visible fields printed flat or as inheritance chains '
                'with decoy super fields, failing asserts; functions; failing thunks) and lazy pairs (elements after the deciding position '
                'replaced by failing thunks); every ordered pair x 10 operators on implementation and model.  '
                'non-trivial = distinct pair of values with a JSON value that is equal and composite, or whose first difference lies at depth >= 2.')
    run.assume = ['object field lists given to the model are ObjectData::get_fields_order() (sorted by name bytes, merged visibility) — the object layer algebra is C07',
                  'a thunk is the tree it evaluates to or a failure; memoisation of thunks and the asserts_checked bit are not part of this model (C04/C11)',
                  'Rust `str` Ord/Eq = lexicographic order/equality of the UTF-8 bytes; f64 ==/partial_cmp = IEEE comparison (SpecFloat.SFcompare)',
                  'numbers reaching a comparison are finite doubles (C06)']
    pres = vlib.prove(ID, THEOREMS, ALLOWED_AXIOMS)
    run.add_proof(pres, THEOREMS)
    impl_exe = vlib.build_harness()
    model_exe = vlib.build_model('compare')
    n = 450 if run.tier == 'quick' else 6000
    groups = corpus_groups(rng)
    run.count('corpus_groups', len(groups))
    for i in range(n):
        g = gen_group(rng, 'g%d' % i)
        groups.append(g)
        v = g['vals']
        for (a, b) in ((0, 1), (1, 2)):
            if rng.random() < 0.7:
                lg = lazy_group(rng, 'l%d_%d' % (i, a), v[a], v[b])
                if lg:
                    groups.append(lg)
    chunk = 400
    for k in range(0, len(groups), chunk):
        run_groups(run, groups[k:k + chunk], impl_exe, model_exe, 'gen')


def replay(run, path):
    j = json.load(open(path))
    r = j.get('replay', {})
    if isinstance(r, dict) and r.get('kind') == 'group':
        impl_exe = vlib.build_harness()
        model_exe = vlib.build_model('compare')
        g = r['group']
        g['pairs'] = [list(p) for p in g['pairs']]
        run_groups(run, [g], impl_exe, model_exe, 'replay')
    else:
        print('replay file names a broken obligation, not an input:', json.dumps(j.get('no_longer_checks', j), indent=1)[:2000])
        pres = vlib.prove(ID, THEOREMS, ALLOWED_AXIOMS)
        run.add_proof(pres, THEOREMS)
    for v in run.violations:
        print('REPRODUCED:', v['what'])
    if not run.violations and not run.failed_obligations:
        print('not reproduced')
    return 1 if (run.violations or run.failed_obligations) else 0
