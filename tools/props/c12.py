"""C12 — the command-line tool's exit status, streams and output modes form one contract.

T:      tools/translate_cli.py reads the glue's constants (exit status mapping, checked flush of
        stdout, YAML literals, virtual file names, order of the variable loops, split_once('='))
        from the current main.rs / cli.rs into Gen/CliConsts.v; C12_source_constants proves
        they are the model's.
Proof:  Props/C12.v over Model/Cli.v (run : config -> world -> result, a branch-by-branch
        model of rsjsonnet/src/main.rs + the two argument parsers of cli.rs + the
        zero-positional instance of check_call_args_generic).
K:      the real binary (vlib.build_cli()) in scratch directories vs the extracted model.
        The model is given the world as tables: the Session oracles' answers are taken
        from plain runs of the same binary (default mode, -e, pipe), the file system /
        stdout behaviour from how the scratch directory and descriptors are set up.
Search: oracle on the implementation alone: exit status in {0,1,2}; failure => empty
        stdout, no/unchanged/empty -o file, non-empty stderr; exit 0 => the complete output
        reached its sink (write failures); mode views consistent with the plain views.

Case format sent to the model (one S-expression field, see ocaml/comp_cli.ml):
  cfg   = (input exec (jpath..) (out)? (multi)? yaml string ntn (max_stack)? (max_trace)?
           (ext_str..) (ext_str_file..) (ext_code..) (ext_code_file..)
           (tla_str..) (tla_str_file..) (tla_code..) (tla_code_file..))
  world = (clap_ok colored (stdin)? env read load_virt load_real eval shape call manifest
           target stdout bufcap)
  bytes = x<hex pairs>, numbers = n<hex>, bool = 0|1, option = () | (v)
"""
import os, sys, re, json, subprocess, tempfile, shutil, itertools, hashlib, threading
from concurrent.futures import ThreadPoolExecutor
import vlib
sys.path.insert(0, os.path.dirname(os.path.dirname(os.path.abspath(__file__))))
import translate_cli

ID = 'C12'
COMPONENTS = ['cli']
THEOREMS = ['C12_source_constants', 'C12_cli_exit_in_012', 'C12_usage_is_2', 'C12_stdout_only_on_success',
            'C12_write_failure_is_exit1', 'C12_healthy_run_succeeds', 'C12_string_mode_is_value', 'C12_yaml_stream_shape',
            'C12_multi_files_are_visible_fields', 'C12_no_trailing_newline_only_last',
            'C12_tla_bind_by_name', 'C12_tla_bind_permutation', 'C12_ext_code_lazy', 'C12_ext_bindings_exact', 'C12_input_failure_is_exit1', 'C12_tla_misuse_never_succeeds',
            'C12_var_split_at_first_eq', 'C12_no_panic', 'C12_needs_flush', 'C12_nonvacuous']
ALLOWED_AXIOMS = set()


def translate(repo):
    return translate_cli.main(repo, os.path.join(vlib.COQ, 'Gen', 'CliConsts.v'))


TRANSLATORS = [translate]
BUFCAP = 1024
NTHREADS = min(16, vlib.NCPU)


# ---------------------------------------------------------------- S-expression helpers

def xb(b):
    if isinstance(b, str):
        b = b.encode('utf-8')
    return 'x' + b.hex()


def xn(n):
    return 'n%x' % n


def xopt(v, f):
    return '()' if v is None else '(%s)' % f(v)


def xlist(l, f):
    return '(' + ' '.join(f(x) for x in l) + ')'


def xbool(b):
    return '1' if b else '0'


def x_thunk(t):
    return '(S %s)' % xb(t[1]) if t[0] == 'S' else '(L %s)' % xn(t[1])


def x_shape(s):
    k = s[0]
    if k == 'X':
        return 'X'
    if k == 'F':
        return '(F %s)' % ' '.join('(%s %s)' % (xb(n), xbool(d)) for n, d in s[1])
    if k == 'S':
        return '(S %s)' % xb(s[1])
    if k == 'A':
        return '(A %s)' % ' '.join(xn(v) for v in s[1])
    if k == 'O':
        return '(O %s)' % ' '.join('(%s %s)' % (xb(n), xn(v)) for n, v in s[1])
    raise ValueError(s)


def x_limit(l):
    return xopt(l, xn)


def x_target(t):
    return 'NC' if t == 'NC' else '(D %s)' % x_limit(t[1])


# ---------------------------------------------------------------- plain runs (the evaluation oracle)

class Plain:
    """plain runs of the real binary: default output mode, program on the command line,
    stdout to a pipe.  Cached by argument vector and environment."""

    def __init__(self, cli, cwd):
        self.cli = cli
        self.cwd = cwd
        self.cache = {}
        self.locks = {}
        self.big = threading.Lock()
        self.runs = 0

    def run(self, sargs, expr, env=None):
        key = (tuple(sargs), expr, tuple(sorted((env or {}).items())))
        with self.big:
            lk = self.locks.setdefault(key, threading.Lock())
        with lk:
            return self._run(key, sargs, expr, env)

    def _run(self, key, sargs, expr, env):
        if key in self.cache:
            return self.cache[key]
        e = dict(os.environ)
        e['NO_COLOR'] = '1'
        if env:
            e.update(env)
        p = subprocess.run([self.cli] + list(sargs) + ['-e', expr], cwd=self.cwd, env=e,
                           stdout=subprocess.PIPE, stderr=subprocess.PIPE, timeout=120)
        self.runs += 1
        r = (p.returncode, p.stdout, p.stderr)
        self.cache[key] = r
        return r


DEEP = ('local __deep(v) = if std.isArray(v) then std.foldl(function(a, x) a && __deep(x), v, true) '
        'else if std.isObject(v) then std.foldl(function(a, k) a && __deep(v[k]), std.objectFields(v), true) else true; ')
DESC = ('local __d(v, n) = { t: std.type(v) } + '
        '(if std.isString(v) then { s: v } else {}) + '
        '(if std.isFunction(v) then { n: std.length(v) } else {}) + '
        '(if std.isArray(v) then { items: if n > 0 then [__d(x, n - 1) for x in v] else std.length(v) } else {}) + '
        '(if std.isObject(v) then { fields: if n > 0 then [[k, __d(v[k], n - 1)] for k in std.objectFields(v)] else std.objectFields(v) } else {}); ')


def jstr(s):
    """a Jsonnet string literal denoting the Python string s"""
    return json.dumps(s)


class WorldBuilder:
    """turns a program + session arguments into the oracle tables of a world"""

    def __init__(self, plain, model_exe):
        self.plain = plain
        self.model_exe = model_exe
        self.cache = {}

    def bind(self, params, named):
        """ask the model how top-level arguments bind (params: [(name, has_default)],
        named: [(name, thunk)])"""
        case = '%s %s' % (xlist(params, lambda p: '(%s %s)' % (xb(p[0]), xbool(p[1]))),
                          xlist(named, lambda a: '(%s %s)' % (xb(a[0]), x_thunk(a[1]))))
        res = vlib.run_lines(self.model_exe, ['b\tbind\t' + case], timeout=60)
        return res.get('b', 'NOOUTPUT')

    def loads(self, code, sargs=()):
        """does this source load (lex, parse, static checks)?"""
        rc, out, err = self.plain.run([], 'local __x = (%s\n); 0' % code)
        return rc == 0

    def value_tables(self, sargs, expr, env, depths=(0, 1, 2)):
        """describe the deep-evaluated value of expr: returns (vid or None, shape table,
        manifest table).  vids are allocated depth-first from 1.  Only nodes at the given
        depths (0 = the value, 1 = its items / fields, 2 = theirs) are manifested — the ones
        the case's output mode can ask for; the others are left out of the table."""
        rc, out, err = self.plain.run(sargs, DEEP + DESC + 'local __v = (%s\n); if __deep(__v) then __d(__v, 2) else null' % expr, env)
        if rc != 0:
            return None, {}, {}
        desc = json.loads(out.decode('utf-8'), strict=False)
        shapes, manifest = {}, {}
        counter = [0]

        def man(e):
            rc, out, err = self.plain.run(sargs, 'local __v = (%s\n); %s' % (expr, e), env)
            if rc != 0:
                return None
            assert out.endswith(b'\n')
            return out[:-1]

        def walk(d, access, depth):
            counter[0] += 1
            vid = counter[0]
            if depth in depths:
                manifest[vid] = man(access)
            t = d['t']
            if t == 'string':
                shapes[vid] = ('S', d['s'].encode('utf-8'))
            elif t == 'function':
                shapes[vid] = ('F', None)     # parameters are filled in by the caller
            elif t == 'array' and depth < 2:
                shapes[vid] = ('A', [walk(x, '%s[%d]' % (access, i), depth + 1) for i, x in enumerate(d['items'])])
            elif t == 'object' and depth < 2:
                shapes[vid] = ('O', [(k.encode('utf-8'), walk(x, '%s[%s]' % (access, jstr(k)), depth + 1)) for k, x in d['fields']])
            else:
                shapes[vid] = ('X',)
            return vid

        root = walk(desc, '__v', 0)
        return root, shapes, manifest


def manifest_depths(c):
    """which nodes' JSON the output mode of the case can ask for"""
    if c['S']:
        return ()
    d = 1 if c['y'] else 0
    if c['m']:
        d += 1
    return (d,)


# ---------------------------------------------------------------- cases

EXT_KINDS = ['es', 'esf', 'ec', 'ecf']
TLA_KINDS = ['ts', 'tsf', 'tc', 'tcf']
FLAG = {'es': '--ext-str', 'esf': '--ext-str-file', 'ec': '--ext-code', 'ecf': '--ext-code-file',
        'ts': '--tla-str', 'tsf': '--tla-str-file', 'tc': '--tla-code', 'tcf': '--tla-code-file'}


def default_case():
    return {'src': '1', 'func': None, 'in': 'e', 'S': False, 'y': False, 'ntn': False, 'm': None, 'o': None,
            'so': 'pipe', 's': None, 't': None, 'vars': [], 'env': {}, 'files': {}, 'bad_argv': None,
            'expect_rc': None, 'expect_stdout': None, 'jpath': []}


def mk(**kw):
    c = default_case()
    c.update(kw)
    return c


def split_var(raw):
    if '=' in raw:
        k, v = raw.split('=', 1)
        return k, v
    return raw, None


class CaseRunner:
    def __init__(self, cli, model_exe, tmp_root):
        self.cli = cli
        self.model_exe = model_exe
        self.tmp_root = tmp_root
        self.plain_dir = os.path.join(tmp_root, 'plain')
        os.makedirs(self.plain_dir, exist_ok=True)
        self.plain = Plain(cli, self.plain_dir)
        self.wb = WorldBuilder(self.plain, model_exe)
        self.n = 0

    # ---- argument vector and scratch directory

    def argv(self, c):
        a = []
        if c['S']:
            a.append('-S')
        if c['y']:
            a.append('-y')
        if c['ntn']:
            a.append('--no-trailing-newline')
        if c['s'] is not None:
            a += ['-s', str(c['s'])]
        if c['t'] is not None:
            a += ['-t', str(c['t'])]
        if c['m'] is not None:
            a += ['-m', self.mdir(c)]
        if c['o'] is not None:
            a += ['-o', self.opath(c)]
        for j in c['jpath']:
            a += ['-J', j]
        for kind, raw in c['vars']:
            a += [FLAG[kind], raw]
        if c['bad_argv'] is not None:
            a += c['bad_argv']
        k = c['in']
        if k == 'e':
            a += ['-e', '--', c['src']]
        elif k in ('stdin', 'stdin_closed', 'stdin_dir'):
            a += ['-']
        elif k == 'file':
            a += ['in.jsonnet']
        elif k == 'missing':
            a += ['nothere.jsonnet']
        elif k == 'dirinput':
            a += ['adir']
        elif k == 'none':
            pass
        return a

    def mdir(self, c):
        return {'ok': 'mdir', 'okslash': 'mdir/', 'missing': 'nomdir', 'isfile': 'afile'}.get(c['m'].split(':')[0], 'mdir')

    def opath(self, c):
        return {'ok': 'out.txt', 'exists': 'old.txt', 'dir': 'adir', 'nodir': 'nodir/out.txt',
                'notdir': 'afile/out.txt', 'full': '/dev/full'}[c['o']]

    def limit(self, c):
        return int(c['so'].split(':')[1]) if c['so'].startswith('limit:') else None

    def target_of(self, c, path):
        """how the scratch directory answers fs::write(path)"""
        lim = self.limit(c)
        dev = ('D', lim)
        if path == '/dev/full':
            return ('D', 0)
        if path in ('out.txt', 'old.txt'):
            return dev
        if path in ('adir', 'mdir', 'mdir/') or path.startswith('nodir/') or path.startswith('afile/') or path.startswith('nomdir/'):
            return 'NC'
        if path.startswith('mdir/'):
            name = path[len('mdir/'):].lstrip('/')
            if c['m'] and c['m'].startswith('ok:full=') and name == c['m'][len('ok:full='):]:
                return ('D', 0)
            if name == '' or '/' in name or name in ('.', '..'):
                return 'NC'
            return dev
        return 'NC'

    def setup(self, c, d):
        os.mkdir(os.path.join(d, 'adir'))
        os.mkdir(os.path.join(d, 'mdir'))
        open(os.path.join(d, 'afile'), 'wb').write(b'AFILE')
        open(os.path.join(d, 'old.txt'), 'wb').write(b'OLD CONTENT\n')
        open(os.path.join(d, 'in.jsonnet'), 'wb').write(c['src'].encode('utf-8'))
        self.put_files(c, d)
        if c['m'] and c['m'].startswith('ok:full='):
            os.symlink('/dev/full', os.path.join(d, 'mdir', c['m'][len('ok:full='):]))

    @staticmethod
    def put_files(c, d, only_nested=False):
        for name, content in c['files'].items():
            if only_nested and '/' not in name:
                continue
            p = os.path.join(d, name)
            os.makedirs(os.path.dirname(p), exist_ok=True)
            data = content.encode('utf-8') if isinstance(content, str) else bytes(content)
            if not (os.path.exists(p) and open(p, 'rb').read() == data):
                open(p, 'wb').write(data)

    def snapshot(self, d):
        snap = {}
        for root, dirs, files in os.walk(d):
            for f in files:
                p = os.path.join(root, f)
                if os.path.islink(p):
                    continue
                snap[os.path.relpath(p, d)] = open(p, 'rb').read()
        return snap

    def real(self, c):
        """run the real binary on the case; returns the observation"""
        d = tempfile.mkdtemp(prefix='case.', dir=self.tmp_root)
        sofile = None
        try:
            self.setup(c, d)
            before = self.snapshot(d)
            argv = [self.cli] + self.argv(c)
            env = dict(os.environ)
            env['NO_COLOR'] = '1'
            for k in list(env):
                if k.startswith('C12V_'):
                    del env[k]
            env.update(c['env'])
            stdin = subprocess.DEVNULL
            data = None
            redir = ''
            if c['in'] == 'stdin':
                stdin = subprocess.PIPE
                data = c['src'].encode('utf-8')
            elif c['in'] == 'stdin_closed':
                stdin = None
                redir += ' <&-'
            elif c['in'] == 'stdin_dir':
                stdin = os.open(d, os.O_RDONLY)
            so = c['so']
            pre = ''
            if so == 'pipe':
                stdout = subprocess.PIPE
            elif so == 'full':
                stdout = open('/dev/full', 'wb')
            elif so == 'closed':
                stdout = None
                redir += ' >&-'
            else:
                sofile = d + '.stdout'
                stdout = open(sofile, 'wb')
                pre = 'trap "" XFSZ; exec prlimit --fsize=%d ' % self.limit(c)
            if redir or pre:
                argv = ['sh', '-c', (pre if pre else 'exec ') + '"$@"' + redir, 'x'] + argv
            try:
                p = subprocess.run(argv, cwd=d, env=env, input=data, stdin=None if data is not None else stdin,
                                   stdout=stdout, stderr=subprocess.PIPE, timeout=120)
            finally:
                if hasattr(stdout, 'close'):
                    stdout.close()
                if isinstance(stdin, int) and stdin >= 0 and c['in'] == 'stdin_dir':
                    os.close(stdin)
            if so == 'pipe':
                out = p.stdout
            elif sofile:
                out = open(sofile, 'rb').read()
            else:
                out = None        # not observable (device swallows it)
            after = self.snapshot(d)
            return {'rc': p.returncode, 'stdout': out, 'stderr': p.stderr, 'before': before, 'after': after}
        finally:
            shutil.rmtree(d, ignore_errors=True)
            if sofile and os.path.exists(sofile):
                os.remove(sofile)

    # ---- the world of a case, as tables

    def session_args(self, c):
        """arguments that configure the session (passed to the plain runs as they are)"""
        a = []
        if c['s'] is not None:
            a += ['-s', str(c['s'])]
        for j in c['jpath']:
            a += ['-J', j]
        if c['jpath']:
            self.put_files(c, self.plain_dir, only_nested=True)
        for kind, raw in c['vars']:
            if kind in EXT_KINDS:
                # file-based kinds are handed to the plain runs by content (the plain runs share one directory)
                name, val = split_var(raw)
                content = c['files'].get(val) if kind in ('esf', 'ecf') else None
                if isinstance(content, str):
                    a += [FLAG[kind[:-1]], '%s=%s' % (name, content)]
                else:
                    a += [FLAG[kind], raw]
        return a

    def thunk_of_var(self, c, kind, raw, tabs):
        """what the glue turns a var argument into; fills env/read/load tables.  Returns
        ('S', bytes) | ('L', id) | None, and the Jsonnet expression denoting the thunk"""
        name, val = split_var(raw)
        base = kind[1:]
        if base == 's':
            if val is None:
                if name in c['env']:
                    val = c['env'][name]
                    tabs['env'].append((name, ('V', val)))
                else:
                    tabs['env'].append((name, 'N'))
                    return None, None
            return ('S', val.encode('utf-8')), jstr(val)
        if base == 'sf':
            content = c['files'].get(val)
            if content is None:
                tabs['read'].append((val, 'F'))
                return None, None
            if not isinstance(content, str):
                try:
                    content = bytes(content).decode('utf-8')
                except UnicodeDecodeError:
                    tabs['read'].append((val, 'N8'))
                    return None, None
            tabs['read'].append((val, ('V', content)))
            return ('S', content.encode('utf-8')), jstr(content)
        if base == 'c':
            if val is None:
                if name in c['env']:
                    val = c['env'][name]
                    tabs['env'].append((name, ('V', val)))
                else:
                    tabs['env'].append((name, 'N'))
                    return None, None
            prefix = 'ext' if kind[0] == 'e' else 'tla'
            ok = self.wb.loads(val)
            lid = tabs['next_id'][0] if ok else None
            if ok:
                tabs['next_id'][0] += 1
            tabs['load_virt'].append(('<%s:%s>' % (prefix, name), val, lid))
            return (('L', lid), '(%s\n)' % val) if ok else (None, None)
        if base == 'cf':
            content = c['files'].get(val)
            ok = isinstance(content, str) and self.wb.loads(content)
            lid = tabs['next_id'][0] if ok else None
            if ok:
                tabs['next_id'][0] += 1
            tabs['load_real'].append((val, lid))
            return (('L', lid), '(%s\n)' % content) if ok else (None, None)
        raise ValueError(kind)

    def world(self, c):
        """tables for the model; also returns 'views': what the plain runs say the modes must show"""
        tabs = {'env': [], 'read': [], 'load_virt': [], 'load_real': [], 'eval': [], 'shape': {}, 'call': [],
                'manifest': {}, 'next_id': [100]}
        views = {'final': None}
        src = c['src']
        # root load
        k = c['in']
        stdin = None
        root_ok = k in ('stdin_closed', 'stdin_dir', 'missing', 'dirinput', 'none') or self.wb.loads(src)
        root = 1 if root_ok else None
        if k == 'e':
            tabs['load_virt'].append(('<cmdline>', src, root))
        elif k == 'stdin':
            stdin = src.encode('utf-8')
            tabs['load_virt'].append(('<stdin>', src, root))
        elif k == 'stdin_closed':
            stdin = b''                      # std reports a closed descriptor 0 as end of file
            tabs['load_virt'].append(('<stdin>', '', None))
            root = None
        elif k == 'stdin_dir':
            stdin = None                     # read_to_end fails
            root = None
        elif k == 'file':
            tabs['load_real'].append(('in.jsonnet', root))
        elif k == 'missing':
            tabs['load_real'].append(('nothere.jsonnet', None))
            root = None
        elif k == 'dirinput':
            tabs['load_real'].append(('adir', None))
            root = None
        # ext / tla thunks, in the order the glue processes them (by kind)
        sargs = self.session_args(c)
        tla = []
        var_fail = False
        seen_ext = set()
        for kind in EXT_KINDS + TLA_KINDS:
            for kk, raw in c['vars']:
                if kk != kind:
                    continue
                name = split_var(raw)[0]
                if kind in EXT_KINDS:
                    if name in seen_ext:
                        var_fail = True
                        break
                    seen_ext.add(name)
                th, expr = self.thunk_of_var(c, kind, raw, tabs)
                if th is None:
                    var_fail = True
                    break
                if kind in TLA_KINDS:
                    tla.append((name, th, expr))
            if var_fail:
                break
        views['var_fail'] = var_fail
        if root is not None and not var_fail:
            # evaluation of the root thunk (deep), then the call when it is a function
            vid, shapes, manifest = self.wb.value_tables(sargs, src, c['env'], manifest_depths(c))
            tabs['eval'].append((('L', root), vid))
            if vid is not None:
                final_expr = src
                if shapes[vid][0] == 'F':
                    if c['func'] is None:
                        raise RuntimeError('function-valued program without a parameter description: %r' % src)
                    params = [(p[0], p[1] is not None) for p in c['func']['params']]
                    shapes[vid] = ('F', [(n.encode('utf-8'), d) for n, d in params])
                    b = self.wb.bind(params, [(n, th) for n, th, _ in tla])
                    views['bind'] = b
                    if b.startswith('OK'):
                        bs = [x for x in b[3:].split(',') if x] if len(b) > 3 else []
                        bindings = []
                        locs = []
                        for (pname, pdef), bx in zip(c['func']['params'], bs):
                            if bx == 'D':
                                bindings.append('D')
                                locs.append('%s = (%s)' % (pname, pdef))
                            else:
                                th = next(t for n, t, _ in tla if n == pname and self.show_thunk(t) == bx)
                                ex = next(e for n, t, e in tla if n == pname and self.show_thunk(t) == bx)
                                bindings.append(('A', th))
                                locs.append('%s = %s' % (pname, ex))
                        final_expr = ('local %s; ' % ', '.join(locs) if locs else '') + c['func']['body']
                        # the called body's value gets fresh ids above the function's
                        v2, shapes2, manifest2 = self.wb.value_tables(sargs, final_expr, c['env'], manifest_depths(c))
                        off = 1000
                        if v2 is not None:
                            for kx, sh in shapes2.items():
                                if sh[0] == 'A':
                                    sh = ('A', [x + off for x in sh[1]])
                                elif sh[0] == 'O':
                                    sh = ('O', [(n, x + off) for n, x in sh[1]])
                                elif sh[0] == 'F':
                                    sh = ('F', [])
                                shapes[kx + off] = sh
                            for kx, mv in manifest2.items():
                                manifest[kx + off] = mv
                        tabs['call'].append((vid, bindings, None if v2 is None else v2 + off))
                        views['final'] = None if v2 is None else (final_expr, v2 + off)
                    else:
                        views['final'] = None
                else:
                    views['final'] = (final_expr, vid) if not tla else None
                for kx, sh in shapes.items():
                    if sh[0] == 'F' and sh[1] is None:
                        shapes[kx] = ('F', [])
                tabs['shape'] = shapes
                tabs['manifest'] = manifest
                if views['final']:
                    # the plain manifestation of the same program: what every mode must be a view of
                    prc, pout, perr = self.plain.run(sargs, 'local __v = (%s\n); __v' % views['final'][0], c['env'])
                    views['plain'] = json.loads(pout.decode('utf-8'), strict=False) if prc == 0 else 'FAIL'
        return tabs, stdin, views

    @staticmethod
    def show_thunk(t):
        return 'S' + t[1].hex() if t[0] == 'S' else 'L%x' % t[1]

    def sexp(self, c, tabs, stdin):
        vars_by = {k: [raw for kk, raw in c['vars'] if kk == k] for k in EXT_KINDS + TLA_KINDS}
        k = c['in']
        inp = {'e': c['src'], 'stdin': '-', 'stdin_closed': '-', 'stdin_dir': '-', 'file': 'in.jsonnet',
               'missing': 'nothere.jsonnet', 'dirinput': 'adir', 'none': ''}[k]
        cfg = '(%s %s %s %s %s %s %s %s %s %s %s)' % (
            xb(inp), xbool(k == 'e'), xlist(c['jpath'], xb),
            xopt(self.opath(c) if c['o'] else None, xb), xopt(self.mdir(c) if c['m'] else None, xb),
            xbool(c['y']), xbool(c['S']), xbool(c['ntn']), xopt(c['s'], xn), xopt(c['t'], xn),
            ' '.join(xlist(vars_by[kk], xb) for kk in EXT_KINDS + TLA_KINDS))
        # targets: every path the model may write
        paths = set()
        if c['o']:
            paths.add(self.opath(c))
        if c['m']:
            md = self.mdir(c)
            for sh in tabs['shape'].values() if tabs['shape'] else []:
                if sh[0] == 'O':
                    for n, _ in sh[1]:
                        nm = n.decode('utf-8')
                        paths.add(nm if nm.startswith('/') else (md + nm if md.endswith('/') else md + '/' + nm))
        so = c['so']
        sodev = {'pipe': '(D ())', 'full': '(D (n0))', 'closed': 'C'}.get(so) or '(D (%s))' % xn(self.limit(c))
        env_ans = lambda a: 'N' if a == 'N' else '(V %s)' % xb(a[1])
        read_ans = lambda a: a if a in ('F', 'N8') else '(V %s)' % xb(a[1])
        x_binding = lambda b: 'D' if b == 'D' else '(A %s)' % x_thunk(b[1])
        world = '(%s 0 %s %s %s %s %s %s %s %s %s %s %s %s)' % (
            xbool(c['bad_argv'] is None and k != 'none'),
            xopt(stdin, xb),
            xlist(tabs['env'], lambda e: '(%s %s)' % (xb(e[0]), env_ans(e[1]))),
            xlist(tabs['read'], lambda e: '(%s %s)' % (xb(e[0]), read_ans(e[1]))),
            xlist(tabs['load_virt'], lambda e: '(%s %s %s)' % (xb(e[0]), xb(e[1]), xopt(e[2], xn))),
            xlist(tabs['load_real'], lambda e: '(%s %s)' % (xb(e[0]), xopt(e[1], xn))),
            xlist(tabs['eval'], lambda e: '(%s %s)' % (x_thunk(e[0]), xopt(e[1], xn))),
            xlist(sorted(tabs['shape'].items()), lambda e: '(%s %s)' % (xn(e[0]), x_shape(e[1]))),
            xlist(tabs['call'], lambda e: '(%s %s %s)' % (xn(e[0]), xlist(e[1], x_binding), xopt(e[2], xn))),
            xlist(sorted(tabs['manifest'].items()), lambda e: '(%s %s)' % (xn(e[0]), xopt(e[1], xb))),
            xlist(sorted(paths), lambda p: '(%s %s)' % (xb(p), x_target(self.target_of(c, p)))),
            sodev, xn(BUFCAP))
        return cfg + ' ' + world


def parse_model_result(s):
    f = s.split('\t')
    if len(f) < 3 or f[0].startswith('MODELEXC'):
        return None
    files = []
    if len(f) > 3 and f[3]:
        for item in f[3].split(';'):
            p, e = item.split('=', 1)
            path = bytes.fromhex(p[1:]).decode('utf-8')
            if e == 'N':
                files.append((path, None, False))
            else:
                ok = e[1] == '1'
                files.append((path, bytes.fromhex(e[3:]), ok))
    return {'rc': int(f[0], 16), 'stdout': bytes.fromhex(f[1][1:]), 'stderr': f[2] == '1', 'files': files}


def expected_fs(before, files, skip=()):
    fs = dict(before)
    for path, acc, ok in files:
        if acc is None:
            continue
        if path == '/dev/full' or path.startswith('/') or os.path.normpath(path) in skip:
            continue
        fs[os.path.normpath(path)] = acc
    return fs


# ---------------------------------------------------------------- oracle on the implementation alone

def case_key(c):
    return json.dumps({k: c[k] for k in sorted(c)}, sort_keys=True, default=str)


def mode_tag(c):
    return '%s%s%s%s%s' % ('S' if c['S'] else '', 'y' if c['y'] else '', 'n' if c['ntn'] else '',
                           'm' if c['m'] else '', 'o' if c['o'] else '')


def oracle(runner, c, obs, tabs, views, good):
    """property oracle on the implementation alone.  [good] = observation of the same
    argument vector with healthy sinks (pipe, writable -o) when this case has a faulty one.
    Returns a list of (key, description)."""
    out = []
    rc = obs['rc']
    if rc not in (0, 1, 2):
        out.append(('exit-status-not-012', 'exit status %d' % rc))
        return out
    opath = runner.opath(c) if c['o'] else None
    lim = runner.limit(c)
    # what the case was constructed to show (known independently of any run)
    if c.get('expect_rc') is not None and rc != c['expect_rc']:
        out.append(('expected-exit-%d' % c['expect_rc'], 'exit %d where the construction of the case requires %d' % (rc, c['expect_rc'])))
    if c.get('expect_stdout') is not None and obs['stdout'] is not None and obs['stdout'] != c['expect_stdout'].encode('utf-8'):
        out.append(('expected-stdout', 'stdout %r where the construction of the case requires %r' % (obs['stdout'][:80], c['expect_stdout'][:80])))
    if rc != 0:
        if not obs['stderr']:
            out.append(('failure-without-stderr', 'exit %d with empty stderr' % rc))
        if obs['stdout'] and lim is None:
            out.append(('failure-with-stdout', 'exit %d but %d bytes on stdout' % (rc, len(obs['stdout']))))
        if opath and not opath.startswith('/') and lim is None:
            b, a = obs['before'].get(opath), obs['after'].get(opath)
            if a is not None and a != b and a != b'':
                out.append(('failure-with-output-file', 'exit %d but the -o file holds %d bytes' % (rc, len(a))))
    if c['bad_argv'] is not None or c['in'] == 'none' or (c['S'] and c['y']):
        if rc != 2:
            out.append(('usage-error-not-2', 'usage error answered with exit %d' % rc))
        return out
    if rc == 2:
        out.append(('exit-2-without-usage-error', 'exit 2 for a well-formed command line'))
        return out
    # write failures: the sink cannot have taken the complete output, yet exit 0
    if good is not None and good['rc'] == 0 and rc == 0:
        want = good['after'].get(runner.opath(dict(c, o='ok'))) if c['o'] else good['stdout']
        if want is None:
            want = b''
        got_all = True
        if c['o']:
            if c['o'] == 'full':
                got_all = (want == b'')
            elif c['o'] in ('dir', 'nodir', 'notdir'):
                got_all = False
            elif lim is not None:
                got_all = obs['after'].get(opath) == want
        else:
            if c['so'] == 'full':
                got_all = (want == b'')
            elif lim is not None:
                got_all = (obs['stdout'] == want)
            elif c['so'] == 'closed':
                got_all = None          # assumed std behaviour, reported separately
        if got_all is False:
            out.append(('write-failure-exit0' + ('-ofile' if c['o'] else '-stdout'),
                        'exit 0 although the %s could not take the %d-byte output' % ('-o file' if c['o'] else 'standard output', len(want))))
    # mode views against the plain views
    if rc == 0 and views.get('final') and c['so'] == 'pipe' and (c['o'] in (None, 'ok', 'exists')):
        expr, vid = views['final']
        text = obs['after'].get(opath) if c['o'] else obs['stdout']
        nl = b'' if c['ntn'] else b'\n'
        sh = tabs['shape'].get(vid)

        def repr_of(v):
            s = tabs['shape'].get(v)
            if c['S']:
                return s[1] + nl if s[0] == 'S' else None
            if c['y']:
                if s[0] != 'A':
                    return None
                items = [tabs['manifest'].get(i) for i in s[1]]
                if any(i is None for i in items):
                    return None
                return b''.join(b'---\n' + i + b'\n' for i in items) + (b'...' + nl if items else b'')
            m = tabs['manifest'].get(v)
            return None if m is None else m + nl
        plain = views.get('plain', 'FAIL')
        if plain == 'FAIL':
            out.append(('mode-succeeds-plain-fails', 'mode %s succeeded on a program whose plain manifestation fails' % mode_tag(c)))
        elif c['m']:
            md = runner.mdir(c)
            if sh[0] != 'O' or not isinstance(plain, dict):
                out.append(('multi-non-object-exit0', 'multi mode succeeded on a non-object'))
            else:
                # one file per field of the plain JSON manifestation (= the visible fields), in that order
                by_name = {n.decode('utf-8'): v for n, v in sh[1]}
                if list(plain.keys()) != [n.decode('utf-8') for n, _ in sh[1]]:
                    out.append(('visible-fields-disagree', 'std.objectFields gives %r, the plain manifestation has %r'
                                % ([n.decode('utf-8') for n, _ in sh[1]], list(plain.keys()))))
                want_files = {}
                listing = b''
                for name in plain.keys():
                    p = (md if md.endswith('/') else md + '/') + name
                    want_files[os.path.normpath(p)] = repr_of(by_name[name]) if name in by_name else None
                    listing += p.encode('utf-8') + b'\n'
                if text != listing:
                    out.append(('multi-listing', 'multi listing %r differs from the visible fields %r' % (text, listing)))
                if c['m'].startswith('ok:full='):
                    want_files.pop('mdir/' + c['m'][len('ok:full='):], None)     # a symbolic link to /dev/full, not in the snapshot
                new = {p: v for p, v in obs['after'].items() if obs['before'].get(p) != v and p != opath}
                if new != want_files:
                    out.append(('multi-files', 'multi files %r differ from the visible fields\' views %r' % (sorted(new), sorted(want_files))))
        else:
            want = repr_of(vid)
            if c['S'] and not (isinstance(plain, str) and text == plain.encode('utf-8') + nl):
                out.append(('mode-view-string-vs-plain', 'mode %s printed %r, the plain manifestation is %r' % (mode_tag(c), text[:80], str(plain)[:80])))
            if c['y'] and not c['S'] and not (isinstance(plain, list) and text.count(b'---\n') >= len(plain)
                                              and (sh[0] == 'A' and len(sh[1]) == len(plain))):
                out.append(('mode-view-yaml-vs-plain', 'mode %s printed %d documents, the plain manifestation has %s elements'
                            % (mode_tag(c), text.count(b'---\n'), len(plain) if isinstance(plain, list) else 'no')))
            if want is None:
                out.append(('mode-type-mismatch-exit0', 'mode %s succeeded on a value of the wrong type' % mode_tag(c)))
            elif text != want:
                out.append(('mode-view-' + ('string' if c['S'] else 'yaml' if c['y'] else 'json'),
                            'mode %s printed %r, the plain views give %r' % (mode_tag(c), text[:80], want[:80])))
    return out


# ---------------------------------------------------------------- generators

STRINGS = ['abc', '', 'line1\nline2', 'ends with newline\n', 'tab\there', 'q"uo\'te\\back', 'ünï-日本-\U0001D11E',
           '---\n...', 'a' * 1023, 'b' * 1024, 'c' * 1500, 'first\n' + 'd' * 1030, 'x\n' + 'e' * 20]
VAR_VALUES = ['plain', 'x=y', '=lead', 'a"b\'c\\d', 'line\nbreak', 'é日本\U0001D11E', '', ' sp ace ', '--dash', '{"j": 1}']


def gen_programs(rng, tier):
    """(tag, src, func) — values of each type the modes care about, plus failing ones"""
    js = json.dumps
    progs = []
    for s in (STRINGS if tier == 'thorough' else rng.sample(STRINGS[:9], 3) + rng.sample(STRINGS[9:], 2)):
        progs.append(('string', js(s), None))
    progs.append(('string-computed', '"a" + "b" + std.toString(1 + 2)', None))
    arrays = ['[]', '[1, "a\\nb", {b: [2, 3]}, null, true]', '["x", "y"]', '[[1, 2], [], [[3]]]',
              '[std.repeat("z", 600), std.repeat("w", 700)]', '[1, function(x) x]', '[1, error "boom", 3]']
    for a in (arrays if tier == 'thorough' else arrays[:2] + rng.sample(arrays[2:], 2)):
        progs.append(('array', a, None))
    objects = ['{}', '{a: "x", b: "y\\n", "c d": "é"}', '{a: 1, b: [1, 2], c: {d: null}}', '{a: "s", b: 2}',
               '{a: [1], b: [], c: ["q"]}', '{a: 1, h:: 2, c: self.h}', '{b: 1, a: 2, "Z": 3, "é": 4}',
               '{a: 1, b: function(x) x}', '{a: 1, b: error "boom"}', '{assert false : "no", a: 1}',
               '{[k]: k + "!" for k in ["p", "q"]}', '{"sub/x": 1, a: 2}', '{"": 1}', '{a: "x"} + {a+: "y", b: "z"}']
    vis = ['{a: 1, b:: 2, c::: 3}', '{a:: "hid"} + {a::: "shown", b: "t"}',
           '{a: 1, b: 2} + {a:: 3}', '{a:: 1, b::: [2], c: [3]} + {a: 10, b: [20], c: [30]}', '{a::: 1} + {a:: 2} + {a: 3, z::: null}',
           'local base = {x:: "hx", y: "y"}; base + {x::: super.x + "!", z::: {deep::: [1], hid:: 2}}',
           '{["k" + std.toString(i)]::: [i, {n::: i, h:: 0}] for i in [1, 2]}', '{["c" + "1"]::: "v", [if true then "d"]: "w", [null]: "x", e:: "y"}',
           '{a::: ["p"], b: [], c:: ["never"]}', '{o::: {i::: {j::: 1, k:: 2}}, p: {q:: 3}}']
    if tier == 'thorough':
        picked = objects + vis
    else:
        picked = objects[:3] + rng.sample(objects[3:], 2) + vis[:2] + rng.sample(vis[2:], 2)
    for o in picked:
        progs.append(('object', o, None))
    others = ['1', 'null', 'true', '1.5e300', 'error "top"', '1 +', '{a: 1', 'local x = y; 1', 'std.extVar("nope")', '"unterminated']
    for o in (others if tier == 'thorough' else others[:1] + rng.sample(others[1:], 3)):
        progs.append(('other', o, None))
    return progs


FUNCS = [
    ('function(a, b=2) [a, b]', {'params': [['a', None], ['b', '2']], 'body': '[a, b]'}),
    ('function(a="da", b=a + "!") {a: a, b: b}', {'params': [['a', '"da"'], ['b', 'a + "!"']], 'body': '{a: a, b: b}'}),
    ('function() "no params"', {'params': [], 'body': '"no params"'}),
    ('function(x) x', {'params': [['x', None]], 'body': 'x'}),
    ('function(s, t="T") s + t', {'params': [['s', None], ['t', '"T"']], 'body': 's + t'}),
    ('function(a, b, c=3) std.toString(a) + "," + std.toString(b) + "," + std.toString(c)',
     {'params': [['a', None], ['b', None], ['c', '3']], 'body': 'std.toString(a) + "," + std.toString(b) + "," + std.toString(c)'}),
    ('function(v) error "in body"', {'params': [['v', None]], 'body': 'error "in body"'}),
]


def gen_cases(rng, tier):
    cases = []
    progs = gen_programs(rng, tier)
    inkinds = ['e', 'stdin', 'file']
    # A. the mode matrix over typed values
    for i, (tag, src, func) in enumerate(progs):
        combos = list(itertools.product([False, True], [False, True], [False, True], [None, 'ok'], [None, 'ok']))
        if tier != 'thorough':
            keep = [x for x in combos if not (x[0] and x[1])]
            usage = [x for x in combos if x[0] and x[1]]
            if tag == 'object':
                # objects are what -m is about: half of their combinations use it
                combos = rng.sample([x for x in keep if x[3]], 3) + rng.sample([x for x in keep if not x[3]], 2)
            else:
                combos = rng.sample(keep, 6 if tag in ('string', 'array') else 3)
            combos += rng.sample(usage, 1 if i % 6 == 0 else 0)
        s_prog = rng.choice([None, None, 200, 1000])
        for j, (S, y, ntn, m, o) in enumerate(combos):
            ins = inkinds if (tier == 'thorough' and j % 5 == 0) else [inkinds[(i + j) % 3]]
            for ik in ins:
                mm = m
                if m and rng.random() < 0.15:
                    mm = 'okslash'
                oo = o
                if o and rng.random() < 0.2:
                    oo = 'exists'
                cases.append(mk(src=src, func=func, S=S, y=y, ntn=ntn, m=mm, o=oo, **{'in': ik},
                                s=s_prog, t=rng.choice([None, None, 0, 3, 20])))
    # B. sink faults
    fault_progs = [p for p in progs if p[0] in ('string', 'array', 'object') and 'error' not in p[1]]
    sinks = ['full', 'closed', 'limit:0', 'limit:1', 'limit:5', 'limit:40', 'limit:1030']
    n_b = len(fault_progs) * (len(sinks) if tier == 'thorough' else 2)
    for i in range(n_b):
        tag, src, func = fault_progs[i % len(fault_progs)]
        S = tag == 'string' and rng.random() < 0.8
        y = tag == 'array' and rng.random() < 0.7
        so = sinks[i % len(sinks)] if tier == 'thorough' else rng.choice(sinks)
        m = None
        if tag == 'object' and rng.random() < 0.7:
            m = rng.choice(['ok', 'missing', 'isfile', 'ok:full=a', 'ok:full=b'])
            S = rng.random() < 0.3
        cases.append(mk(src=src, func=func, S=S, y=y, ntn=rng.random() < 0.6, m=m, so=so,
                        **{'in': rng.choice(inkinds)}))
    for i in range(len(fault_progs) * (3 if tier == 'thorough' else 1)):
        tag, src, func = fault_progs[i % len(fault_progs)]
        cases.append(mk(src=src, func=func, S=(tag == 'string'), y=(tag == 'array' and rng.random() < 0.5),
                        ntn=rng.random() < 0.5, m=('ok' if tag == 'object' and rng.random() < 0.5 else None),
                        o=rng.choice(['dir', 'nodir', 'notdir', 'full', 'exists', 'ok']),
                        so=rng.choice(['pipe', 'pipe', 'closed', 'full', 'limit:3']), **{'in': rng.choice(inkinds)}))
    # C. input faults and usage errors
    for ik in ['missing', 'dirinput', 'stdin_closed', 'stdin_dir']:
        for S, o in [(False, None), (True, 'exists'), (False, 'ok')]:
            cases.append(mk(src='"never read"', S=S, o=o, m=('ok' if o is None and S is False and ik == 'missing' else None), **{'in': ik}))
    for bad in [['--bogus'], ['-s', 'x'], ['-s', '-1'], ['-o', 'a', '-o', 'b'], ['--ext-str-file', 'noeq'], ['--tla-code-file', 'noeq'],
                ['-m', ''], ['--help'], ['-t']]:
        cases.append(mk(src='1', bad_argv=bad, o=rng.choice([None, 'exists'])))
    cases.append(mk(src='1', **{'in': 'none'}))
    # D. external variables
    vals = VAR_VALUES if tier == 'thorough' else rng.sample(VAR_VALUES, 3)
    for i, v in enumerate(vals):
        nl = '' if i % 2 == 0 else '\n'
        cases.append(mk(src='std.extVar("v")', S=True, ntn=(i % 2 == 0), vars=[['es', 'v=' + v]], expect_rc=0, expect_stdout=v + nl))
        cases.append(mk(src='std.extVar("v")', S=True, vars=[['esf', 'v=f.txt']], files={'f.txt': v}, expect_rc=0, expect_stdout=v + '\n'))
        cases.append(mk(src='std.extVar("k")', S=True, vars=[['es', 'k=1=' + v]], expect_rc=0, expect_stdout='1=' + v + '\n'))
        cases.append(mk(src='std.extVar("k=1")', vars=[['es', 'k=1=' + v]], expect_rc=1))
        cases.append(mk(src='std.extVar("v")', S=True, vars=[['ec', 'v=' + json.dumps(v) + ' + "+"']], expect_rc=0, expect_stdout=v + '+\n'))
        cases.append(mk(src='std.extVar("v")[0]', S=True, vars=[['ecf', 'v=c.jsonnet']], files={'c.jsonnet': '[' + json.dumps(v) + ', 1]'},
                        expect_rc=0, expect_stdout=v + '\n'))
        cases.append(mk(src='function(p) p', func={'params': [['p', None]], 'body': 'p'}, S=True, vars=[['ts', 'p=' + v]],
                        expect_rc=0, expect_stdout=v + '\n'))
        cases.append(mk(src='function(p) p', func={'params': [['p', None]], 'body': 'p'}, S=True, vars=[['tsf', 'p=a=b.txt']],
                        files={'a=b.txt': v}, expect_rc=0, expect_stdout=v + '\n'))
    # D'. variables taken from the environment (var without '=') and empty values, all four kinds:
    #     what std.extVar / the parameter sees must be exactly what was supplied
    idf = {'params': [['C12V_P', None]], 'body': 'C12V_P'}
    env_vals = ['', 'non-empty', 'x=y=z', 'line\nbreak', 'é日本\U0001D11E', ' ']
    for kind in ['es', 'ec', 'ts', 'tc']:
        is_tla, is_code = kind[0] == 't', kind[1] == 'c'
        src = 'function(C12V_P) C12V_P' if is_tla else 'std.extVar("C12V_E")'
        name = 'C12V_P' if is_tla else 'C12V_E'
        func = idf if is_tla else None
        chosen = env_vals if tier == 'thorough' else env_vals[:1] + rng.sample(env_vals[1:], 2)
        for v in chosen:
            supplied = json.dumps(v) if is_code else v           # code denoting the string v
            cases.append(mk(src=src, func=func, S=True, ntn=rng.random() < 0.3 and v != '', vars=[[kind, name]], env={name: supplied},
                            expect_rc=0, expect_stdout=None))
            cases[-1]['expect_stdout'] = v + ('' if cases[-1]['ntn'] else '\n')
        # the same empty value given on the command line
        cases.append(mk(src=src, func=func, S=True, vars=[[kind, name + '=' + ('""' if is_code else '')]], expect_rc=0, expect_stdout='\n'))
        # truly undefined, and (code kinds) defined as the empty source text
        cases.append(mk(src=src, func=func, S=True, vars=[[kind, name]], env={}, expect_rc=1))
        if is_code:
            cases.append(mk(src=src, func=func, S=True, vars=[[kind, name]], env={name: ''}, expect_rc=1))
    lazy = [
        mk(src='1', vars=[['ec', 'unused=error "never"']], expect_rc=0, expect_stdout='1\n'),
        mk(src='std.extVar("u")', vars=[['ec', 'u=error "used"']], expect_rc=1),
        mk(src='1', vars=[['ec', 'bad=1 +']], expect_rc=1),
        mk(src='1', vars=[['ec', 'bad=local q = zz; 1']]),
        mk(src='1', vars=[['ecf', 'bad=nofile.jsonnet']]),
        mk(src='1', vars=[['ecf', 'bad=broken.jsonnet']], files={'broken.jsonnet': '{a: '}),
        mk(src='1', vars=[['esf', 'bad=nofile.txt']]),
        mk(src='1', vars=[['esf', 'bad=bin.dat']], files={'bin.dat': [0xff, 0xfe, 0x41]}),
        mk(src='1', vars=[['es', 'C12V_UNSET']]),
        mk(src='1', vars=[['ec', 'C12V_UNSET']]),
        mk(src='std.extVar("C12V_CODE")', vars=[['ec', 'C12V_CODE']], env={'C12V_CODE': '{x: 1 + 1}'}),
        mk(src='std.extVar("a")', vars=[['es', 'a=1'], ['es', 'a=2']]),
        mk(src='std.extVar("a")', vars=[['es', 'a=1'], ['ec', 'a=2']]),
        mk(src='std.extVar("a")', vars=[['ec', 'a=2'], ['esf', 'a=f.txt']], files={'f.txt': 'x'}),
        mk(src='std.extVar("a") + std.extVar("b")', S=True, vars=[['ec', 'b="B"'], ['es', 'a=A']]),
        mk(src='[std.extVar("a"), std.extVar("b")]', y=True, vars=[['ec', 'b=std.extVar("a") + 1'], ['ec', 'a=41']]),
        mk(src='std.extVar("a")', vars=[['ts', 'a=1']]),
        mk(src='1', vars=[['ts', 'a=1']], o='exists', expect_rc=1),
        mk(src='1', vars=[['ts', 'a=1'], ['ts', 'a=2']], expect_rc=1),
        mk(src='function(a) a', func={'params': [['a', None]], 'body': 'a'}, vars=[['ts', 'a=1'], ['tc', 'a=2']], expect_rc=1),
        mk(src='function(a, b=2) [a, b]', func={'params': [['a', None], ['b', '2']], 'body': '[a, b]'}, y=True, ntn=True,
           vars=[['tc', 'b=[]'], ['ts', 'a=x']], expect_rc=0, expect_stdout='---\n"x"\n---\n[ ]\n...'),
        mk(src='{a: 1}', vars=[['tc', 'a=1 +']], m='ok'),
        mk(src='{a: 1}', vars=[['tsf', 'a=nofile']]),
    ]
    cases += lazy
    # E. top-level arguments
    for fi, (fsrc, fdesc) in enumerate(FUNCS):
        names = [p[0] for p in fdesc['params']]
        sets = [[], [[rng.choice(['ts', 'tc']), n] for n in names], [[rng.choice(['ts', 'tc']), n] for n in names[:1]],
                [[rng.choice(['ts', 'tc']), n] for n in names[1:]], [[rng.choice(['ts', 'tc']), n] for n in reversed(names)],
                [['ts', 'zz']] + [['ts', n] for n in names], [['ts', n] for n in names + names[:1]]]
        if tier != 'thorough':
            sets = sets[1:2] + rng.sample(sets[:1] + sets[2:], 2)
        for si, st in enumerate(sets):
            vs = []
            files = {}
            for kind, n in st:
                v = rng.choice(VAR_VALUES)
                if kind == 'ts':
                    if rng.random() < 0.2:
                        files['t_%s.txt' % n] = v
                        vs.append(['tsf', '%s=t_%s.txt' % (n, n)])
                    else:
                        vs.append(['ts', '%s=%s' % (n, v)])
                else:
                    code = rng.choice([json.dumps(v), '[1, 2]', '{k: "v"}', '40 + 2', 'error "lazy tla"'])
                    if rng.random() < 0.2:
                        files['t_%s.jsonnet' % n] = code
                        vs.append(['tcf', '%s=t_%s.jsonnet' % (n, n)])
                    else:
                        vs.append(['tc', '%s=%s' % (n, code)])
            cases.append(mk(src=fsrc, func=fdesc, vars=vs, files=files, S=(fi in (2, 4, 5) and rng.random() < 0.7),
                            ntn=rng.random() < 0.3, m=('ok' if fi == 1 and rng.random() < 0.5 else None),
                            o=rng.choice([None, None, 'ok']), **{'in': rng.choice(inkinds)}))
    # F'. library search directories (right-most wins; the search itself is C13's subject)
    def lib(text):
        return 'lib_' + hashlib.sha256(text.encode()).hexdigest()[:10]
    la, lb = '"from A"', '"from B"'
    da, db = lib(la), lib(lb)
    jfiles = {da + '/x.libsonnet': la, db + '/x.libsonnet': lb, da + '/onlya.libsonnet': '"only A"'}
    cases.append(mk(src='import "x.libsonnet"', S=True, jpath=[da, db], files=jfiles, expect_rc=0, expect_stdout='from B\n'))
    cases.append(mk(src='import "x.libsonnet"', S=True, jpath=[db, da], files=jfiles, expect_rc=0, expect_stdout='from A\n', **{'in': 'file'}))
    cases.append(mk(src='[import "x.libsonnet", import "onlya.libsonnet"]', y=True, jpath=[da, db], files=jfiles, expect_rc=0, **{'in': 'stdin'}))
    cases.append(mk(src='import "x.libsonnet"', S=True, jpath=[], files=jfiles, expect_rc=1))
    # F. stack limit reached or not
    deep = 'local f(n) = if n == 0 then 0 else 1 + f(n - 1); f(%d)'
    for n, s, rc in [(100, 30, 1), (100, 2000, 0), (10, None, 0), (300, 100, 1)]:
        cases.append(mk(src=deep % n, s=s, t=rng.choice([None, 0, 5]), o=rng.choice([None, 'exists']), expect_rc=rc))
    return cases


# ---------------------------------------------------------------- running a batch

def load_corpus():
    out = []
    p = os.path.join(vlib.VERIF, 'corpus', 'c12_cases.txt')
    if os.path.exists(p):
        for l in open(p):
            l = l.strip()
            if l and not l.startswith('#'):
                out.append(mk(**json.loads(l)))
    return out


def healthy(c):
    """the same command with sinks that work"""
    g = dict(c)
    g['so'] = 'pipe'
    if c['o']:
        g['o'] = 'ok'
    if c['m'] and c['m'].startswith('ok:full='):
        g['m'] = 'ok'
    return g


def run_cases(run, runner, cases, label):
    # worlds (plain runs; sequential per case but cases in parallel)
    def prep(ic):
        i, c = ic
        try:
            tabs, stdin, views = runner.world(c)
            return i, ('w', tabs, stdin, views, runner.sexp(c, tabs, stdin))
        except Exception as e:
            return i, ('err', repr(e))
    with ThreadPoolExecutor(max_workers=NTHREADS) as ex:
        worlds = dict(ex.map(prep, list(enumerate(cases))))
    lines = []
    for i, c in enumerate(cases):
        if worlds[i][0] == 'w':
            lines.append('c%d\trun\tcur\t%s' % (i, worlds[i][4]))
    model = vlib.run_sharded(runner.model_exe, lines, timeout=300)

    def real(ic):
        i, c = ic
        try:
            obs = runner.real(c)
            good = None
            if c['so'] != 'pipe' or c['o'] in ('dir', 'nodir', 'notdir', 'full') or (c['m'] and c['m'].startswith('ok:full=')):
                good = runner.real(healthy(c))
            return i, (obs, good)
        except subprocess.TimeoutExpired:
            return i, ('timeout', None)
    with ThreadPoolExecutor(max_workers=NTHREADS) as ex:
        reals = dict(ex.map(real, list(enumerate(cases))))

    for i, c in enumerate(cases):
        run.evaluations += 1
        run.count(label)
        replay = {'kind': 'cli', 'case': c}
        if worlds[i][0] != 'w':
            run.violation('cli-machinery', 'could not build the world of a case: %s' % worlds[i][1], replay, concrete=False)
            continue
        _, tabs, stdin, views, sx = worlds[i]
        obs, good = reals[i]
        if obs == 'timeout':
            run.violation('cli-hang', 'the binary hangs on %s' % runner.argv(c), replay)
            continue
        run.evaluations += 1 if good is not None else 0
        run.count('mode_' + (mode_tag(c) or 'plain'))
        run.count('sink_' + c['so'].split(':')[0] + ('_o-' + c['o'] if c['o'] else ''))
        run.count('input_' + c['in'])
        run.count('exit_%d' % obs['rc'])
        problems = oracle(runner, c, obs, tabs, views, good)
        if c['so'] == 'closed' and obs['rc'] == 0 and good is not None and good['rc'] == 0 and good['stdout'] and not c['o']:
            run.count('assumed_closed_stdout_exit0_output_lost')
        for key, what in problems:
            run.violation(key, '%s — argv %s, stdout=%s' % (what, runner.argv(c), c['so']), replay)
        mr = parse_model_result(model.get('c%d' % i, 'NOOUTPUT'))
        if mr is None:
            run.violation('cli-model-machinery', 'model driver failed: %s' % model.get('c%d' % i, 'NOOUTPUT')[:200], replay, concrete=False)
            continue
        diffs = []
        if mr['rc'] != obs['rc']:
            diffs.append('exit status: model %d, binary %d' % (mr['rc'], obs['rc']))
        if obs['stdout'] is not None and mr['stdout'] != obs['stdout']:
            diffs.append('stdout: model %r, binary %r' % (mr['stdout'][:60], obs['stdout'][:60]))
        if mr['stderr'] != bool(obs['stderr']):
            diffs.append('stderr non-empty: model %s, binary %s' % (mr['stderr'], bool(obs['stderr'])))
        skip = set()
        if c['m'] and c['m'].startswith('ok:full='):
            skip.add('mdir/' + c['m'][len('ok:full='):])       # a symbolic link to /dev/full
        want_fs = expected_fs(obs['before'], mr['files'], skip)
        if want_fs != obs['after']:
            changed = sorted(set(k for k in set(want_fs) | set(obs['after']) if want_fs.get(k) != obs['after'].get(k)))
            diffs.append('files: model and binary differ on %s' % changed[:4])
        if diffs and not problems:
            run.violation('cli-correspondence', 'correspondence cli: %s — argv %s, stdout=%s' % ('; '.join(diffs), runner.argv(c), c['so']),
                          dict(replay, model=model.get('c%d' % i)), concrete=False)
        if obs['rc'] == 0 or c['so'] != 'pipe' or c['o'] or c['m']:
            run.nontrivial.add((mode_tag(c), c['in'], c['so'].split(':')[0], c['o'], (c['m'] or '').split('=')[0], obs['rc'],
                                hashlib.sha256(c['src'].encode()).hexdigest()[:8], len(c['vars'])))
        if len(run.samples) < 6 and i % 37 == 0:
            run.samples.append({'argv': runner.argv(c), 'stdout_dev': c['so'], 'exit': obs['rc'],
                                'stdout': (obs['stdout'] or b'')[:80].decode('utf-8', 'replace')})


def check(run):
    rng = vlib.rng_for(run.seed, ID)
    run.rule = ('cli: the real binary in scratch directories.  Values of every type the modes care about (strings incl. lengths '
                '1023/1024 around the stdout buffer, arrays, objects with hidden/failing/function fields, scalars, failing and '
                'ill-formed programs, functions) x {-e, stdin, file} x {-S, -y} x {-m} x {-o} x {--no-trailing-newline} x {-s, -t}; '
                'sink faults (/dev/full, closed descriptor, RLIMIT_FSIZE k, directory / missing directory / file-as-directory '
                'targets, a multi file on a full device); input faults; clap errors; ext/TLA kinds with values containing =, quotes, '
                'newlines, non-ASCII.  The model receives the Session oracles\' answers from plain runs of the same binary.  '
                'non-trivial = distinct (mode flags, input kind, sink, -o kind, -m kind, exit status, program, #vars) that is a success or '
                'uses a non-default sink/mode.')
    run.assume = [
        'Rust std: Stdout is a LineWriter of capacity 1024 over the raw descriptor; write_all sends data up to the last newline straight through, buffers a shorter-than-capacity tail, and the runtime flushes that buffer at exit ignoring errors',
        'Rust std: a write to a closed descriptor 1 (EBADF) is reported as success by StdoutRaw, and a read from a closed descriptor 0 as end of file — a closed stdout therefore ends with exit 0 and no output; such runs are counted under assumed_closed_stdout_exit0_output_lost, not reported as violations',
        'Rust std: fs::write = create/truncate then write_all; write_all of an empty slice performs no write(2)',
        'Session contract: load/eval/call/manifest print a report to stderr exactly when they fail (std.trace is not used by the generated programs)',
        'clap decides which argument vectors are well formed (exit 2 otherwise); --help is answered with exit 2 on stderr',
        'Session::eval_value evaluates the value deeply (all array items and visible object fields, object assertions)',
        'failure to write to stderr (e.g. 2>/dev/full) makes eprintln! panic and the process abort: outside the fault list of this property, recorded in notes/C12.md',
    ]
    try:
        translate(vlib.REPO)
        run.add_obligation('T:glue constants translated from main.rs and cli.rs', True)
    except Exception as e:
        run.add_obligation('T:glue constants translated from main.rs and cli.rs', False, str(e))
    pres = vlib.prove(ID, THEOREMS, ALLOWED_AXIOMS)
    run.add_proof(pres, THEOREMS)
    model_exe = vlib.build_model('cli')
    cli = vlib.build_cli()
    tmp_root = tempfile.mkdtemp(prefix='rsj-verif-c12.')
    try:
        runner = CaseRunner(cli, model_exe, tmp_root)
        fl = vlib.run_lines(model_exe, ['f\tflushes'], timeout=60).get('f')
        run.extra['model_code_flushes_stdout'] = fl
        corpus = load_corpus()
        run_cases(run, runner, corpus, 'corpus_cases')
        cases = gen_cases(rng, run.tier)
        run_cases(run, runner, cases, 'generated_cases')
        run.extra['plain_runs'] = runner.plain.runs
        run.evaluations += runner.plain.runs
    finally:
        shutil.rmtree(tmp_root, ignore_errors=True)


def replay(run, path):
    j = json.load(open(path))
    r = j.get('replay', {})
    if isinstance(r, dict) and r.get('kind') == 'cli':
        model_exe = vlib.build_model('cli')
        cli = vlib.build_cli()
        tmp_root = tempfile.mkdtemp(prefix='rsj-verif-c12.')
        try:
            runner = CaseRunner(cli, model_exe, tmp_root)
            run_cases(run, runner, [mk(**r['case'])], 'replay')
        finally:
            shutil.rmtree(tmp_root, ignore_errors=True)
    else:
        print('replay file names a broken obligation, not an input:', json.dumps(j.get('no_longer_checks', j), indent=1)[:2000])
        pres = vlib.prove(ID, THEOREMS, ALLOWED_AXIOMS)
        run.add_proof(pres, THEOREMS)
    for v in run.violations:
        print('REPRODUCED:', v['what'])
    if not run.violations and not run.failed_obligations:
        print('not reproduced')
    return 1 if (run.violations or run.failed_obligations) else 0
