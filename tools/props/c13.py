"""C13 — imports resolve deterministically, load once and deliver exact content.

Proof:  Props/C13.v over Model/Import.v (find_import, load_real_file with the
        source cache keyed by canonical path, the three callbacks, main.rs's
        reversed -J list; std::path join/parent as used by the code; an abstract
        world fs/canon, instantiated by a concrete tree with POSIX resolution).
K:      generated directory trees run through the real binary in scratch
        directories; the extracted model is given the same tree and predicts the
        manifested value (which file every import resolved to, std.thisFile
        values, importstr/importbin contents), the order of the per-file
        std.trace lines (= evaluations), and the failure class and site.
Search: oracle on the implementation alone: two runs agree; no file is traced
        twice; every import in the output resolves, by an independent search over
        the real file system (os.path), to the file whose value is shown;
        importbin = the file's bytes; importstr = bytes.decode('utf-8','replace');
        a failed import is exit 1, empty stdout, and a diagnostic naming a line
        of a loaded file that carries an import which indeed does not resolve.
"""
import os, sys, re, json, subprocess, tempfile, shutil, stat
from concurrent.futures import ThreadPoolExecutor
import vlib
from vlib import hx, hxl, cps

ID = 'C13'
COMPONENTS = ['import']
THEOREMS = ['C13_search_order', 'C13_search_none', 'C13_importer_dir_first', 'C13_rightmost_J_wins',
            'C13_absolute_bypass', 'C13_virtual_bases_are_search_paths', 'C13_absolute_bypass_virtual',
            'C13_virtual_relative_needs_J', 'C13_once_virtual', 'C13_nonvacuous_virtual', 'C13_cache_by_canonical', 'C13_loaded_once', 'C13_evaluated_once', 'C13_thisfile_is_as_loaded',
            'C13_missing_is_import_error_at_site', 'C13_unreadable_is_import_error_at_site',
            'C13_importstr_is_lossy_decode', 'C13_lossy_of_valid_utf8', 'C13_nonvacuous_lossy', 'C13_importbin_exact', 'C13_resolution_deterministic',
            'C13_resolution_depends_only_on_existence', 'C13_nonvacuous', 'C13_nonvacuous_J_order',
            'C13_nonvacuous_hyps', 'C13_nonvacuous_failures']
ALLOWED_AXIOMS = set()
TRANSLATORS = []

VROOT = '/VROOT7'
REPR = {'e': '<cmdline>', 'stdin': '<stdin>', 'ext': '<ext:v>', 'tla': '<tla:x>'}   # main.rs: display names of virtual sources
FUEL = 48


# ---------------------------------------------------------------- rendering

def jstr(s):
    return json.dumps(s, ensure_ascii=False)


def render_expr(e):
    k = e[0]
    if k == 'i':
        return 'import ' + jstr(e[1])
    if k == 's':
        return 'importstr ' + jstr(e[1])
    if k == 'b':
        return 'importbin ' + jstr(e[1])
    if k == 't':
        return 'std.thisFile'
    if k == 'l':
        return jstr(e[1])
    raise ValueError(e)


def render_prog(ent):
    """every expression number pos sits alone on line pos+2"""
    lines = ['std.trace("load:%s", if std.foldl(function(a, x) a + std.length(std.type(x)), [' % ent['tag']]
    for e in ent['strict']:
        lines.append('  (' + render_expr(e) + '),')
    items = ent['items']
    head = '], 0) < 0 then null else ['
    if not items:
        lines.append(head + '])')
    else:
        for j, e in enumerate(items):
            pre = head if j == 0 else ' '
            post = '])' if j == len(items) - 1 else ','
            lines.append(pre + ' ' + render_expr(e) + post)
    return ('\n'.join(lines) + '\n').encode('utf-8')


def content_of(ent):
    if ent['k'] == 'prog':
        return render_prog(ent)
    return bytes.fromhex(ent['hex'])


# ---------------------------------------------------------------- wire

def names_field(parts):
    return ';'.join('=' + cps(x) for x in parts)


def expr_field(e):
    return e[0] + (cps(e[1]) if len(e) > 1 else '')


def model_fields(case):
    ents = case['ents']
    tree = []
    progs = []
    for i, ent in enumerate(ents):
        parts = ['VROOT7'] + [x for x in ent['p'].split('/') if x]
        nm = names_field(parts)
        if ent['k'] in ('prog', 'data'):
            tree.append('F:%s:%d:%s' % (nm, 1 if ent.get('mode', 1) else 0, hxl(list(content_of(ent)))))
            if ent['k'] == 'prog':
                progs.append('%x:%s:%s:%s' % (i + 1, cps(ent['tag']), ';'.join(expr_field(e) for e in ent['strict']),
                                              ';'.join(expr_field(e) for e in ent['items'])))
        elif ent['k'] == 'dir':
            tree.append('D:%s:%d:' % (nm, 1 if ent.get('mode', 1) else 0))
        elif ent['k'] == 'link':
            tree.append('L:%s::%s' % (nm, cps(ent['to'])))
    tree.insert(0, 'D:%s:1:' % names_field(['VROOT7']))
    cwd = ['VROOT7'] + [x for x in case['cwd'].split('/') if x]
    if case.get('virt'):
        ve = case['virt']['prog']
        return ['runv', '%d;%x' % (1 if case['priv'] else 0, FUEL), names_field(cwd), '|'.join(tree), '|'.join(progs),
                names_field(case['J']), cps(REPR[case['virt']['mode']]), hxl(list(content_of(ve))),
                '%s:%s:%s' % (cps(ve['tag']), ';'.join(expr_field(e) for e in ve['strict']), ';'.join(expr_field(e) for e in ve['items']))]
    return ['run', '%d;%x' % (1 if case['priv'] else 0, FUEL), names_field(cwd), '|'.join(tree), '|'.join(progs),
            names_field(case['J']), cps(case['main'])]


# ---------------------------------------------------------------- real tree + run

def can_drop_privileges():
    if os.geteuid() != 0:
        return False
    try:
        p = subprocess.run(['/bin/true'], user='nobody', group='nogroup', timeout=20)
        return p.returncode == 0
    except Exception:
        return False


def build_tree(root, case):
    """materialise the case under root (an existing empty directory)"""
    def real(s):
        return s.replace(VROOT, root)
    ents = sorted(case['ents'], key=lambda e: e['p'].count('/'))
    late = []
    for ent in ents:
        path = os.path.join(root, ent['p'])
        os.makedirs(os.path.dirname(path), exist_ok=True)
        if ent['k'] == 'dir':
            os.makedirs(path, exist_ok=True)
            os.chmod(path, 0o755)
            if not ent.get('mode', 1):
                late.append((path, 0o000))
        elif ent['k'] == 'link':
            os.symlink(real(ent['to']), path)
        else:
            data = content_of(ent).replace(VROOT.encode(), root.encode())
            with open(path, 'wb') as f:
                f.write(data)
            os.chmod(path, 0o644 if ent.get('mode', 1) else 0o000)
    os.makedirs(os.path.join(root, case['cwd']), exist_ok=True)
    for path, mode in sorted(late, key=lambda x: -x[0].count('/')):
        os.chmod(path, mode)


def run_cli(cli, root, case, unpriv_ok):
    def real(s):
        return s.replace(VROOT, root)
    argv = [cli]
    for j in case['J']:
        argv += ['-J', real(j)]
    stdin = None
    if case.get('virt'):
        text = content_of(case['virt']['prog']).replace(VROOT.encode(), root.encode())
        mode = case['virt']['mode']
        if mode == 'e':
            argv += ['-e', text]
        elif mode == 'stdin':
            argv += ['-']
            stdin = text
        elif mode == 'ext':
            argv += ['--ext-code', b'v=' + text, '-e', 'std.extVar("v")']
        else:
            argv += ['--tla-code', b'x=' + text, '-e', 'function(x) x']
    else:
        argv.append(real(case['main']))
    env = {'NO_COLOR': '1', 'PATH': '/usr/bin:/bin', 'LANG': 'C.UTF-8'}
    kw = {}
    if not case['priv']:
        if not unpriv_ok:
            return None
        kw = {'user': 'nobody', 'group': 'nogroup'}
    try:
        p = subprocess.run(argv, cwd=os.path.join(root, case['cwd']), stdout=subprocess.PIPE, stderr=subprocess.PIPE,
                           env=env, timeout=60, input=stdin if stdin is not None else b'', **kw)
        return (p.returncode, p.stdout, p.stderr)
    except subprocess.TimeoutExpired:
        return ('timeout', b'', b'')


def unreal(b, root):
    return b.replace(root.encode(), VROOT.encode())


# ---------------------------------------------------------------- observation -> canonical text

def show_json(v):
    """JSON value of the CLI -> the model's value syntax"""
    if isinstance(v, str):
        return 's' + cps(v)
    if isinstance(v, list):
        if all(isinstance(x, (int, float)) and not isinstance(x, bool) for x in v):
            return 'b' + hxl([int(x) for x in v])
        return '[' + ' '.join(show_json(x) for x in v) + ']'
    return '?' + json.dumps(v)


def json_unreal(v, root):
    """undo the scratch-prefix substitution inside strings and byte arrays"""
    if isinstance(v, str):
        return v.replace(root, VROOT)
    if isinstance(v, list):
        if v and all(isinstance(x, (int, float)) and not isinstance(x, bool) for x in v):
            try:
                return list(unreal(bytes(int(x) for x in v), root))
            except ValueError:
                return v
        return [json_unreal(x, root) for x in v]
    return v


def observe(res, root):
    """(rc, stdout, stderr) -> dict(rc, value text|None, tags, err text)"""
    rc, out, err = res
    errt = unreal(err, root).decode('utf-8', 'replace')
    tags = re.findall(r'^TRACE: load:(\S+)$', errt, flags=re.M)
    val = None
    vj = None
    if rc == 0:
        try:
            vj = json_unreal(json.loads(out.decode('utf-8')), root)
            val = show_json(vj)
        except Exception as e:
            val = 'UNPARSABLE %r ' % e + repr(out[:200])
    return {'rc': rc, 'val': val, 'json': vj, 'tags': tags, 'err': errt, 'out_empty': len(out) == 0}


WHY_TEXT = {
    'NOTFOUND': ['not found in search path'],
    'NOFILE': ['does not exist'],
    'CANON': ['failed to canonicalize'],
    'READ-isdir': ['failed to read', 'Is a directory'],
    'READ-perm': ['failed to read', 'Permission denied'],
    'READ-notfound': ['failed to read'],
    'READ-other': ['failed to read'],
    'LOAD': [],
}


def compare(model_res, obs):
    """model prediction vs observation; returns None or (key, description)"""
    f = model_res.split('\t')
    head = f[0]
    if head in ('MODELEXC', 'NOOUTPUT', 'TIMEOUT', 'CRASH') or head == 'PANIC':
        return ('MACHINERY', 'model answered ' + model_res[:200])
    tfield = [x for x in f if x.startswith('T=')]
    mtags = [vlib.uncps(x[1:]) for x in tfield[0][2:].split(';') if x] if tfield else []
    if mtags != obs['tags']:
        if sorted(mtags) == sorted(obs['tags']):
            return ('evaluation-order', 'order of evaluations (trace lines): model %s / implementation %s' % (mtags, obs['tags']))
        if len(set(obs['tags'])) < len(obs['tags']):
            return ('evaluated-twice', 'a file is evaluated more than once: %s (model %s)' % (obs['tags'], mtags))
        return ('evaluation-set', 'files evaluated (trace lines): model %s / implementation %s' % (mtags, obs['tags']))
    if head == 'OK':
        if obs['rc'] != 0:
            return ('spurious-failure', 'model succeeds, implementation exit %s: %s' % (obs['rc'], first_error(obs['err'])))
        if obs['val'] != f[1]:
            return ('value', 'manifested value (resolution / std.thisFile / content): model %s / implementation %s' % (f[1][:300], (obs['val'] or '')[:300]))
        return None
    # failures
    if obs['rc'] != 1:
        return ('missed-failure', 'model predicts failure %s, implementation exit %s' % ('/'.join(f[:3]), obs['rc']))
    if not obs['out_empty']:
        return ('stdout-on-failure', 'stdout not empty on failure')
    err = obs['err']
    if head == 'FUEL':
        return None if 'error: stack overflow' in err else ('failure-class', 'model: unbounded descent (lazy import cycle); implementation: ' + first_error(err))
    if f[1] == 'INFREC':
        return None if 'error: infinite recursion' in err else ('failure-class', 'model: import cycle -> infinite recursion; implementation: ' + first_error(err))
    if f[1] == 'MAIN':
        if f[2] == 'CANON' and 'failed to read' in err and 'Permission denied' in err:
            # glibc realpath resolves ".." lexically over the resolved prefix and needs no search permission on the
            # directory it leaves; the kernel's open() does: same fault, reported one step later
            return None
        for t in WHY_TEXT[f[2]]:
            if t not in err:
                return ('failure-class', 'main file load failure %s: diagnostic lacks %r: %s' % (f[2], t, first_error(err)))
        if f[2] == 'LOAD' and ('failed to read' in err or 'does not exist' in err):
            return ('failure-class', 'main file load failure LOAD reported as i/o failure')
        return None
    if f[1] == 'IMPORT':
        why, importer, pos, p = f[2], vlib.uncps(f[3]), int(f[4], 16), vlib.uncps(f[5])
        for t in WHY_TEXT[why]:
            if t not in err:
                return ('failure-class', 'import failure %s of %r: diagnostic lacks %r: %s' % (why, p, t, first_error(err)))
        if why == 'LOAD' and ('failed to read' in err or 'not found in search path' in err):
            return ('failure-class', 'import failure LOAD of %r reported as %s' % (p, first_error(err)))
        if 'error: failed to import ' + jdebug(p) not in err:
            return ('failure-class', 'no "failed to import %s" diagnostic: %s' % (jdebug(p), first_error(err)))
        m = re.search(r'error: failed to import [^\n]*\n *--> ([^\n]*):(\d+):(\d+)\n', err)
        if not m:
            return ('import-site', 'import failure without a site: ' + first_error(err))
        if m.group(1) != importer or int(m.group(2)) != pos + 2:
            return ('import-site', 'import failure reported at %s:%s, import site is %s:%d' % (m.group(1), m.group(2), importer, pos + 2))
        return None
    return ('MACHINERY', 'unknown model answer ' + model_res[:100])


def jdebug(p):
    """Rust {:?} of a str without special characters"""
    return '"' + p.replace('\\', '\\\\').replace('"', '\\"') + '"'


def first_error(err):
    ls = [l for l in err.split('\n') if l.startswith('error')]
    return ' / '.join(ls[:3]) if ls else err[:200]


# ---------------------------------------------------------------- oracle on the implementation alone

def rjoin(base, p):
    if p.startswith('/'):
        return p
    if base == '':
        return p
    return base + p if base.endswith('/') else base + '/' + p


def py_resolve(root, cwd_abs, this_file, J, p):
    """independent search over the real file system: importer's directory, then
    -J right to left; absolute paths bypass; first existing candidate"""
    p = p.replace(VROOT, root)
    if p.startswith('/'):
        return p if os.path.exists(p) else None
    # a virtual source has no directory of its own
    cands = [] if this_file in REPR.values() else [rjoin(os.path.dirname(this_file), p)]
    for j in reversed(J):
        cands.append(rjoin(j.replace(VROOT, root), p))
    for c in cands:
        if c != '' and os.path.exists(os.path.join(cwd_abs, c)):
            return os.path.join(cwd_abs, c)
    return None


def oracle(case, root, obs1, obs2, by_real):
    """by_real: realpath -> entry.  Returns None or (key, description)."""
    for o in (obs1, obs2):
        if o['rc'] not in (0, 1, 'timeout'):
            if 'sourceannot' in o['err'] and 'end_col > annot.span.start_col' in o['err']:
                # the snippet renderer asserts on a span that consists of zero-width characters only
                return ('crash-renderer-zero-width-char', 'the binary aborts (status %s) while rendering the diagnostic of an imported/loaded '
                        'file whose offending character has display width 0: %s' % (o['rc'], [l for l in o['err'].split('\n') if 'assertion' in l][:1]))
            return ('crash', 'the binary dies with status %s: %s' % (o['rc'], o['err'][-300:]))
    if (obs1['rc'], obs1['val'], obs1['tags'], obs1['err']) != (obs2['rc'], obs2['val'], obs2['tags'], obs2['err']):
        return ('nondeterministic', 'two runs of the same command differ')
    if obs1['rc'] == 'timeout':
        return ('hang', 'the command does not terminate in 60 s')
    if obs1['rc'] not in (0, 1):
        return ('exit-status', 'exit status %s: %s' % (obs1['rc'], obs1['err'][:200]))
    seen = set()
    for t in obs1['tags']:
        if t in seen:
            return ('evaluated-twice', 'file %s is evaluated (traced) more than once' % t)
        seen.add(t)
    cwd_abs = os.path.join(root, case['cwd'])
    if not case['priv'] and any(e['k'] == 'dir' and not e.get('mode', 1) for e in case['ents']):
        # the oracle's own file-system search runs as root: with unsearchable directories and an
        # unprivileged binary its existence tests would not be the binary's; the model comparison covers these
        return None if (obs1['rc'] == 0 or obs1['out_empty']) else ('stdout-on-failure', 'stdout not empty although the exit status is 1')
    if obs1['rc'] == 0:
        # walk the value along the programs
        if case.get('virt'):
            main_real, ent = None, case['virt']['prog']
        else:
            main_real = os.path.realpath(os.path.join(cwd_abs, case['main'].replace(VROOT, root)))
            ent = by_real.get(main_real)
        if ent is None or ent['k'] != 'prog':
            return ('content', 'success although the main file is not a program')
        budget = [20000]

        def walk(val, ent, this_file_expected):
            budget[0] -= 1
            if budget[0] < 0:
                return None
            if not isinstance(val, list) or len(val) != len(ent['items']):
                return 'value of %s has the wrong shape' % ent['tag']
            this_file = None
            for e, v in zip(ent['items'], val):
                if e[0] == 't':
                    this_file = v.replace(VROOT, root) if isinstance(v, str) else None
            if this_file is None:
                return None
            if ent is (case.get('virt') or {}).get('prog'):
                if this_file != REPR[case['virt']['mode']]:
                    return 'std.thisFile of the virtual source is %r' % this_file
            elif this_file_expected is not None:
                # thisFile must be a spelling of the file itself
                if os.path.realpath(os.path.join(cwd_abs, this_file)) != this_file_expected:
                    return 'std.thisFile %r of %s does not name that file' % (this_file, ent['tag'])
            for e, v in zip(ent['items'], val):
                if e[0] == 'l':
                    if v != e[1]:
                        return 'literal differs'
                elif e[0] in ('i', 's', 'b'):
                    tgt = py_resolve(root, cwd_abs, this_file, case['J'], e[1])
                    if tgt is None:
                        return 'import %r in %s succeeded although no candidate exists' % (e[1], ent['tag'])
                    rp = os.path.realpath(tgt)
                    te = by_real.get(rp)
                    if te is None or te['k'] not in ('prog', 'data'):
                        return 'import %r in %s succeeded although it resolves to a non-file' % (e[1], ent['tag'])
                    data = content_of(te)
                    if e[0] == 'b':
                        if not (isinstance(v, list) and v == list(data)):
                            return 'importbin %r in %s does not deliver the bytes of %s' % (e[1], ent['tag'], te['p'])
                    elif e[0] == 's':
                        if v != data.decode('utf-8', 'replace'):
                            return 'importstr %r in %s is not the lossy decoding of %s' % (e[1], ent['tag'], te['p'])
                    else:
                        if te['k'] != 'prog':
                            return 'import %r in %s succeeded on a non-program' % (e[1], ent['tag'])
                        if not (isinstance(v, list) and v and v[0] == te['tag']):
                            return 'import %r in %s shows %r, the search finds %s (%s)' % (
                                e[1], ent['tag'], v[0] if isinstance(v, list) and v else v, te['tag'], te['p'])
                        w = walk(v, te, rp)
                        if w:
                            return w
            return None
        w = walk(obs1['json'], ent, main_real)
        if w:
            return ('content', w)
        return None
    # failure
    if not obs1['out_empty']:
        return ('stdout-on-failure', 'stdout not empty although the exit status is 1')
    err = obs1['err'].replace(VROOT, root)
    if 'error' not in err:
        return ('silent-failure', 'exit 1 without a diagnostic')
    m = re.search(r'error: failed to import ("(?:[^"\\]|\\.)*")\n *--> ([^\n]*):(\d+):(\d+)\n', err)
    if 'error: failed to import' in err:
        if not m:
            return ('import-site', 'failed import without file:line')
        try:
            p = json.loads(m.group(1))
        except Exception:
            return None
        site_file = os.path.join(cwd_abs, m.group(2))
        try:
            if case.get('virt') and m.group(2) == REPR[case['virt']['mode']]:
                text = content_of(case['virt']['prog']).replace(VROOT.encode(), root.encode())
            else:
                text = open(site_file, 'rb').read()
            line = text.decode('utf-8', 'replace').split('\n')[int(m.group(3)) - 1]
        except Exception:
            return ('import-site', 'diagnostic names %s:%s which cannot be read' % (m.group(2), m.group(3)))
        mm = re.search(r'\b(import|importstr|importbin) ("(?:[^"\\]|\\.)*")', line)
        if not mm or json.loads(mm.group(2)).replace(VROOT, root) != p:
            return ('import-site', 'diagnostic names %s:%s, which carries no import of %r' % (m.group(2), m.group(3), p))
        tgt = py_resolve(root, cwd_abs, m.group(2), case['J'], p)
        if tgt is not None:
            te = by_real.get(os.path.realpath(tgt))
            fine = te is not None and te['k'] in ('prog', 'data') and (case['priv'] or te.get('mode', 1))
            if fine and (mm.group(1) != 'import' or te['k'] == 'prog'):
                # the import is resolvable to a readable (program) file: failing is wrong,
                # unless the program itself failed deeper (then the innermost site is reported, not this one)
                return ('import-fails-but-resolves', 'import %r at %s:%s fails although the search finds %s' % (
                    p, m.group(2), m.group(3), te['p']))
    return None


# ---------------------------------------------------------------- generator

FILE_NAMES = ['x.libsonnet', 'y.libsonnet', 'z.libsonnet', 'u.libsonnet', 'd.txt', 'e.bin']
DIR_POOL = ['', 'a', 'b', 'lib', 'a/sub', 'lib/sub', 'w', 'w/deep']


def gen_payload(rng):
    """bytes that are not a Jsonnet program: valid/invalid UTF-8 mix"""
    pieces = [b'A', b'z', b' ', b'\n', b'\x00', b'\x7f', b'\xc3\xa9', b'\xe6\x97\xa5', b'\xf0\x9d\x84\x9e', b'\xef\xbf\xbd',
              b'\xed\x9f\xbf', b'\xee\x80\x80', b'\xf4\x8f\xbf\xbf', b'\xc2\x80', b'\xdf\xbf', b'\xe0\xa0\x80', b'\xf0\x90\x80\x80',
              # ill-formed
              b'\x80', b'\xbf', b'\xc0\x80', b'\xc1\xbf', b'\xc2', b'\xe0\x80\x80', b'\xe0\x9f\xbf', b'\xe0\xa0', b'\xe6\x97',
              b'\xed\xa0\x80', b'\xed\xbf\xbf', b'\xf0\x80\x80\x80', b'\xf0\x8f\xbf\xbf', b'\xf0\x90\x80', b'\xf0\x9d', b'\xf4\x90\x80\x80',
              b'\xf5\x80\x80\x80', b'\xf8', b'\xfe', b'\xff', b'\xe1\x80\xe1\x80', b'\xf1\x80\x80\xe1\x80\x80']
    n = rng.choice([0, 1, 2, 4, 8, 16])
    out = b''.join(rng.choice(pieces) if rng.random() < 0.85 else bytes([rng.randrange(256)]) for _ in range(n))
    return out


def spell(rng, dirpath, name, from_dir, dirs):
    """a spelling of <dirpath>/<name> relative to from_dir (both root-relative, '' = root)"""
    r = rng.random()
    target = (dirpath + '/' if dirpath else '') + name
    if r < 0.45:
        # bare (search decides) possibly with a sub-path
        return name
    if r < 0.6:
        return './' + name
    if r < 0.7:
        return VROOT + '/' + target
    # relative from the importer's directory
    up = [x for x in from_dir.split('/') if x]
    rel = '../' * len(up) + target
    if r < 0.8:
        return rel
    if r < 0.86 and dirs:
        d = rng.choice(dirs)
        return d + '/' + '../' * (d.count('/') + 1) + name
    if r < 0.9:
        return rel.replace('/', '//', 1) if '/' in rel else './/' + rel
    if r < 0.95:
        return './' + rel
    return target


def gen_case(rng, idx, allow_unpriv):
    nd = rng.choice([1, 2, 3, 4, 5])
    dirs = rng.sample(DIR_POOL[1:], nd)
    for d in list(dirs):
        if '/' in d and d.split('/')[0] not in dirs:
            dirs.append(d.split('/')[0])
    alld = [''] + sorted(set(dirs))
    ents = []
    for d in alld[1:]:
        ents.append({'p': d, 'k': 'dir', 'mode': 1})
    # files: the same names duplicated over directories, different content
    names = rng.sample(FILE_NAMES, rng.choice([2, 3, 4, 5]))
    if rng.random() < 0.15:
        names.append(rng.choice(['é 日.libsonnet', 'sp ace.libsonnet']))
    progs = []
    used = set()
    fid = 0
    main_dir = rng.choice(alld)
    main_name = 'main.jsonnet'
    mainent = {'p': (main_dir + '/' if main_dir else '') + main_name, 'k': 'prog', 'tag': 'main', 'strict': [], 'items': [], 'mode': 1}
    ents.append(mainent)
    progs.append(mainent)
    used.add(mainent['p'])
    for d in alld:
        for nm in names:
            if rng.random() < 0.55:
                p = (d + '/' if d else '') + nm
                if p in used:
                    continue
                used.add(p)
                fid += 1
                r = rng.random()
                if nm.endswith('.libsonnet') and r < 0.9:
                    e = {'p': p, 'k': 'prog', 'tag': 'f%d' % fid, 'strict': [], 'items': [], 'mode': 1}
                    progs.append(e)
                    ents.append(e)
                elif nm.endswith('.libsonnet') and r < 0.94:
                    bad = rng.choice([b'{ unclosed %d', b'local a = nope%d; a', b'"unterminated %d', b'[1, 2 %d'])
                    ents.append({'p': p, 'k': 'data', 'hex': (bad % fid).hex(), 'mode': 1})
                elif nm.endswith('.libsonnet') and r < 0.97:
                    ents.append({'p': p, 'k': 'dir', 'mode': 1})       # a directory named like a file
                else:
                    data = b')]%d ' % fid + gen_payload(rng)
                    ents.append({'p': p, 'k': 'data', 'hex': data.hex(), 'mode': 1})
    # symlinks
    files = [e for e in ents if e['k'] in ('prog', 'data')]
    for _ in range(rng.choice([0, 0, 1, 2, 3])):
        d = rng.choice(alld)
        r = rng.random()
        if r < 0.45 and files:
            t = rng.choice(files)
            nm = rng.choice(names + ['alias.libsonnet'])
            p = (d + '/' if d else '') + nm
            if p in used:
                continue
            up = '../' * (len([x for x in d.split('/') if x]))
            to = rng.choice([up + t['p'], VROOT + '/' + t['p']])
            ents.append({'p': p, 'k': 'link', 'to': to})
            used.add(p)
        elif r < 0.8 and len(alld) > 1:
            t = rng.choice(alld[1:])
            p = (d + '/' if d else '') + rng.choice(['ln', 'ln2'])
            if p in used or t.startswith(p) or (d and t.startswith(d)):
                continue
            up = '../' * (len([x for x in d.split('/') if x]))
            ents.append({'p': p, 'k': 'link', 'to': rng.choice([up + t, VROOT + '/' + t])})
            used.add(p)
        elif r < 0.9:
            p = (d + '/' if d else '') + rng.choice(names)
            if p in used:
                continue
            ents.append({'p': p, 'k': 'link', 'to': 'dangling-target'})
            used.add(p)
        else:
            p = (d + '/' if d else '') + rng.choice(names)
            if p in used:
                continue
            ents.append({'p': p, 'k': 'link', 'to': p.split('/')[-1]})     # a -> a : ELOOP
            used.add(p)
    linkdirs = [e['p'] for e in ents if e['k'] == 'link' and e['p'].split('/')[-1].startswith('ln')]
    linkto = {e['p']: e['to'].replace(VROOT + '/', '').replace('../', '') for e in ents if e['p'] in linkdirs}
    # permissions
    priv = True
    if allow_unpriv and rng.random() < 0.3:
        priv = False
        for e in ents:
            if e is mainent:
                continue
            if e['k'] in ('prog', 'data') and rng.random() < 0.1:
                e['mode'] = 0
            elif e['k'] == 'dir' and rng.random() < 0.06:
                e['mode'] = 0
    elif rng.random() < 0.15:
        for e in ents:
            if e is not mainent and e['k'] in ('prog', 'data') and rng.random() < 0.3:
                e['mode'] = 0        # run as root: must not be observable
    # cwd, -J, main spelling
    cwd = rng.choice([''] * 3 + alld)
    upc = '../' * len([x for x in cwd.split('/') if x])
    J = []
    Jdirs = []
    # delivery of the main program: a file, or a virtual source (-e text, stdin, --ext-code / --tla-code snippet)
    virt = rng.choice(['e', 'e', 'stdin', 'ext', 'tla']) if rng.random() < 0.28 else None
    nJ = rng.choice([0, 1, 1, 2, 2, 3, 4])
    if virt and rng.random() < 0.4:
        nJ = 0
    for _ in range(nJ):
        d = rng.choice(alld * 3 + linkdirs + ['nonexistent'])
        Jdirs.append(linkto.get(d, d))
        r = rng.random()
        if r < 0.5:
            s = (upc + d) if (upc + d) else '.'
        elif r < 0.7:
            s = VROOT + ('/' + d if d else '')
        elif r < 0.8:
            s = './' + upc + d
        elif r < 0.9:
            s = (upc + d if (upc + d) else '.') + '/'
        else:
            s = upc + d + '/.' if (upc + d) else './.'
        J.append(s)
    r = rng.random()
    mp = mainent['p']
    if r < 0.45:
        main = upc + mp
    elif r < 0.6:
        main = './' + upc + mp
    elif r < 0.75:
        main = VROOT + '/' + mp
    elif r < 0.85 and alld[1:]:
        d = rng.choice(alld[1:])
        main = upc + d + '/' + '../' * (d.count('/') + 1) + mp
    elif r < 0.9:
        main = upc + mp.replace('/', '//')
    elif r < 0.93:
        main = rng.choice([upc + 'missing.jsonnet', upc + mp + '/', upc + mp + '/x', (upc + main_dir) or '.', ''])
    else:
        main = upc + mp
    # imports
    order = list(progs)
    others = [e for e in ents if e['k'] in ('prog', 'data', 'link') and e['p'] not in linkdirs]
    all_names = names + ['alias.libsonnet', 'nope.libsonnet']

    def depth(d):
        return len([x for x in d.split('/') if x])

    def path_to(from_dir, tp, own=None):
        td, nm = ('/'.join(tp.split('/')[:-1]), tp.split('/')[-1])
        if rng.random() < 0.025:
            return rng.choice(['', '.', '..', 'a', nm + '/', nm + '/.', './', '/', VROOT, 'nope.libsonnet', 'lib/nope.libsonnet', '../' + nm])
        ch = ['bare'] * (6 if (td == from_dir or td in Jdirs) else 1)
        ch += ['rel'] * 3 + ['abs', 'dotrel', 'dslash', 'updown']
        for jd in Jdirs:
            if jd == '' or td == jd or td.startswith(jd + '/'):
                ch += ['jrel'] * 2
        for l in linkdirs:
            if linkto[l] == td:
                ch += ['vialink'] * 3
        c = rng.choice(ch)
        if c == 'bare' and own is not None and rng.random() < 0.85:
            # where the search will roughly land: keep backward edges (cycles) rare
            land = None
            for bd in [from_dir] + [jd for jd in reversed(Jdirs)]:
                q = (bd + '/' if bd else '') + nm
                if q in used:
                    land = q
                    break
            if land is not None and land not in own:
                c = 'rel'
        up = '../' * depth(from_dir)
        if from_dir and tp.startswith(from_dir + '/') and rng.random() < 0.6:
            rel = tp[len(from_dir) + 1:]
        else:
            rel = up + tp
        if c == 'bare':
            return nm
        if c == 'rel':
            return rel
        if c == 'abs':
            return VROOT + '/' + tp
        if c == 'dotrel':
            return './' + rel
        if c == 'dslash':
            return rel.replace('/', '//', 1) if '/' in rel else './/' + rel
        if c == 'updown':
            ds = alld[1:]
            if not ds:
                return rel
            d = rng.choice(ds)
            return up + d + '/' + '../' * depth(d) + tp
        if c == 'jrel':
            js = [jd for jd in Jdirs if jd == '' or td == jd or td.startswith(jd + '/')]
            jd = rng.choice(js)
            return tp[len(jd) + 1:] if jd else tp
        if c == 'vialink':
            l = rng.choice([l for l in linkdirs if linkto[l] == td])
            return rng.choice([up + l, VROOT + '/' + l]) + '/' + nm
        return rel

    def vpath_to(tp):
        # spellings written in a virtual source: no importer directory, so absolute paths and -J-relative ones
        td, nm = ('/'.join(tp.split('/')[:-1]), tp.split('/')[-1])
        if rng.random() < 0.025:
            return rng.choice(['', '.', '..', nm + '/', './', '/', VROOT, 'nope.libsonnet', VROOT + '/nope.libsonnet', '../' + nm])
        js = [jd for jd in Jdirs if jd == '' or td == jd or td.startswith(jd + '/')]
        ch = ['abs'] * 4 + ['abs2', 'cwdrel', 'bare', 'dotcwd']
        if js:
            ch += ['jrel'] * 3 + ['dotjrel', 'updownj']
        c = rng.choice(ch)
        if c == 'abs':
            return VROOT + '/' + tp
        if c == 'abs2':
            return VROOT + rng.choice(['//', '/./', '/' + (alld[1:] or ['a'])[0] + '/' + '../' * depth((alld[1:] or ['a'])[0])]) + tp
        if c == 'cwdrel':
            return upc + tp
        if c == 'dotcwd':
            return './' + upc + tp
        if c == 'bare':
            return nm
        jd = rng.choice(js)
        jrel = tp[len(jd) + 1:] if jd else tp
        if c == 'jrel':
            return jrel
        if c == 'dotjrel':
            return './' + jrel
        return ('../' + jd.split('/')[-1] + '/' + jrel) if jd else jrel

    for i, e in enumerate(order):
        from_dir = '/'.join(e['p'].split('/')[:-1])
        if virt and i == 0:
            def path_to_(fd, tp, own=None):
                return vpath_to(tp)
        else:
            path_to_ = path_to

        def pick(kind):
            if kind == 'i':
                # mostly towards later programs so that most trees are acyclic
                r = rng.random()
                later = order[i + 1:]
                if r < 0.96 and later:
                    return path_to_(from_dir, rng.choice(later)['p'], set(x['p'] for x in later) | set(x['p'] for x in ents if x['k'] != 'prog'))
                if 0.96 <= r < 0.975:
                    return path_to_(from_dir, rng.choice(order)['p'])
                if r < 0.99:
                    return path_to_(from_dir, rng.choice([e for e in others if e['k'] != 'prog'] or others)['p'])
            return path_to_(from_dir, rng.choice(others)['p'])
        ns = rng.choice([0, 0, 0, 1, 1, 2])
        for _ in range(ns):
            k = rng.choice(['i', 'i', 'i', 's', 'b'])
            if k == 'i' and i + 1 >= len(order) and rng.random() < 0.9:
                k = rng.choice(['s', 'b'])
            e['strict'].append([k, pick(k)])
        e['items'] = [['l', e['tag']], ['t']]
        ni = rng.choice([0, 1, 2, 3]) if i else rng.choice([2, 3, 4, 5])
        for _ in range(ni):
            k = rng.choice(['i', 'i', 'i', 's', 'b'])
            if k == 'i' and i + 1 >= len(order) and rng.random() < 0.9:
                k = rng.choice(['s', 'b'])
            e['items'].append([k, pick(k)])
    if virt:
        ents.remove(mainent)
        return {'ents': ents, 'cwd': cwd, 'J': J, 'main': '', 'priv': priv, 'virt': {'mode': virt, 'prog': mainent}}
    if len(order) >= 2 and rng.random() < 0.06:
        # a strict back-edge: an import cycle through values being computed (infinite recursion)
        j = rng.randrange(1, len(order))
        src = order[j]
        order[0]['strict'].append(['i', path_to(main_dir, src['p'])])
        src['strict'].append(['i', path_to('/'.join(src['p'].split('/')[:-1]), order[0]['p'])])
    return {'ents': ents, 'cwd': cwd, 'J': J, 'main': main, 'priv': priv}


def nontrivial_key(case, model_res, obs):
    """a case is non-trivial when at least two imports resolved and either a name was
    duplicated across candidate directories, or a file was reached twice, or it failed;
    distinct = (outcome class, #loads, #imports, has -J, duplicate names, spelling classes)"""
    f = model_res.split('\t')
    log = [x for x in f if x.startswith('L=')]
    evs = log[0][2:].split(';') if log and log[0][2:] else []
    loads = sum(1 for e in evs if e.startswith('l'))
    reads = sum(1 for e in evs if e.startswith('r'))
    if loads + reads < (2 if case.get('virt') else 3):
        return None
    return (f[0], f[1] if f[0] == 'ERR' else '', f[2] if f[0] == 'ERR' and len(f) > 2 else '', loads, reads, len(case['J']), case['cwd'] != '', case['priv'],
            (case.get('virt') or {}).get('mode'),
            hash(model_res) & 0xffff)


# ---------------------------------------------------------------- main check

def load_corpus():
    out = []
    p = os.path.join(vlib.VERIF, 'corpus', 'c13_trees.txt')
    if os.path.exists(p):
        for l in open(p):
            l = l.strip()
            if l and not l.startswith('#'):
                out.append(json.loads(l))
    return out


def run_cases(run, cases, cli, model_exe, label, unpriv_ok):
    """cases: list of (cid, case dict)"""
    mcases = [(cid, 'import', model_fields(c)) for cid, c in cases]
    model = vlib.run_sharded(model_exe, [vlib.model_line(c) for c in mcases], timeout=300)
    scratch = tempfile.mkdtemp(prefix='rsj-verif-c13.')
    try:
        os.chmod(scratch, 0o755)

        def one(item):
            cid, case = item
            root = os.path.join(scratch, cid)
            os.mkdir(root)
            os.chmod(root, 0o755)
            try:
                build_tree(root, case)
                r1 = run_cli(cli, root, case, unpriv_ok)
                if r1 is None:
                    return cid, None
                r2 = run_cli(cli, root, case, unpriv_ok)
                o1, o2 = observe(r1, root), observe(r2, root)
                by_real = {}
                for ent in case['ents']:
                    if ent['k'] != 'link':
                        by_real[os.path.realpath(os.path.join(root, ent['p']))] = ent
                orc = oracle(case, root, o1, o2, by_real)
                return cid, (o1, orc)
            except Exception as e:
                import traceback
                return cid, ('EXC', traceback.format_exc())
            finally:
                # restore modes so that the tree can be removed
                for dp, dn, fn in os.walk(root):
                    for d in dn:
                        try:
                            os.chmod(os.path.join(dp, d), 0o755)
                        except OSError:
                            pass
                shutil.rmtree(root, ignore_errors=True)

        with ThreadPoolExecutor(max_workers=vlib.NCPU) as ex:
            results = dict(ex.map(one, cases))
    finally:
        for dp, dn, fn in os.walk(scratch):
            for d in dn:
                try:
                    os.chmod(os.path.join(dp, d), 0o755)
                except OSError:
                    pass
        shutil.rmtree(scratch, ignore_errors=True)
    for cid, case in cases:
        r = results.get(cid)
        mr = model.get(cid, 'NOOUTPUT')
        if r is None:
            run.count('skipped_unprivileged_not_available')
            continue
        run.evaluations += 2
        replay = {'kind': 'tree', 'case': case, 'model': mr[:4000]}
        if r[0] == 'EXC':
            run.violation('machinery', 'check machinery failed on a case: ' + r[1][-600:], replay, concrete=False)
            continue
        obs, orc = r
        replay['impl'] = {'rc': obs['rc'], 'value': (obs['val'] or '')[:2000], 'tags': obs['tags'], 'stderr': first_error(obs['err'])}
        if orc:
            run.violation('import-' + orc[0], 'import property fails on the implementation: %s (argv -J %s %s, cwd %r)' % (
                orc[1], case['J'], case['main'], case['cwd']), replay)
            continue
        diff = compare(mr, obs)
        if diff:
            if diff[0] == 'MACHINERY':
                run.violation('machinery', diff[1], replay, concrete=False)
            else:
                # the model provably meets the property; the differing answer of the implementation is
                # a resolution / caching / delivery behaviour the property determines
                # (which diagnostic class is printed, and the order of evaluations, are not fixed by the
                # property: those are reported as a broken correspondence without a failing input)
                run.violation('import-model-' + diff[0], 'implementation differs from the proved model: %s (argv -J %s %s, cwd %r)' % (
                    diff[1], case['J'], case['main'], case['cwd']), replay,
                    concrete=diff[0] not in ('failure-class', 'evaluation-order'))
            continue
        f = mr.split('\t')
        cls = f[0] if f[0] != 'ERR' else 'ERR_' + f[1] + ('_' + f[2] if f[1] in ('IMPORT', 'MAIN') else '')
        run.count('outcome_' + cls)
        run.count(label)
        run.count('run_as_' + ('root' if case['priv'] else 'nobody'))
        run.count('main_delivered_as_' + (case['virt']['mode'] if case.get('virt') else 'file'))
        if case.get('virt'):
            run.count('virtual_main_with_%s_J' % ('no' if not case['J'] else 'some'))
        k = nontrivial_key(case, mr, obs)
        if k:
            run.nontrivial.add(k)
        if len(run.samples) < 4 and k:
            run.samples.append({'J': case['J'], 'main': case['main'], 'cwd': case['cwd'], 'files': [e['p'] for e in case['ents']][:12],
                                'model': mr[:300]})


def unit_cases(run, rng, model_exe, n):
    """parent/join/lossy of the model against independent statements of the same functions
    (Python bytes.decode for lossy; the documented examples of std::path for join/parent)"""
    cases = []
    for i in range(n):
        b = gen_payload(rng) + gen_payload(rng)
        cases.append(('u%d' % i, 'import', ['lossy', hxl(list(b))], b))
    res = vlib.run_sharded(model_exe, [vlib.model_line(c) for c in cases], timeout=120)
    for cid, _, fields, b in cases:
        run.evaluations += 1
        want = cps(b.decode('utf-8', 'replace'))
        got = res.get(cid, 'NOOUTPUT')
        if got != want:
            run.violation('machinery-lossy', 'model lossy differs from bytes.decode(utf-8, replace) on %s: %s / %s' % (b.hex(), got, want),
                          {'kind': 'lossy', 'hex': b.hex()}, concrete=False)
        run.count('unit_lossy')
    doc = [('parent', '/foo/bar', 'S' + cps('/foo')), ('parent', '/foo', 'S' + cps('/')), ('parent', '/', 'N'), ('parent', '', 'N'),
           ('parent', 'foo.txt', 'S'), ('parent', 'foo/bar/', 'S' + cps('foo')), ('parent', 'foo/./bar', 'S' + cps('foo')),
           ('parent', './foo', 'S' + cps('.')), ('parent', '.', 'S'), ('parent', '..', 'S'), ('parent', 'a/..', 'S' + cps('a')),
           ('parent', 'a//b', 'S' + cps('a')), ('parent', '//a', 'S' + cps('/')), ('parent', '/a/./', 'S' + cps('/')), ('parent', './', 'S'),
           ('parent', 'a/b/.', 'S' + cps('a')), ('parent', '../x', 'S' + cps('..'))]
    for i, (op, a, want) in enumerate(doc):
        r = vlib.run_lines(model_exe, ['p%d\tparent\t%s' % (i, cps(a))])
        if r.get('p%d' % i) != want:
            run.violation('machinery-parent', 'model parent(%r) = %s, std::path gives %s' % (a, r.get('p%d' % i), want), {'kind': 'unit'}, concrete=False)
        run.evaluations += 1
    docj = [('/etc', 'passwd', '/etc/passwd'), ('/etc', '/bin/sh', '/bin/sh'), ('a/', 'b', 'a/b'), ('', 'b', 'b'), ('a', '', 'a/'), ('/', 'x', '/x'),
            ('a', './b', 'a/./b'), ('.', 'x', './x')]
    for i, (a, b, want) in enumerate(docj):
        r = vlib.run_lines(model_exe, ['j%d\tjoin\t%s\t%s' % (i, cps(a), cps(b))])
        if r.get('j%d' % i) != cps(want):
            run.violation('machinery-join', 'model join(%r,%r) = %s, std::path gives %r' % (a, b, r.get('j%d' % i), want), {'kind': 'unit'}, concrete=False)
        run.evaluations += 1


def check(run):
    rng = vlib.rng_for(run.seed, ID)
    unpriv_ok = can_drop_privileges()
    run.rule = ('tree: a generated directory tree (1-5 directories incl. nested ones, 2-6 file names duplicated over the directories with '
                'distinct content: programs, broken programs, data with valid/ill-formed UTF-8, directories named like files; file and '
                'directory symlinks, dangling and looping ones; mode-000 files/directories), a working directory, 0-4 -J options in '
                'various spellings, a spelling of the main file — or (28%) the main program delivered as a VIRTUAL source: -e text, stdin, '
                '--ext-code / --tla-code snippet (no importer directory: its imports are absolute, -J-relative, ./ ../ or cwd-relative; 40% of those with no -J at all); every program traces its load, shows std.thisFile and 0-5 '
                'import/importstr/importbin in strict or lazy position with spellings bare, ./, ../, //, through symlinks, absolute. '
                'Each case = the real binary run twice + the extracted model. non-trivial = at least 3 loads/reads; distinct by '
                '(outcome class, #loads, #reads, #-J, cwd, privilege, predicted output).')
    run.assume = ['fs::canonicalize identifies exactly the spellings of one file (Section variable canon; the concrete instance is POSIX path resolution over the generated tree)',
                  'Path::exists / fs::read / canonicalize answer consistently during one run (no races)',
                  'std::path Path::join / Path::parent behave as transcribed (cfg(unix)); String::from_utf8_lossy replaces maximal ill-formed subparts',
                  'the language evaluator forces an imported file once per thunk (memoisation of rsjsonnet-lang, modelled as Pending/InProgress/Done)',
                  'permission faults are unobservable as root (CAP_DAC_OVERRIDE); they are exercised by running the binary as user nobody when the check runs as root'
                  + ('' if unpriv_ok else ' — NOT AVAILABLE in this run: permission cases skipped')]
    pres = vlib.prove(ID, THEOREMS, ALLOWED_AXIOMS)
    run.add_proof(pres, THEOREMS)
    model_exe = vlib.build_model('import')
    cli = vlib.build_cli()
    run.count('unprivileged_runs_available', 1 if unpriv_ok else 0)
    cases = []
    for i, c in enumerate(load_corpus()):
        cases.append(('k%d' % i, c))
    n = 400 if run.tier == 'quick' else 8000
    for i in range(n):
        cases.append(('t%d' % i, gen_case(rng, i, unpriv_ok)))
    run_cases(run, cases, cli, model_exe, 'tree_cases', unpriv_ok)
    unit_cases(run, rng, model_exe, 300 if run.tier == 'quick' else 5000)


def replay(run, path):
    j = json.load(open(path))
    r = j.get('replay', {})
    if isinstance(r, dict) and r.get('kind') == 'tree':
        run_cases(run, [('r0', r['case'])], vlib.build_cli(), vlib.build_model('import'), 'replay', can_drop_privileges())
    else:
        print('replay file names a broken obligation, not an input:', json.dumps(j.get('no_longer_checks', j), indent=1)[:2000])
        pres = vlib.prove(ID, THEOREMS, ALLOWED_AXIOMS)
        run.add_proof(pres, THEOREMS)
    for v in run.violations:
        print('REPRODUCED:', v['what'])
    if not run.violations and not run.failed_obligations:
        print('not reproduced')
    return 1 if (run.violations or run.failed_obligations) else 0
