"""C14 — lexing tiles the input and decodes literals exactly.

Proof:  Props/C14.v over Model/Utf8.v + Model/Lexer.v; the keyword / operator /
        single-byte / escape / UTF-8 range tables are re-read from the current
        source on every run (T) and proved equal to the model's.
K:      Lexer::lex_to_eof(false/true) through harness component `front`
        (lex0 / lex1) vs the extracted model on the same bytes.
Search: on the implementation alone — tiling, filter, located error, literal
        values expected by the generator, operator maximal munch against a
        Python transcription of the rule, String::from_utf8_lossy (Python's
        bytes.decode('utf-8', 'replace') = maximal-subpart practice).
"""
import os, sys, re, json, glob, itertools
import vlib
from vlib import hxl
sys.path.insert(0, os.path.dirname(os.path.dirname(os.path.abspath(__file__))))
import translate_lexer

ID = 'C14'
COMPONENTS = ['lexer']
THEOREMS = []          # filled from Props/C14.v below (kept in one place: THEOREM_LIST)
ALLOWED_AXIOMS = set()

THEOREM_LIST = '''
C14_keyword_table C14_operator_table C14_single_table C14_op_classes C14_escape_table C14_utf8_tables
C14_decode_is_lossy C14_decode_no_panic C14_decode_scalar C14_lossy_encode
C14_lex_tiles C14_lex_filter C14_lex_error_located C14_fuel_sufficient C14_lex_no_panic C14_lex_total
C14_operator_maximal_munch C14_munch_example
C14_verbatim_string_value C14_quoted_string_value C14_textblock_value C14_textblock_spec_examples C14_number_value C14_number_digits_value C14_number_denotes C14_number_strict_sub C14_number_underscore_deviation C14_number_spec_examples C14_number_value_partial C14_surrogate_pairs C14_surrogate_pairs_onto C14_quoted_spec_example
C14_nonvacuous
'''.split()
THEOREMS = THEOREM_LIST


def translate(repo):
    return translate_lexer.main(repo, os.path.join(vlib.COQ, 'Gen', 'LexTables.v'))


TRANSLATORS = [translate]

SYMS = b'!$:~+-&|^=<>*/%'
UNSURE = b'+-~!$'

# ------------------------------------------------------------------ canonical forms


def parse_rust_char(txt, i):
    """txt[i] is just after the opening quote of a Rust char Debug; returns code point"""
    if txt[i] == '\\':
        c = txt[i + 1]
        if c == 'u':
            j = txt.index('}', i)
            return int(txt[i + 3:j], 16)
        return {'n': 10, 'r': 13, 't': 9, '0': 0, '\\': 92, "'": 39, '"': 34}[c]
    return ord(txt[i])


def canon_impl(r):
    """canonical form of a front lex0/lex1 answer"""
    f = r.split('\t')
    if f[0] == 'OK':
        return 'OK\t' + (f[1] if len(f) > 1 else '')
    if f[0] == 'ERR' and len(f) >= 5 and f[1] == 'LEX':
        dbg = vlib.uncps(f[4][2:])
        var = f[2]
        p = '-'
        if var in ('InvalidChar', 'InvalidEscapeInString'):
            i = dbg.index("chr: '") + 6
            p = 'chr=%x' % parse_rust_char(dbg, i)
        elif var == 'InvalidUtf8':
            m = re.search(r'seq: \[([0-9, ]*)\]', dbg)
            p = 'seq=' + ','.join('%x' % int(x) for x in m.group(1).split(',') if x.strip())
        elif var == 'InvalidUtf16EscapeSequence':
            m = re.search(r'cu1: (\d+), cu2: (None|Some\((\d+)\))', dbg)
            p = 'cu=%x,%s' % (int(m.group(1)), ('%x' % int(m.group(3))) if m.group(3) else '-')
        return 'ERR\tLEX\t%s\t%s\tP=%s' % (var, f[3], p)
    return r


TOK_RE = re.compile(r'\((\w+)((?: [^() ]+)*) ([0-9a-f]+):([0-9a-f]+)\)')


def parse_tokens(text):
    """-> list of (kind, payload tuple, start, end)"""
    out = []
    for m in TOK_RE.finditer(text):
        out.append((m.group(1), tuple(m.group(2).split()), int(m.group(3), 16), int(m.group(4), 16)))
    return out


def cps_of(w):
    return [] if w == '-' else [int(x, 16) for x in w.split(',')]


# ------------------------------------------------------------------ oracles (implementation alone)

def py_lossy(bs):
    return [ord(c) for c in bytes(bs).decode('utf-8', 'replace')]


def oracle_structure(src, r0, r1):
    """tiling / filter / located error on the implementation's two answers; returns (key, what) or None"""
    n = len(src)
    f0, f1 = r0.split('\t'), r1.split('\t')
    for f in (f0, f1):
        if f[0] in ('PANIC', 'CRASH', 'TIMEOUT', 'NOOUTPUT'):
            return ('lexer-crash:' + f[0], 'lexer %s' % ' '.join(f[:2]))
    if f1[0] == 'OK':
        toks = parse_tokens(f1[1])
        at = 0
        for i, (k, _, a, b) in enumerate(toks):
            if a != at:
                return ('tiling-gap', 'token %d (%s) starts at %d, previous ended at %d' % (i, k, a, at))
            if k == 'EOF':
                if i != len(toks) - 1 or (a, b) != (n, n):
                    return ('tiling-eof', 'EOF token at %d:%d (index %d of %d) for %d bytes' % (a, b, i, len(toks), n))
            elif b <= a:
                return ('tiling-empty-token', 'token %d (%s) is empty: %d:%d' % (i, k, a, b))
            at = b
        if not toks or toks[-1][0] != 'EOF':
            return ('tiling-eof', 'token list does not end with EOF')
        if f0[0] != 'OK':
            return ('filter', 'lex_to_eof(true) succeeds, lex_to_eof(false) answers %s' % r0[:80])
        want = [t for t in toks if t[0] not in ('WS', 'Comment')]
        if parse_tokens(f0[1]) != want:
            return ('filter', 'lex_to_eof(false) is not lex_to_eof(true) minus whitespace/comments')
    elif f1[0] == 'ERR':
        if canon_impl(r0) != canon_impl(r1):
            return ('filter', 'different errors with and without whitespace tokens: %s / %s' % (canon_impl(r0)[:80], canon_impl(r1)[:80]))
        a, b = [int(x, 16) for x in f1[3].split(':')]
        if not (a <= b <= n):
            return ('error-span', 'error span %d:%d outside the %d-byte input' % (a, b, n))
    else:
        return ('lexer-answer', 'unexpected answer %s' % r1[:80])
    return None


def py_op_cluster(s):
    """Python transcription of the operator rule on a string of symbol bytes: list of (start, end) of
    operator tokens until a comment / text block start is met (returns tokens so far and the stop offset)"""
    i, n, out = 0, len(s), []
    while i < n:
        if s.startswith(b'//', i) or s.startswith(b'/*', i) or s.startswith(b'|||', i):
            return out, i
        j = i + 1
        while j < n and not (s.startswith(b'//', j) or s.startswith(b'/*', j) or s.startswith(b'|||', j)):
            j += 1
        while j - i > 1 and s[j - 1] in UNSURE:
            j -= 1
        out.append((i, j))
        i = j
    return out, n


def oracle_munch(src, r1):
    """src consists of symbol bytes (optionally followed by an identifier)"""
    m = re.match(rb'[!$:~+\-&|^=<>*/%]*', src)
    run = m.group(0)
    want, stop = py_op_cluster(run)
    f = r1.split('\t')
    if f[0] == 'OK':
        got = [(a, b) for (k, _, a, b) in parse_tokens(f[1]) if k in ('S', 'Op')]
        got = [g for g in got if g[1] <= stop]
        ops = [(a, b) for (a, b) in got if a < len(run)]
        if ops[:len(want)] != want:
            return ('maximal-munch', 'operator tokens %s, rule gives %s' % (ops, want))
    elif stop == len(run):
        return ('maximal-munch', 'symbol run without comment/text-block start is rejected: %s' % r1[:60])
    return None


# ------------------------------------------------------------------ generators

class Case:
    __slots__ = ('src', 'label', 'expect', 'munch', 'lossy')

    def __init__(self, src, label, expect=None, munch=False, lossy=None):
        self.src = bytes(src); self.label = label; self.expect = expect; self.munch = munch; self.lossy = lossy


def read_corpus():
    out = []
    for path in sorted(glob.glob(os.path.join(vlib.VERIF, 'corpus', 'c14_*.txt'))):
        for l in open(path):
            l = l.strip()
            if not l or l.startswith('#'):
                continue
            import ast
            out.append(Case(ast.literal_eval(l), 'corpus'))
    return out


def gen_random(rng, n):
    alph = (b"'\"\\@|/*#-+:=<>!$&^~%.,;(){}[] \t\r\n0123456789_eE" b"abcdefuxnt" b"\x80\xbf\xc0\xc1\xc2\xdf\xe0\xed\xf0\xf4\xf5\xff\xa0\x9f\x90\x8f")
    out = []
    for _ in range(n):
        ln = rng.choice([0, 1, 2, 3, 5, 8, 13, 21, 40])
        if rng.random() < 0.3:
            bs = bytes(rng.randrange(256) for _ in range(ln))
        else:
            bs = bytes(rng.choice(alph) for _ in range(ln))
        out.append(Case(bs, 'random'))
    return out


def ui_corpus():
    files = sorted(glob.glob(os.path.join(vlib.REPO, 'ui-tests', '**', '*.jsonnet'), recursive=True))
    return [open(f, 'rb').read() for f in files]


FRAGS = [b"|||", b"|||-", b"\n", b"\r\n", b"'", b'"', b"\\", b"\\u", b"\\uD800", b"\\uDC00", b"/*", b"*/", b"//", b"#", b"@'", b'@"',
         b"_", b"e", b"E+", b".", b"0", b"\xc1\x81", b"\xed\xa0\x80", b"\xf0\x9f\x98", b"\xff", b"\t", b" ", b"+", b"-", b"|", b"$"]


def gen_mutated(rng, files, n):
    out = []
    for _ in range(n):
        f = rng.choice(files)
        if len(f) > 3000:
            a = rng.randrange(len(f) - 3000)
            f = f[a:a + rng.choice([200, 1000, 3000])]
        b = bytearray(f)
        for _ in range(rng.choice([0, 1, 1, 2, 3, 6])):
            k = rng.random()
            p = rng.randrange(len(b) + 1)
            if k < 0.3 and b:
                q = min(len(b), p + rng.choice([1, 1, 2, 5, 20]))
                del b[p:q]
            elif k < 0.65:
                b[p:p] = rng.choice(FRAGS)
            elif k < 0.8 and b:
                b[min(p, len(b) - 1)] = rng.randrange(256)
            elif k < 0.9:
                del b[p:]
            else:
                q = rng.randrange(len(b) + 1)
                b[p:p] = b[q:q + rng.choice([3, 10, 40])]
        out.append(Case(bytes(b), 'mutated'))
    return out


KEYWORDS = ['assert', 'else', 'error', 'false', 'for', 'function', 'if', 'import', 'importstr', 'importbin', 'in', 'local',
            'null', 'tailstrict', 'then', 'self', 'super', 'true']
SIMPLE_ESC = {'"': 34, "'": 39, '\\': 92, '/': 47, 'b': 8, 'f': 12, 'n': 10, 'r': 13, 't': 9}
SCALARS = [0x41, 0x7f, 0x80, 0xe9, 0x7ff, 0x800, 0xfff, 0x1000, 0xd7ff, 0xe000, 0xfffd, 0xffff, 0x10000, 0x1f600, 0x3ffff,
           0x40000, 0xfffff, 0x100000, 0x10ffff, 0x20, 0x09, 0x00]


def enc(cp):
    return chr(cp).encode('utf-8')


def gen_string_body(rng, quote):
    """(source bytes of the body, expected code points) for a quoted string with delimiter quote"""
    src, val = b'', []
    for _ in range(rng.choice([0, 1, 2, 4, 8])):
        k = rng.random()
        if k < 0.3:
            c = rng.choice(list(SIMPLE_ESC))
            src += b'\\' + c.encode(); val.append(SIMPLE_ESC[c])
        elif k < 0.45:
            cp = rng.choice([0, 0x41, 0xe9, 0xd7ff, 0xe000, 0xffff, rng.randrange(0xd800), 0xe000 + rng.randrange(0x2000)])
            h = '%04x' % cp
            h = ''.join(ch.upper() if rng.random() < 0.5 else ch for ch in h)
            src += b'\\u' + h.encode(); val.append(cp)
        elif k < 0.6:
            cp = rng.choice([0x10000, 0x10ffff, 0x1f600, 0x10000 + rng.randrange(0x100000)])
            v = cp - 0x10000
            hi, lo = 0xd800 + (v >> 10), 0xdc00 + (v & 0x3ff)
            src += ('\\u%04X\\u%04x' % (hi, lo)).encode(); val.append(cp)
        elif k < 0.8:
            cp = rng.choice(SCALARS + [rng.randrange(0x20, 0x7f)])
            if cp in (quote, 92):
                continue
            src += enc(cp); val.append(cp)
        elif k < 0.9:
            oq = 34 if quote == 39 else 39
            src += bytes([oq]); val.append(oq)
        else:
            src += b'\r\n' if rng.random() < 0.5 else b'\n'
            val += [13, 10] if src.endswith(b'\r\n') else [10]
    return src, val


def gen_number(rng):
    """(text, digits string, exponent) following the lexer's Number{digits, exp} representation"""
    def digs(n, first_nonzero):
        s = ''
        for i in range(n):
            s += rng.choice('123456789' if (i == 0 and first_nonzero) else '0123456789')
        return s

    def us(s):     # sprinkle single underscores between digits
        o = s[0]
        for ch in s[1:]:
            o += ('_' if rng.random() < 0.25 else '') + ch
        return o
    ip = '0' if rng.random() < 0.2 else digs(rng.choice([1, 2, 5, 20]), True)
    text, digits, exp = us(ip), ip, 0
    if rng.random() < 0.5:
        fp = digs(rng.choice([1, 2, 7]), False)
        text += '.' + us(fp); digits += fp; exp -= len(fp)
    if rng.random() < 0.5:
        e = rng.choice([0, 1, 7, 308, 400, 9223372036854775807, rng.randrange(1000)])
        es = str(e)
        if rng.random() < 0.3:
            es = '00' + es
        sign = rng.choice(['', '+', '-'])
        text += rng.choice('eE') + sign + us(es)
        exp = exp - e if sign == '-' else exp + e
        if not (-(1 << 63) <= exp <= (1 << 63) - 1):
            return None
    return text, digits, exp


def gen_textblock(rng):
    """(source, expected code points)"""
    strip = rng.random() < 0.35
    prefix = rng.choice([b' ', b'  ', b'\t', b' \t', b'    '])
    nl = b'\n'
    src = b'|||' + (b'-' if strip else b'') + rng.choice([b'', b' ', b'\t ', b' \r', b'']) + nl
    val = []
    for _ in range(rng.choice([0, 0, 1, 2])):     # empty first lines
        if rng.random() < 0.3:
            src += b'\r\n'; val += [13, 10]
        else:
            src += b'\n'; val += [10]
    nlines = rng.choice([1, 1, 2, 3, 5])
    for i in range(nlines):
        body = b''
        bval = []
        for _ in range(rng.choice([0, 1, 3, 6])):
            cp = rng.choice(SCALARS[:18] + [0x7c, 0x20, 0x27, 0x5c, rng.randrange(0x21, 0x7f)])
            if cp in (10, 13) or (i == 0 and not body and cp in (0x20, 9)):
                continue          # leading blanks on the first line would belong to the prefix
            body += enc(cp); bval.append(cp)
        if i == 0 and rng.random() < 0.2:
            body = rng.choice([b'|||', b'x|||']) + body
            bval = [ord(c) for c in body.decode()]
        extra = rng.choice([b'', b'', b' ', b'\t']) if (i > 0 or True) else b''
        if i == 0:
            extra = b''      # extra indentation on the first line would become part of the prefix
        line = prefix + extra + body
        if rng.random() < 0.15:
            src += line + b'\r\n'
            val += list(extra) + bval + [13, 10]
        else:
            src += line + nl
            val += list(extra) + bval + [10]
        if rng.random() < 0.3:      # blank line(s) inside
            if rng.random() < 0.5:
                src += b'\n'; val += [10]
            else:
                src += b'\r\n'; val += [13, 10]
    term_ind = rng.choice([b'', b' ', b'\t', prefix[:-1]])
    if term_ind.startswith(prefix):
        term_ind = b''
    src += term_ind + b'|||'
    if strip:
        val = val[:-1]
    return src, val


def gen_grammar(rng, n):
    """token sequences with every literal form; expect = list of (kind, payload) of the non-trivia tokens"""
    out = []
    for _ in range(n):
        parts, expect = [], []
        for _ in range(rng.choice([1, 2, 3, 5, 8])):
            k = rng.random()
            if k < 0.15:
                q = rng.choice([39, 34])
                b, v = gen_string_body(rng, q)
                parts.append(bytes([q]) + b + bytes([q])); expect.append(('Str', v))
            elif k < 0.25:
                q = rng.choice([39, 34])
                v, b = [], b''
                for _ in range(rng.choice([0, 1, 3, 6])):
                    cp = rng.choice(SCALARS + [92, q, 10])
                    if cp == q:
                        b += bytes([q, q])
                    else:
                        b += enc(cp)
                    v.append(cp)
                parts.append(b'@' + bytes([q]) + b + bytes([q])); expect.append(('Str', v))
            elif k < 0.4:
                g = gen_number(rng)
                if g is None:
                    continue
                parts.append(g[0].encode()); expect.append(('Num', ([ord(c) for c in g[1]], g[2])))
            elif k < 0.5:
                b, v = gen_textblock(rng)
                parts.append(b); expect.append(('TB', v))
            elif k < 0.6:
                kw = rng.choice(KEYWORDS)
                parts.append(kw.encode()); expect.append(('S', kw))
            elif k < 0.7:
                idn = rng.choice(['x', '_', 'a1', 'If', 'iff', 'selfish', 'importstr_', 'e5', '_0', 'nulll', 'tru'])
                parts.append(idn.encode()); expect.append(('Id', [ord(c) for c in idn]))
            elif k < 0.8:
                parts.append(rng.choice([b'{', b'}', b'[', b']', b',', b'.', b'(', b')', b';']))
                expect.append(('S1', parts[-1]))
            elif k < 0.9:
                op = rng.choice([b':', b'::', b':::', b'+:', b'+::', b'+:::', b'=', b'$', b'*', b'/', b'%', b'+', b'-', b'<<', b'>>',
                                 b'<', b'<=', b'>', b'>=', b'==', b'!=', b'&', b'^', b'|', b'&&', b'||', b'!', b'~', b'<=>', b'=>', b'|>', b'**'])
                parts.append(op); expect.append(('OP', op))
            else:
                parts.append(rng.choice([b'# c\n', b'// \xe2\x82\n', b'/* * / */', b'/**/', b'# \xff\xfe\r\n']))
        # separators: whitespace always (tokens must not merge); record nothing for trivia
        src = b''
        for p in parts:
            src += p + rng.choice([b' ', b'\n', b'\t ', b'\r\n', b' /* c */ ', b' '])
        out.append(Case(src, 'grammar', expect=expect))
    return out


STOKEN_TEXT = {}


def oracle_expect(case, r0):
    """literal values: the implementation's non-trivia tokens against what the generator meant"""
    f = r0.split('\t')
    if f[0] != 'OK':
        return ('literal-rejected', 'a well-formed token sequence is rejected: %s' % canon_impl(r0)[:100])
    toks = [t for t in parse_tokens(f[1]) if t[0] != 'EOF']
    if len(toks) != len(case.expect):
        return ('literal-count', 'expected %d tokens, lexer produced %d' % (len(case.expect), len(toks)))
    for (k, pay, a, b), (ek, ev) in zip(toks, case.expect):
        text = case.src[a:b]
        if ek == 'Str':
            if k != 'Str' or cps_of(pay[0]) != ev:
                return ('literal-value:string', 'string literal %r lexed as %s %s, grammar value %s' % (text, k, pay, hxl(ev)))
        elif ek == 'TB':
            if k != 'TB' or cps_of(pay[0]) != ev:
                return ('literal-value:textblock', 'text block %r lexed as %s %s, grammar value %s' % (text, k, pay, hxl(ev)))
        elif ek == 'Num':
            e = int(pay[1].replace('-', '-0x') if pay[1].startswith('-') else '0x' + pay[1], 16) if k == 'Num' else None
            if k != 'Num' or cps_of(pay[0]) != ev[0] or e != ev[1]:
                return ('literal-value:number', 'number %r lexed as %s %s, expected digits %s exp %d' % (text, k, pay, hxl(ev[0]), ev[1]))
        elif ek == 'Id':
            if k != 'Id' or cps_of(pay[0]) != ev:
                return ('literal-value:ident', 'identifier %r lexed as %s %s' % (text, k, pay))
        elif ek == 'S':
            want = 'Self_' if ev == 'self' else ev.capitalize()
            if k != 'S' or pay[0] != want or text != ev.encode():
                return ('literal-value:keyword', 'keyword %r lexed as %s %s' % (text, k, pay))
        elif ek in ('S1', 'OP'):
            if k not in ('S', 'Op') or text != ev:
                return ('literal-value:operator', 'operator %r lexed as %s %s covering %r' % (ev, k, pay, text))
            if k == 'Op' and cps_of(pay[0]) != list(ev):
                return ('literal-value:operator', 'operator %r carries text %s' % (ev, pay))
    return None


def gen_clusters(rng, tier):
    out = []
    for ln in (1, 2, 3):
        for t in itertools.product(SYMS, repeat=ln):
            out.append(Case(bytes(t), 'cluster', munch=True))
    all4 = [bytes(t) for t in itertools.product(SYMS, repeat=4)]
    if tier == 'quick':
        all4 = rng.sample(all4, 2000)
    out += [Case(b, 'cluster', munch=True) for b in all4]
    # clusters followed by an identifier / preceded by one, and longer random ones
    for _ in range(400 if tier == 'quick' else 4000):
        b = bytes(rng.choice(SYMS) for _ in range(rng.choice([2, 3, 5, 6, 8])))
        out.append(Case(b + rng.choice([b'x', b' 1', b'', b'\n']), 'cluster', munch=True))
    return out


def gen_numberlike(rng, tier):
    """number-shaped strings, mostly malformed: every string over 0 1 _ . e + - up to a length, and longer samples"""
    alph = b'01_.e+-'
    out = []
    for ln in range(1, 5 if tier == 'quick' else 6):
        for t in itertools.product(alph, repeat=ln):
            out.append(Case(bytes(t), 'numberlike'))
    for _ in range(1500 if tier == 'quick' else 20000):
        b = bytes([rng.choice(b'0123456789')]) + bytes(rng.choice(b'0019__..eE+-') for _ in range(rng.choice([4, 5, 6, 8])))
        out.append(Case(b + rng.choice([b'', b' ', b'x']), 'numberlike'))
    return out


CONT_REPS = [0x00, 0x27, 0x7f, 0x80, 0x8f, 0x90, 0x9f, 0xa0, 0xbf, 0xc0, 0xc2, 0xe0, 0xf0, 0xff]
CONT_REPS_SHORT = [0x41, 0x80, 0x9f, 0xa0, 0xbf, 0xc2, 0xff]

CONTEXTS = [
    ('sq', b"'", b"'", 'Str'), ('dq', b'"', b'"', 'Str'), ('vsq', b"@'", b"'", 'Str'), ('vdq', b'@"', b'"', 'Str'),
    ('tb', b"|||\n x", b"\n|||", 'TB'), ('lc', b"// ", b"\n1", None), ('hc', b"# ", b"", None), ('bc', b"/* ", b" */ 1", None),
]


def utf8_case(seq, ctx):
    name, pre, post, kind = ctx
    body = bytes(seq)
    if kind == 'Str':
        d = pre[-1]
        body = bytes(b for b in body if b not in (d, 92))
        if name.startswith('v'):
            pass
    if kind == 'TB':
        body = bytes(b for b in body if b != 10)
    if kind is None and name in ('lc', 'hc'):
        body = bytes(b for b in body if b != 10)
    if name == 'bc':
        body = body.replace(b'*/', b'*')
    src = pre + body + post
    lossy = None
    if kind == 'Str':
        lossy = (kind, py_lossy(body))
    elif kind == 'TB':
        lossy = (kind, [ord('x')] + py_lossy(body) + [10])
    return Case(src, 'utf8-' + name, lossy=lossy)


def gen_utf8(rng, tier):
    seqs = []
    for b0 in range(256):
        seqs.append([b0])
        for b1 in CONT_REPS:
            seqs.append([b0, b1])
    leads = [0xc0, 0xc1, 0xc2, 0xdf, 0xe0, 0xe1, 0xec, 0xed, 0xee, 0xef, 0xf0, 0xf1, 0xf3, 0xf4, 0xf5, 0xf7, 0xf8, 0x80, 0xbf]
    triples = [[b0, b1, b2] for b0 in (leads if tier == 'quick' else range(0x80, 256)) for b1 in CONT_REPS for b2 in CONT_REPS_SHORT]
    quads = [[b0, b1, b2, b3] for b0 in (leads if tier == 'quick' else range(0xc0, 256)) for b1 in CONT_REPS[3:10]
             for b2 in CONT_REPS_SHORT for b3 in CONT_REPS_SHORT]
    if tier == 'quick':
        triples = rng.sample(triples, 900)
        quads = rng.sample(quads, 900)
    seqs += triples + quads
    out = []
    for s in seqs:
        ctxs = CONTEXTS if tier == 'thorough' and len(s) <= 2 else [rng.choice(CONTEXTS[:5]), rng.choice(CONTEXTS)]
        for c in ctxs:
            tail = rng.choice([[], [0x41], [0xe9 >> 6 | 0xc0, 0xa9]])
            out.append(utf8_case(s + tail, c))
    # every scalar value inside a string body (thorough: all; quick: boundaries and a sample)
    if tier == 'thorough':
        blocks = [range(a, min(a + 512, 0x110000)) for a in range(0, 0x110000, 512)]
    else:
        starts = [0, 0x700, 0xd700, 0xdf00, 0xff00, 0x10000 - 256, 0x10ff00] + [rng.randrange(0x110000) & ~0xff for _ in range(20)]
        blocks = [range(a, a + 256) for a in starts]
    for blk in blocks:
        cps = [c for c in blk if not (0xd800 <= c <= 0xdfff) and c not in (39, 92)]
        if cps:
            body = ''.join(chr(c) for c in cps).encode('utf-8')
            out.append(Case(b"'" + body + b"'", 'scalars', lossy=('Str', cps)))
    return out


def oracle_lossy(case, r0):
    kind, want = case.lossy
    f = r0.split('\t')
    if f[0] != 'OK':
        return ('utf8-rejected', 'a string body with arbitrary bytes is rejected: %s' % canon_impl(r0)[:100])
    toks = [t for t in parse_tokens(f[1]) if t[0] == kind]
    if len(toks) != 1:
        return ('utf8-token-count', 'expected one %s token' % kind)
    got = cps_of(toks[0][1][0])
    if got != want:
        body = case.src
        # name the failure class after the first byte sequence decoded differently
        key = 'utf8-lossy'
        m = re.search(rb'[\xc0\xc1][\x80-\xbf]', body)
        if m and 0xfffd in want:
            key = 'utf8-overlong-lead-c0-c1'
        return (key, 'bytes %s in a %s literal decode to %s; lossy UTF-8 decoding gives %s' % (hxl(list(body)), kind, hxl(got), hxl(want)))
    return None


# ------------------------------------------------------------------ running

def kind_signature(r):
    f = r.split('\t')
    if f[0] == 'OK':
        ks = [t[0] + (':' + t[1][0] if t[0] == 'S' else '') for t in parse_tokens(f[1])]
        return 'OK:' + ','.join(ks[:24])
    return ':'.join(f[:3])


def run_cases(run, cases, impl_exe, model_exe, first_id=0):
    lines_i, lines_m = [], []
    for i, c in enumerate(cases):
        h = hxl(list(c.src))
        for m in ('lex0', 'lex1'):
            cid = '%s%d' % ('a' if m == 'lex0' else 'b', first_id + i)
            lines_i.append('%s\tfront\t%s\t%s' % (cid, m, h))
            lines_m.append('%s\t%s\t%s' % (cid, m, h))
    impl = vlib.run_sharded(impl_exe, lines_i, timeout=300)
    model = vlib.run_sharded(model_exe, lines_m, timeout=300)
    for i, c in enumerate(cases):
        ia, ib = impl.get('a%d' % (first_id + i), 'NOOUTPUT'), impl.get('b%d' % (first_id + i), 'NOOUTPUT')
        ma, mb = model.get('a%d' % (first_id + i), 'NOOUTPUT'), model.get('b%d' % (first_id + i), 'NOOUTPUT')
        run.evaluations += 2
        run.count('cases_' + c.label)
        run.count('len_%s' % ('0' if not c.src else '1-8' if len(c.src) <= 8 else '9-64' if len(c.src) <= 64 else '65-1k' if len(c.src) <= 1024 else '>1k'))
        replay = {'kind': 'lex', 'bytes_hex': hxl(list(c.src)), 'label': c.label, 'impl_lex1': ib[:400], 'model_lex1': mb[:400]}
        if c.expect is not None:
            replay['expect'] = json.dumps([(k, v.decode('latin1') if isinstance(v, bytes) else v) for k, v in c.expect])
        if c.lossy is not None:
            replay['lossy'] = [c.lossy[0], c.lossy[1]]
        if c.munch:
            replay['munch'] = True
        found = oracle_structure(c.src, ia, ib)
        if not found and c.expect is not None:
            found = oracle_expect(c, ia)
        if not found and c.munch:
            found = oracle_munch(c.src, ib)
        if not found and c.lossy is not None:
            found = oracle_lossy(c, ia)
        sig = kind_signature(ib)
        run.count('outcome_' + sig.split(':')[0] + (':' + sig.split(':')[2] if sig.startswith('ERR') and sig.count(':') >= 2 else ''))
        if found:
            run.violation(found[0], '%s (input %r)' % (found[1], c.src[:80]), replay)
            continue
        bad_model = [m for m in (ma, mb) if m.startswith(('MODELEXC', 'NOOUTPUT', 'FUEL', 'CRASH', 'TIMEOUT'))]
        if bad_model:
            run.violation('model-machinery', 'model driver answered %s on %r' % (bad_model[0][:80], c.src[:80]), replay, concrete=False)
            continue
        ca, cb = canon_impl(ia), canon_impl(ib)
        if ca != ma or cb != mb:
            ci, cm = (cb, mb) if cb != mb else (ca, ma)
            if ci.split('\t')[0] != cm.split('\t')[0] or ci.startswith('OK'):
                # accept/reject or token payloads differ: the model provably tiles and carries the grammar's
                # values, so the implementation's different answer is the failure
                run.violation('lex-correspondence-tokens', 'lexer and verified model disagree on %r: implementation %s / model %s'
                              % (c.src[:80], ci[:160], cm[:160]), replay)
            else:
                run.violation('lex-correspondence-error', 'lexer and model report different errors on %r: %s / %s'
                              % (c.src[:80], ci[:120], cm[:120]), replay, concrete=False)
            continue
        run.nontrivial.add(sig)
        if len(run.samples) < 6 and c.label not in [s.get('label') for s in run.samples]:
            run.samples.append({'component': 'lexer', 'label': c.label, 'source': repr(c.src[:120]), 'result': cb[:300]})


def check_decode(run, model_exe, rng, tier):
    """model-level: decode_all (the code) = lossy (the specification) = Python's replace-decoder, and
    lossy(encode s) = s, on byte strings — a run-time echo of C14_decode_is_lossy / C14_lossy_encode"""
    seqs = []
    for b0 in range(256):
        for b1 in CONT_REPS:
            seqs.append([b0, b1, 0x41])
    for _ in range(2000 if tier == 'quick' else 40000):
        seqs.append([rng.choice([rng.randrange(256), rng.choice(CONT_REPS), rng.choice([0xe0, 0xed, 0xf0, 0xf4, 0xc2])])
                     for _ in range(rng.choice([1, 2, 3, 4, 6, 9]))])
    lines = ['d%d\tdecode\t%s' % (i, hxl(s)) for i, s in enumerate(seqs)]
    res = vlib.run_sharded(model_exe, lines, timeout=300)
    bad = 0
    for i, s in enumerate(seqs):
        r = res.get('d%d' % i, 'NOOUTPUT')
        want = hxl(py_lossy(s))
        run.evaluations += 1
        if r != 'D=%s\tL=%s' % (want, want):
            bad += 1
            if bad <= 3:
                d = r.split('\t')[0]
                key = 'spec-lossy-vs-python' if r.split('\t')[-1] != 'L=' + want else 'model-decode-not-lossy'
                run.violation(key, 'bytes %s: model %s, Python lossy %s' % (hxl(s), r, want),
                              {'kind': 'decode', 'bytes_hex': hxl(s)}, concrete=False)
    run.count('decode_cases', len(seqs))


def check(run):
    rng = vlib.rng_for(run.seed, ID)
    run.rule = ('inputs: corpus; random bytes (lexer-relevant alphabet and uniform); mutated ui-tests programs; grammar-generated token '
                'sequences (every literal form with generator-known values); all strings over the 15 symbol characters of length <= 3 '
                'and a sample (quick) / all (thorough) of length 4; all number-shaped strings over 0 1 _ . e + - up to length 4 (thorough 5) plus longer samples; every lead byte x continuation-class representatives inside quoted, '
                'verbatim, text-block bodies and comments; blocks of consecutive scalar values (thorough: all scalars). Each input is '
                'lexed with and without whitespace tokens on both sides. non-trivial = distinct token-kind sequence (first 24 kinds, '
                'simple tokens by name) or error variant, among cases where implementation and model agree.')
    run.assume = ['inputs are shorter than 2^63 bytes (isize implicit exponent of a number never overflows)',
                  'SpanManager::intern_span is modelled by its asserts only (C16 proves the id round trip)',
                  'String::from_utf8_lossy is represented by the Table 3-7 automaton lossy (proved to invert the textbook encoder) and, at run time, by Python\'s bytes.decode(errors=replace)']
    try:
        translate(vlib.REPO)
        run.add_obligation('T:lexer tables translated from token.rs / lexer/mod.rs', True)
    except Exception as e:
        run.add_obligation('T:lexer tables translated from token.rs / lexer/mod.rs', False, str(e))
    pres = vlib.prove(ID, THEOREMS, ALLOWED_AXIOMS)
    run.add_proof(pres, THEOREMS)
    impl_exe = vlib.build_harness()
    model_exe = vlib.build_model('lexer')
    quick = run.tier == 'quick'
    cases = read_corpus()
    cases += gen_clusters(rng, run.tier)
    cases += gen_utf8(rng, run.tier)
    cases += gen_numberlike(rng, run.tier)
    cases += gen_grammar(rng, 2000 if quick else 30000)
    cases += gen_random(rng, 2000 if quick else 40000)
    cases += gen_mutated(rng, ui_corpus(), 900 if quick else 8000)
    chunk = 20000
    for a in range(0, len(cases), chunk):
        run_cases(run, cases[a:a + chunk], impl_exe, model_exe, first_id=a)
    check_decode(run, model_exe, rng, run.tier)


def replay(run, path):
    j = json.load(open(path))
    r = j.get('replay', {})
    if isinstance(r, dict) and r.get('kind') == 'lex':
        src = bytes(int(x, 16) for x in r['bytes_hex'].split(',')) if r['bytes_hex'] else b''
        c = Case(src, r.get('label', 'replay'), munch=bool(r.get('munch')))
        if 'lossy' in r:
            c.lossy = (r['lossy'][0], r['lossy'][1])
        if 'expect' in r:
            c.expect = [(k, v.encode('latin1') if isinstance(v, str) and k in ('S1', 'OP') else (tuple(v) if k == 'Num' else v))
                        for k, v in json.loads(r['expect'])]
        run_cases(run, [c], vlib.build_harness(), vlib.build_model('lexer'))
    elif isinstance(r, dict) and r.get('kind') == 'decode':
        model_exe = vlib.build_model('lexer')
        s = [int(x, 16) for x in r['bytes_hex'].split(',')]
        res = vlib.run_lines(model_exe, ['d0\tdecode\t%s' % hxl(s)])['d0']
        want = hxl(py_lossy(s))
        if res != 'D=%s\tL=%s' % (want, want):
            run.violation('decode', 'bytes %s: model %s, Python lossy %s' % (hxl(s), res, want), r, concrete=False)
    else:
        print('replay file names a broken obligation, not an input:', json.dumps(j.get('no_longer_checks', j), indent=1)[:2000])
        try:
            translate(vlib.REPO)
        except Exception as e:
            run.failed_obligations.append('T: %s' % e)
        pres = vlib.prove(ID, THEOREMS, ALLOWED_AXIOMS)
        run.add_proof(pres, THEOREMS)
    for v in run.violations:
        print('REPRODUCED:', v['what'])
    if not run.violations and not run.failed_obligations:
        print('not reproduced')
    return 1 if (run.violations or run.failed_obligations) else 0
