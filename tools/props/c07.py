"""C07 — object inheritance is associative, late-bound and visibility-preserving.

Proof:  Props/C07.v over Model/Objects.v (layer algebra of data.rs copied as written).
K:      generated chains of object expressions; the Jsonnet program observing a chain runs through
        the real pipeline (harness component `eval`), the abstract layer description through the
        extracted model; every observer is compared (std.length, in, objectHas(All),
        objectFields(All), o.f for each name, manifestation; super.f / f in super / self.g / +:
        inside layers).
Search: on the implementation alone — all bracketings of a chain observe identically; observers
        agree pairwise on which fields exist; {} is a two-sided identity; std.objectRemoveKey
        leaves every other field intact; self is late-bound; super sees only layers to the left.
"""
import os, sys, re, json, random
import vlib
from vlib import hxl

ID = 'C07'
COMPONENTS = ['objects']
THEOREMS = ['C07_extend_assoc', 'C07_asserts_extend', 'C07_assert_only_layer_matters', 'C07_extend_empty_r', 'C07_extend_empty_l',
            'C07_extend_empty_r_values', 'C07_extend_empty_l_values', 'C07_remove_key_values',
            'C07_find_field_spec', 'C07_find_field_found', 'C07_no_panic_no_fuel',
            'C07_super_starts_left', 'C07_extend_super_of_left', 'C07_self_is_final', 'C07_self_sees_override',
            'C07_visibility_rule', 'C07_default_override_keeps_inherited',
            'C07_fields_order_sorted_nodup', 'C07_fields_order_entry', 'C07_fields_order_agree',
            'C07_fields_order_agree_visible', 'C07_observers_agree',
            'C07_remove_key_exact', 'C07_remove_key_order', 'C07_remove_then_extend',
            'C07_extend_then_remove_hides_only_inner', 'C07_build_wf', 'C07_build_assoc', 'C07_nonvacuous', 'C07_prefix_defect_witness']
ALLOWED_AXIOMS = set()
TRANSLATORS = []

ALPHABETS = [['a', 'b', 'c', 'd'], ['a', 'b', 'c', 'd'], ['a', 'aa', 'b', 'B'], ['é', 'z', '日', 'a b']]
PROBE1, PROBE2 = 'zy', 'zz'       # names outside every alphabet, used by the oracle's probes
ERRKINDS = {'UnknownObjectField', 'SuperWithoutSuperObject', 'InfiniteRecursion', 'InvalidBinaryOpTypes'}

# ---------------------------------------------------------------- abstract descriptions
# body : ['n', z] | ['u'] | ['s', name] | ['p', name] | ['i', name] | ['a', body, body]
# field: [name, vis ('d'|'h'|'v'), plus (0|1), body]
# assert: [message number or None, body]      rendered  assert (body) != 0 : "m<number>"
# expr : ['L', [field...], style, [assert...]] | ['P', expr, expr] | ['R', expr, name] | ['M', c, expr] | ['N', expr] | ['G', expr, expr]
# a chain is a list of exprs (its atoms) combined with + in some bracketing


def nm_tok(n):
    return '.'.join('%x' % ord(c) for c in n) if n else '-'


def z_tok(z):
    return ('-%x' % -z) if z < 0 else '%x' % z


def body_tok(b):
    k = b[0]
    if k == 'n':
        return 'n ' + z_tok(b[1])
    if k == 'u':
        return 'u'
    if k in 'spi':
        return k + ' ' + nm_tok(b[1])
    return 'a ' + body_tok(b[1]) + ' ' + body_tok(b[2])


def expr_tok(e):
    k = e[0]
    if k == 'L':
        asr = e[3] if len(e) > 3 else []
        return ' '.join(['L', str(len(e[1]))] + ['%s %s %d %s' % (nm_tok(f[0]), f[1], f[2], body_tok(f[3])) for f in e[1]]
                        + [str(len(asr))] + ['%s %s' % ('-' if a[0] is None else '%x' % a[0], body_tok(a[1])) for a in asr])
    if k == 'P':
        return 'P ' + expr_tok(e[1]) + ' ' + expr_tok(e[2])
    if k == 'R':
        return 'R ' + expr_tok(e[1]) + ' ' + nm_tok(e[2])
    if k == 'M':
        return 'M ' + z_tok(e[1]) + ' ' + expr_tok(e[2])
    if k == 'N':
        return 'N ' + expr_tok(e[1])
    if k == 'G':
        return 'G ' + expr_tok(e[1]) + ' ' + expr_tok(e[2])
    raise ValueError(k)


def bracketings(lo, hi, memo=None):
    """all binary trees over the atom indices lo..hi-1; a tree is an int or a pair"""
    if memo is None:
        memo = {}
    if (lo, hi) in memo:
        return memo[(lo, hi)]
    if hi - lo == 1:
        r = [lo]
    else:
        r = []
        for m in range(lo + 1, hi):
            for a in bracketings(lo, m, memo):
                for b in bracketings(m, hi, memo):
                    r.append((a, b))
    memo[(lo, hi)] = r
    return r


def random_tree(rng, lo, hi):
    if hi - lo == 1:
        return lo
    m = rng.randint(lo + 1, hi - 1)
    return (random_tree(rng, lo, m), random_tree(rng, m, hi))


def left_tree(lo, hi):
    t = lo
    for i in range(lo + 1, hi):
        t = (t, i)
    return t


def tree_expr(t, atoms):
    if isinstance(t, int):
        return atoms[t]
    return ['P', tree_expr(t[0], atoms), tree_expr(t[1], atoms)]


def tree_key(t):
    return str(t).replace(' ', '')


def names_per_layer(e, acc):
    """list of name sets, one per literal layer (for the non-triviality rule)"""
    k = e[0]
    if k == 'L':
        acc.append(set(f[0] for f in e[1]))
    elif k in 'PG':
        names_per_layer(e[1], acc); names_per_layer(e[2], acc)
    elif k == 'R':
        names_per_layer(e[1], acc); acc.append({e[2]})
    elif k == 'M':
        names_per_layer(e[2], acc)
    elif k == 'N':
        names_per_layer(e[1], acc)
    return acc


# ---------------------------------------------------------------- generator

def gen_body(rng, names, depth=0, safe=False):
    r = rng.random()
    if safe:
        # sources of std.prune / std.mergePatch are forced while the object is built: keep most of them error-free
        if r < 0.70:
            return ['n', rng.choice([0, 1, 2, 3, 5, 7, 10, 20, 50, 100, -1, -4])]
        if r < 0.85:
            return ['u']
        if r < 0.93:
            return ['s', rng.choice(names)]
        if r < 0.97:
            return ['i', rng.choice(names)]
        return ['p', rng.choice(names)]
    if r < 0.42:
        return ['n', rng.choice([0, 1, 2, 3, 5, 7, 10, 20, 50, 100, -1, -4])]
    if r < 0.47:
        return ['u']
    if r < 0.65:
        return ['s', rng.choice(names)]
    if r < 0.80:
        return ['p', rng.choice(names)]
    if r < 0.90:
        return ['i', rng.choice(names)]
    if depth >= 2:
        return ['n', rng.randint(0, 9)]
    return ['a', gen_body(rng, names, depth + 1), gen_body(rng, names, depth + 1)]


def gen_asserts(rng, names, many=False):
    out = []
    for _ in range(rng.choice([1, 1, 2, 3] if many else [1, 1, 2])):
        r = rng.random()
        if r < 0.28:
            b = ['n', 1]
        elif r < 0.36:
            b = ['n', 0]
        elif r < 0.68:
            b = ['s', rng.choice(names)]
        elif r < 0.78:
            b = ['p', rng.choice(names)]
        elif r < 0.88:
            b = ['i', rng.choice(names)]
        else:
            b = ['a', ['s', rng.choice(names)], ['n', rng.choice([0, 1, -1, -4])]]
        out.append([rng.choice([None, None, 1, 2, 3, 10]), b])
    return out


def gen_literal(rng, names, safe=False, noassert=False):
    r0 = rng.random()
    if r0 < 0.10:
        # a layer WITHOUT fields that may still matter: only asserts, only object locals, only
        # null-named computed fields, or a mix of them
        asr = gen_asserts(rng, names, True) if (not noassert and rng.random() < 0.75) else []
        return ['L', [], 'fieldless', asr]
    if r0 < 0.20:
        # comprehension-built layer: same body, default visibility for every field
        k = rng.choice([1, 2, 2, 3])
        ns = rng.sample(names, k)
        plus = 1 if rng.random() < (0.08 if safe else 0.25) else 0
        b = gen_body(rng, names, 0, safe)
        return ['L', [[n, 'd', plus, b] for n in ns], 'comp', []]
    k = rng.choice([0, 1, 1, 1, 2, 2, 2, 3, 4])
    ns = rng.sample(names, k)
    fs = []
    for n in ns:
        v = rng.choice('ddddhhvv')
        plus = 1 if rng.random() < (0.08 if safe else 0.25) else 0
        fs.append([n, v, plus, gen_body(rng, names, 0, safe)])
    asr = gen_asserts(rng, names) if (not noassert and rng.random() < 0.10) else []
    return ['L', fs, 'lit', asr]


def gen_atom(rng, names, depth, safe=False, noassert=False):
    r = rng.random()
    if depth >= 2 or r < 0.62:
        return gen_literal(rng, names, safe, noassert)
    if r < 0.84:
        return ['R', gen_chain_expr(rng, names, depth + 1, safe, noassert), rng.choice(names)]
    if r < 0.90:
        # the asserts of a mapWithKey source run lazily inside its call thunks (not modelled): keep it assert-free
        return ['M', rng.choice([10, 100, 1000]), gen_chain_expr(rng, names, depth + 1, safe, True)]
    if r < 0.95:
        return ['N', gen_chain_expr(rng, names, depth + 1, True, noassert)]
    return ['G', gen_chain_expr(rng, names, depth + 1, True, noassert), gen_chain_expr(rng, names, depth + 1, True, noassert)]


def gen_chain_expr(rng, names, depth, safe=False, noassert=False):
    k = rng.choice([1, 1, 2, 2, 3])
    atoms = [gen_atom(rng, names, depth, safe, noassert) for _ in range(k)]
    return tree_expr(random_tree(rng, 0, k), atoms)


def gen_chain(rng):
    names = rng.choice(ALPHABETS)
    k = rng.choice([2, 2, 3, 3, 3, 4, 4, 5, 6])
    atoms = [gen_atom(rng, names, 0) for _ in range(k)]
    return {'names': names, 'atoms': atoms, 'tree': random_tree(rng, 0, k)}


# ---------------------------------------------------------------- rendering to Jsonnet

IDENT = re.compile(r'^[A-Za-z_][A-Za-z0-9_]*$')
KEYWORDS = {'assert', 'else', 'error', 'false', 'for', 'function', 'if', 'import', 'importstr', 'importbin',
            'in', 'local', 'null', 'tailstrict', 'then', 'self', 'super', 'true'}


def jstr(s):
    return json.dumps(s, ensure_ascii=False)


def is_ident(n):
    return bool(IDENT.match(n)) and n not in KEYWORDS


def render_body(rng, b):
    k = b[0]
    if k == 'n':
        return str(b[1]) if b[1] >= 0 else '(%d)' % b[1]
    if k == 'u':
        return 'null'
    if k == 's':
        n = b[1]
        forms = ['self[%s]' % jstr(n), '$[%s]' % jstr(n)]
        if is_ident(n):
            forms += ['self.' + n, 'self.' + n, '$.' + n]
        return rng.choice(forms)
    if k == 'p':
        n = b[1]
        forms = ['super[%s]' % jstr(n)]
        if is_ident(n):
            forms += ['super.' + n, 'super.' + n]
        return rng.choice(forms)
    if k == 'i':
        return '(if %s in super then 1 else 0)' % jstr(b[1])
    return '(%s + %s)' % (render_body(rng, b[1]), render_body(rng, b[2]))


def render_fname(rng, n):
    forms = [jstr(n), '[%s]' % jstr(n), '[%s + ""]' % jstr(n), '[if true then %s]' % jstr(n)]
    if is_ident(n):
        forms += [n, n, n]
    return rng.choice(forms)


VIS = {'d': ':', 'h': '::', 'v': ':::'}


def render_assert(rng, a):
    msg, b = a
    if b == ['n', 1] and rng.random() < 0.6:
        cond = 'true'
    elif b == ['n', 0] and rng.random() < 0.6:
        cond = 'false'
    else:
        cond = '%s != 0' % render_body(rng, b)
    return 'assert %s%s' % (cond, '' if msg is None else ' : "m%x"' % msg)


def render_literal(rng, e):
    fs, style = e[1], (e[2] if len(e) > 2 else 'lit')
    asr = e[3] if len(e) > 3 else []
    if style == 'comp' and fs:
        ns = [f[0] for f in fs]
        b = render_body(rng, fs[0][3])
        loc = ''
        if rng.random() < 0.3:
            loc = 'local t = %s, ' % b
            b = 't'
        return '{ %s[k]%s: %s for k in [%s] }' % (loc, '+' if fs[0][2] else '', b, ', '.join(jstr(n) for n in ns))
    parts = []
    for i, f in enumerate(fs):
        b = render_body(rng, f[3])
        if rng.random() < 0.15:
            parts.append('local t%d = %s' % (i, b))
            b = 't%d' % i
        parts.append('%s%s%s %s' % (render_fname(rng, f[0]), '+' if f[2] else '', VIS[f[1]], b))
    noise = ['[null]: 1', '[if false then "q"]: 2', 'local unused = self', 'local z = 1']
    if style == 'fieldless':
        parts += rng.sample(noise, rng.choice([0, 1, 1, 2]) if asr else rng.choice([1, 1, 2]))
    elif rng.random() < 0.12:
        parts.append(rng.choice(noise))
    aparts = [render_assert(rng, a) for a in asr]      # asserts keep their order (the first failing one is reported)
    rng.shuffle(parts)
    # interleave the asserts, in order, at random positions
    pos = sorted(rng.randint(0, len(parts)) for _ in aparts)
    for off, (i, ap) in enumerate(zip(pos, aparts)):
        parts.insert(i + off, ap)
    return '{ ' + ', '.join(parts) + ' }' if parts else '{ }'


def render_expr(rng, e):
    k = e[0]
    if k == 'L':
        return render_literal(rng, e)
    if k == 'P':
        a, b = render_expr(rng, e[1]), render_expr(rng, e[2])
        if e[2][0] == 'L' and rng.random() < 0.2:
            return '((%s) %s)' % (a, b)          # e { ... } is sugar for e + { ... }
        return '(%s + %s)' % (a, b)
    if k == 'R':
        return 'std.objectRemoveKey(%s, %s)' % (render_expr(rng, e[1]), jstr(e[2]))
    if k == 'M':
        return 'std.mapWithKey(function(k, v) v + %d, %s)' % (e[1], render_expr(rng, e[2]))
    if k == 'N':
        return 'std.prune(%s)' % render_expr(rng, e[1])
    if k == 'G':
        return 'std.mergePatch(%s, %s)' % (render_expr(rng, e[1]), render_expr(rng, e[2]))
    raise ValueError(k)


def combine(t, texts):
    if isinstance(t, int):
        return texts[t]
    return '(%s + %s)' % (combine(t[0], texts), combine(t[1], texts))


def prelude(names):
    """every name of the alphabet (and the probes) occurs as a literal field name, hence is interned at
    parse time: the evaluator short-cuts on names that are not interned anywhere in the program
    (std.objectRemoveKey returns its argument, super[e] reports an unknown field before looking for
    a super object); the model describes the interned case"""
    return 'local names_ = { %s }; ' % ', '.join('%s: 0' % jstr(n) for n in list(names) + [PROBE1, PROBE2])


def observer_programs(otext, names):
    """the Jsonnet programs observing the object expression [otext]"""
    q = [jstr(n) for n in names]
    P = {}
    P['struct'] = ('local o = %s; { len: std.length(o), in_: [%s], has: [%s], hasall: [%s], '
                   'fields: std.objectFields(o), fieldsall: std.objectFieldsAll(o) }'
                   % (otext, ', '.join('%s in o' % s for s in q), ', '.join('std.objectHas(o, %s)' % s for s in q),
                      ', '.join('std.objectHasAll(o, %s)' % s for s in q)))
    P['man'] = 'local o = %s; o' % otext
    for i, n in enumerate(names):
        P['val%d' % i] = 'local o = %s; o%s' % (otext, ('.' + n) if is_ident(n) and i % 2 == 0 else '[%s]' % jstr(n))
    return P


def allvals_program(otext):
    return 'local o = %s; { [n]: o[n] for n in std.objectFieldsAll(o) }' % otext


# ---------------------------------------------------------------- answers

def impl_answer(r):
    """canonical implementation answer: ('OK', json) | ('ERR', variant) | ('BAD', text)"""
    f = r.split('\t')
    if f[0] == 'OK':
        try:
            return ('OK', json.loads(vlib.uncps(f[1]), object_pairs_hook=lambda kv: [('__obj__', None)] + kv))
        except Exception as e:
            return ('BAD', 'unparsable output %r' % vlib.uncps(f[1])[:100])
    if f[0] == 'ERR' and len(f) > 2:
        if f[1] == 'EVAL' and f[2] == 'AssertFailed':
            # the user message is part of the outcome
            return ('ERR', 'AssertFailed:' + (vlib.uncps(f[3]) if len(f) > 3 and f[3] != '-' else '-'))
        return ('ERR', f[1] + ':' + f[2]) if f[1] != 'EVAL' else ('ERR', f[2])
    return ('BAD', r[:100])


def obj_pairs(j):
    """[(name, value)...] of a parsed JSON object (order kept)"""
    if isinstance(j, list) and j and j[0] == ('__obj__', None):
        return [(k, v) for k, v in j[1:]]
    return None


def model_answer(r):
    d = {}
    for kv in r.split(';'):
        k, _, v = kv.partition('=')
        d[k] = v
    return d


def un_nm(t):
    return '' if t == '-' else ''.join(chr(int(x, 16)) for x in t.split('.'))


def model_val(t):
    """model value token -> ('OK', python value) | ('ERR', kind) | ('BAD', text)"""
    if t == 'null':
        return ('OK', None)
    if t.startswith('v'):
        s = t[1:]
        return ('OK', -int(s[1:], 16) if s.startswith('-') else int(s, 16))
    if t.startswith('E'):
        return ('ERR', t[1:])
    return ('BAD', t)


def same_val(a, b):
    if a[0] != b[0]:
        return False
    if a[0] == 'OK':
        return a[1] == b[1] and (a[1] is None) == (b[1] is None) and not isinstance(b[1], bool)
    return a[1] == b[1]


def sim_identity(a, b):
    """equal up to the error kind (an empty extra layer turns `super` without super object into an unknown field)"""
    if a[0] == 'ERR' and b[0] == 'ERR':
        return a[1] == b[1] or {a[1], b[1]} == {'SuperWithoutSuperObject', 'UnknownObjectField'}
    return a == b


# ---------------------------------------------------------------- running a batch of chains

class Batch:
    def __init__(self, impl_exe):
        self.impl_exe = impl_exe
        self.progs = []       # (id, text)
        self.res = {}
        self.prelude = ''

    def add(self, pid, text):
        self.progs.append((pid, self.prelude + text))

    def run(self):
        lines = ['%s\teval\t\t%s' % (pid, hxl(list(t.encode('utf-8')))) for pid, t in self.progs]
        self.res = vlib.run_sharded(self.impl_exe, lines, timeout=300)
        self.text = dict(self.progs)

    def get(self, pid):
        return impl_answer(self.res.get(pid, 'NOOUTPUT'))


def struct_of(ans, names):
    """decode the struct observer; returns dict or None"""
    if ans[0] != 'OK':
        return None
    d = dict(obj_pairs(ans[1]))
    return {'len': d['len'], 'in': list(d['in_']), 'has': list(d['has']), 'hasall': list(d['hasall']),
            'fields': list(d['fields']), 'fieldsall': list(d['fieldsall'])}


def run_chains(run, cases, impl_exe, model_exe, tier, label):
    """cases: list of dicts {id, names, atoms, tree, rseed}"""
    B = Batch(impl_exe)
    mlines = []
    info = {}
    max_br = 4 if tier == 'quick' else 50
    for c in cases:
        cid, names, atoms = c['id'], c['names'], c['atoms']
        rr = random.Random('%s/render' % c['rseed'])
        B.prelude = prelude(names)
        nbefore = len(B.progs)
        texts = [render_expr(rr, a) for a in atoms]
        k = len(atoms)
        main = combine(c['tree'], texts)
        e = tree_expr(c['tree'], atoms)
        if any(len(s) != n for s, n in literal_name_counts(e, [])):
            raise RuntimeError('generator produced a literal with a repeated field name (outside wf_oexpr): %s' % expr_tok(e))
        mlines.append('%s\t%s\t%s' % (cid, expr_tok(e), ' '.join(nm_tok(n) for n in names)))
        inf = {'main': main, 'expr': e, 'texts': texts}
        # K programs
        for key, p in observer_programs(main, names).items():
            B.add('%s/k/%s' % (cid, key), p)
        B.add('%s/k/all' % cid, allvals_program(main))
        # oracle 1: other bracketings
        alts = [t for t in bracketings(0, k) if t != c['tree']]
        rr.shuffle(alts)
        alts = alts[:max_br]
        inf['alts'] = alts
        for bi, t in enumerate(alts):
            txt = combine(t, texts)
            B.add('%s/b%d/struct' % (cid, bi), observer_programs(txt, names)['struct'])
            B.add('%s/b%d/man' % (cid, bi), 'local o = %s; o' % txt)
            B.add('%s/b%d/all' % (cid, bi), allvals_program(txt))
        # oracle 2: {} identity on both sides
        for side, txt in (('el', '({ } + %s)' % main), ('er', '(%s + { })' % main)):
            for key, p in observer_programs(txt, names).items():
                B.add('%s/%s/%s' % (cid, side, key), p)
        # oracle 3: removal of one name leaves the others intact
        rn = rr.choice(names)
        inf['rn'] = rn
        rtxt = 'std.objectRemoveKey(%s, %s)' % (main, jstr(rn))
        for key, p in observer_programs(rtxt, names).items():
            B.add('%s/rm/%s' % (cid, key), p)
        # oracle 4: late binding of self, super sees only the layers to the left
        g = rr.choice(names)
        inf['g'] = g
        cut = rr.randint(0, k)
        probe = '{ %s: self[%s], %s: %s in super }' % (PROBE2, jstr(g), PROBE1, jstr(g))
        left = combine(left_tree(0, cut), texts) if cut > 0 else None
        right = combine(left_tree(cut, k), texts) if cut < k else None
        chain = ' + '.join(x for x in (left, probe, right) if x)
        B.add('%s/late' % cid, 'local o = (%s) + { %s:: 777 }; [o.%s, o.%s]' % (chain, g if is_ident(g) else jstr(g), PROBE2, PROBE1))
        if left:
            B.add('%s/leftin' % cid, '%s in %s' % (jstr(g), left))
        inf['cut'] = cut
        inf['nprogs'] = len(B.progs) - nbefore
        info[cid] = inf
    B.run()
    model = vlib.run_sharded(model_exe, mlines, timeout=300)

    for c in cases:
        cid, names = c['id'], c['names']
        inf = info[cid]
        run.evaluations += inf['nprogs'] + 1      # programs through the real pipeline + the model case
        run.count('programs_evaluated', inf['nprogs'])
        replay = {'kind': 'chain', 'names': names, 'atoms': c['atoms'], 'tree': c['tree'], 'rseed': c['rseed'],
                  'program': inf['main']}

        def viol(key, what, extra=None, concrete=True):
            r = dict(replay)
            if extra:
                r.update(extra)
            run.violation(key, what + ' | object: ' + inf['main'][:400], r, concrete=concrete)

        # ---- machinery sanity
        mr = model.get(cid, 'NOOUTPUT')
        if mr.startswith('MODELEXC') or mr == 'NOOUTPUT' or 'MODELPANIC' in mr or 'MODELFUEL' in mr:
            viol('model-machinery', 'model driver failed: %s' % mr[:200], concrete=False)
            continue
        M = model_answer(mr)
        A = {}
        for key in ['struct', 'man', 'all'] + ['val%d' % i for i in range(len(names))]:
            A[key] = B.get('%s/k/%s' % (cid, key))
        crashed = [k for k, a in A.items() if a[0] == 'BAD']
        if crashed:
            viol('impl-crash', 'implementation did not answer (%s): %s' % (crashed[0], A[crashed[0]][1]),
                 {'program': B.text['%s/k/%s' % (cid, crashed[0])]})
            continue
        run.count(label)
        run.count('chain_len_%d' % len(c['atoms']))
        for kd in sorted(kinds_of_all(c['atoms'])):
            run.count('uses_' + kd)

        # ---- K: implementation vs model, observer by observer
        S = struct_of(A['struct'], names)
        diffs = []
        if M.get('B') != 'ok':
            kind = M.get('B', '')[1:]
            run.count('build_error')
            if A['struct'] != ('ERR', kind):
                diffs.append(('build', 'model: construction fails with %s; implementation: %s' % (kind, A['struct'][:2])))
        elif S is None:
            diffs.append(('build', 'implementation fails to build the object (%s); model builds it' % (A['struct'][1],)))
        else:
            bits = lambda s: [x == '1' for x in s.split(',')]
            mfields = [un_nm(t) for t in M['fields'].split(',')] if M['fields'] else []
            mfall = [un_nm(t) for t in M['fieldsall'].split(',')] if M['fieldsall'] else []
            if S['len'] != int(M['len'], 16):
                diffs.append(('length', 'std.length: implementation %s, model %d' % (S['len'], int(M['len'], 16))))
            if S['in'] != bits(M['in']):
                diffs.append(('in', '`in`: implementation %s, model %s (names %s)' % (S['in'], bits(M['in']), names)))
            if S['hasall'] != bits(M['in']):
                diffs.append(('objectHasAll', 'objectHasAll: implementation %s, model %s' % (S['hasall'], bits(M['in']))))
            if S['has'] != bits(M['has']):
                diffs.append(('objectHas', 'objectHas: implementation %s, model %s (names %s)' % (S['has'], bits(M['has']), names)))
            if S['fields'] != mfields:
                diffs.append(('objectFields', 'objectFields: implementation %s, model %s' % (S['fields'], mfields)))
            if S['fieldsall'] != mfall:
                diffs.append(('objectFieldsAll', 'objectFieldsAll: implementation %s, model %s' % (S['fieldsall'], mfall)))
            mvals = M['val'].split(',')
            for i, n in enumerate(names):
                a, m = A['val%d' % i], model_val(mvals[i])
                run.count('value_' + (a[1] if a[0] == 'ERR' else 'ok'))
                if not same_val(a, m):
                    both_err = a[0] == 'ERR' and m[0] == 'ERR'
                    diffs.append(('error-kind' if both_err else 'field-value',
                                  'o[%r]: implementation %s, model %s' % (n, a, m)))
            # manifestation
            if M['man'].startswith('E'):
                mm = ('ERR', M['man'][1:])
            else:
                mm = ('OK', [(un_nm(x.split(':')[0]), model_val(x.split(':')[1])[1]) for x in M['man'].split(',')] if M['man'] else [])
            am = A['man']
            am_c = ('OK', obj_pairs(am[1])) if am[0] == 'OK' else am
            run.count('manifest_' + (am[1] if am[0] == 'ERR' else 'ok'))
            if am_c != mm:
                both_err = am_c[0] == 'ERR' and mm[0] == 'ERR'
                diffs.append(('error-kind' if both_err else 'manifest', 'manifestation: implementation %s, model %s' % (am_c, mm)))
        for key, what in diffs[:3]:
            # the model provably obeys the layer laws of Props/C07.v; an implementation answer that
            # differs on an observer is a failure of the property on this program (error-kind
            # differences alone are reported as a broken correspondence)
            viol('k-' + key, 'implementation and model disagree: ' + what, {'model': mr, 'observer': key},
                 concrete=(key != 'error-kind'))

        # ---- oracle on the implementation alone
        # (a) observers agree pairwise on which fields exist
        if S is not None:
            why = observers_agree(S, names, A)
            if why:
                viol('observers-disagree:' + why[0], 'observers disagree on which fields exist: ' + why[1],
                     {'struct': S})
        # (b) every bracketing observes identically
        for bi, t in enumerate(inf['alts']):
            for key in ('struct', 'man', 'all'):
                x = B.get('%s/b%d/%s' % (cid, bi, key))
                if x != A[key]:
                    viol('bracketing-' + key, 'bracketing %s vs %s differ on %s: %s vs %s' % (tree_key(c['tree']), tree_key(t), key, str(A[key])[:200], str(x)[:200]),
                         {'other_program': B.text['%s/b%d/%s' % (cid, bi, key)]})
                    break
            run.count('bracketings_compared')
        # (c) {} is a two-sided identity
        for side in ('el', 'er'):
            for key in ['struct', 'man'] + ['val%d' % i for i in range(len(names))]:
                x = B.get('%s/%s/%s' % (cid, side, key))
                if not sim_identity(x, A[key]):
                    viol('empty-identity-' + side, '{ } is not a %s identity on %s: %s vs %s' % ('left' if side == 'el' else 'right', key, str(A[key])[:200], str(x)[:200]),
                         {'other_program': B.text['%s/%s/%s' % (cid, side, key)]})
                    break
        # (d) removal leaves every other field intact
        RS = struct_of(B.get('%s/rm/struct' % cid), names)
        rn = inf['rn']
        if S is not None:
            if RS is None:
                viol('remove-breaks-object', 'std.objectRemoveKey(o, %r) fails: %s' % (rn, B.get('%s/rm/struct' % cid)[1:]), {'removed': rn})
            else:
                ri = names.index(rn)
                bad = None
                if RS['in'][ri] or RS['has'][ri] or RS['hasall'][ri] or rn in RS['fieldsall'] or rn in RS['fields']:
                    bad = 'removed field %r still present (%s)' % (rn, RS)
                for i, n in enumerate(names):
                    if i == ri or bad:
                        continue
                    for ob in ('in', 'has', 'hasall'):
                        if RS[ob][i] != S[ob][i]:
                            bad = 'removing %r changed %s of %r: %s -> %s' % (rn, ob, n, S[ob][i], RS[ob][i])
                    if (n in RS['fields']) != (n in S['fields']) or (n in RS['fieldsall']) != (n in S['fieldsall']):
                        bad = bad or 'removing %r changed the listing of %r' % (rn, n)
                    rv, ov = B.get('%s/rm/val%d' % (cid, i)), A['val%d' % i]
                    if rv[0] == 'OK' and rv != ov:
                        bad = bad or 'removing %r changed the value of %r: %s -> %s' % (rn, n, ov, rv)
                    if rv[0] == 'ERR' and ov[0] == 'OK' and rv[1] != 'UnknownObjectField':
                        bad = bad or 'removing %r made %r fail with %s' % (rn, n, rv[1])
                rv = B.get('%s/rm/val%d' % (cid, ri))
                if not bad and rv != ('ERR', 'UnknownObjectField'):
                    bad = 'removed field %r still readable: %s' % (rn, rv)
                if not bad and RS['len'] != len(RS['fields']):
                    bad = 'length %s vs fields %s after removal' % (RS['len'], RS['fields'])
                if bad:
                    viol('remove-not-exact', bad, {'removed': rn, 'other_program': B.text['%s/rm/struct' % cid]})
        # (e) late binding of self; super sees exactly the layers to the left
        la = B.get('%s/late' % cid)
        if la[0] == 'OK':
            want_in = False
            if inf['cut'] > 0:
                li = B.get('%s/leftin' % cid)
                want_in = li[1] if li[0] == 'OK' else None
            if la[1][0] != 777:
                viol('self-not-late-bound', 'a field reading self[%r] below an override by 777 evaluates to %r' % (inf['g'], la[1][0]),
                     {'other_program': B.text['%s/late' % cid]})
            elif want_in is not None and la[1][1] != want_in:
                viol('super-not-left', '%r in super at cut %d is %r, the layers to the left say %r' % (inf['g'], inf['cut'], la[1][1], want_in),
                     {'other_program': B.text['%s/late' % cid]})
            run.count('late_binding_probes')
        elif la[0] == 'ERR' and S is not None and la[1] in ERRKINDS and 'asserts' not in kinds_of_all(c['atoms']):
            # (with asserts in the chain the probe may legitimately fail: they read the overridden self)
            viol('self-not-late-bound', 'late-binding probe fails with %s' % la[1], {'other_program': B.text['%s/late' % cid]})

        # ---- bookkeeping
        layers = names_per_layer(inf['expr'], [])
        seen, multi = set(), False
        for s in layers:
            if s & seen:
                multi = True
            seen |= s
        if multi:
            run.nontrivial.add(expr_tok(inf['expr']))
        if len(run.samples) < 4 and multi:
            run.samples.append({'program': inf['main'][:400], 'model_case': expr_tok(inf['expr'])[:300], 'model_answer': mr[:300]})


# ---------------------------------------------------------------- reuse of one object value (observe, then extend)

def reuse_stages(c, rr):
    """objects built from the SAME atom values bound to locals: every atom, the growing prefixes
    s1 = x0 + x1, s2 = s1 + x2, ..., and objects that reuse an operand in another sum
    (x0 + x_last, x1 + x0, s1 + s1, std.objectRemoveKey(s_last, n) + x0, x_last + s1).
    returns (bindings [(local name, text)], stages [(local name, expr, operand locals)])"""
    atoms, names = c['atoms'], c['names']
    k = len(atoms)
    texts = [render_expr(rr, a) for a in atoms]
    binds = [('x%d' % i, texts[i]) for i in range(k)]
    stages = [('x%d' % i, atoms[i], []) for i in range(k)]
    prev_n, prev_e = 'x0', atoms[0]
    for i in range(1, k):
        e = ['P', prev_e, atoms[i]]
        form = '%s + x%d' % (prev_n, i)
        ops = [prev_n, 'x%d' % i]
        if atoms[i][0] == 'L' and rr.random() < 0.2:
            form = '%s %s' % (prev_n, texts[i])          # obj { ... } on a bound object (a fresh literal, same layer)
            ops = [prev_n]
        binds.append(('s%d' % i, form))
        stages.append(('s%d' % i, e, ops))
        prev_n, prev_e = 's%d' % i, e
    s1e = ['P', atoms[0], atoms[1]]
    extra = [('t', ['P', atoms[0], atoms[k - 1]], 'x0 + x%d' % (k - 1), ['x0', 'x%d' % (k - 1)]),
             ('u', ['P', atoms[1], atoms[0]], 'x1 + x0', ['x1', 'x0']),
             ('w', ['P', s1e, s1e], 's1 + s1', ['s1'])]
    rn = rr.choice(names)
    extra.append(('v', ['P', ['R', prev_e, rn], atoms[0]], 'std.objectRemoveKey(%s, %s) + x0' % (prev_n, jstr(rn)), [prev_n, 'x0']))
    if k >= 3:
        extra.append(('y', ['P', atoms[k - 1], s1e], 'x%d + s1' % (k - 1), ['x%d' % (k - 1), 's1']))
    for n, e, form, ops in extra:
        binds.append((n, form))
        stages.append((n, e, ops))
    # right operands of every construction kind that override a field some assert reads (or any name)
    # with 0 — so that an inherited assert may fail in the combination only
    read = sorted(set(x for a in atoms for x in assert_reads(a, [])))
    kinds = ['lit', 'comp', 'mergePatch', 'prune', 'mapWithKey', 'removeKey', 'plus']
    rr.shuffle(kinds)
    for j, kind in enumerate(kinds[:2]):
        g = rr.choice(read) if read and rr.random() < 0.8 else rr.choice(names)
        h = rr.choice([n for n in names if n != g])
        zero = ['L', [[g, 'd', 0, ['n', 0]]], 'lit', []]
        if kind == 'lit':
            oe = zero
        elif kind == 'comp':
            oe = ['L', [[g, 'd', 0, ['n', 0]]], 'comp', []]
        elif kind == 'mergePatch':
            oe = ['G', ['L', [], 'lit', []], zero]
        elif kind == 'prune':
            oe = ['N', ['L', [[g, 'd', 0, ['n', 0]], [h, 'd', 0, ['u']]], 'lit', []]]
        elif kind == 'mapWithKey':
            oe = ['M', 10, ['L', [[g, 'd', 0, ['n', -10]]], 'lit', []]]
        elif kind == 'removeKey':
            oe = ['R', ['L', [[g, 'd', 0, ['n', 0]], [h, 'd', 0, ['n', 1]]], 'lit', []], h]
        else:
            oe = ['P', ['L', [[h, 'h', 0, ['n', 1]]], 'lit', []], zero]
        on, zn = 'ov%d' % j, 'z%d' % j
        binds.append((on, render_expr(rr, oe)))
        stages.append((on, oe, []))
        binds.append((zn, '%s + %s' % (prev_n, on)))
        stages.append((zn, ['P', prev_e, oe], [prev_n, on]))
    return binds, stages


def assert_reads(e, acc):
    """names read through self by the asserts of the literals of e"""
    if e[0] == 'L':
        for a in (e[3] if len(e) > 3 else []):
            body_self_names(a[1], acc)
    elif e[0] in 'PG':
        assert_reads(e[1], acc); assert_reads(e[2], acc)
    elif e[0] in 'RN':
        assert_reads(e[1], acc)
    elif e[0] == 'M':
        assert_reads(e[2], acc)
    return acc


def body_self_names(b, acc):
    if b[0] == 's':
        acc.append(b[1])
    elif b[0] == 'a':
        body_self_names(b[1], acc); body_self_names(b[2], acc)
    return acc


def run_reuse(run, cases, impl_exe, model_exe, tier):
    """One object VALUE observed at several places of one program: forced in varied ways (field
    read, std.length, std.objectHas, std.objectFields, manifestation, ==) and then extended on
    either side, every stage observed, in a random order; optionally the program ends with ONE
    observation that the model says fails (typically an assert of a sum that only fails in the
    combination), placed after observations of both operands of that sum.  The model evaluates every
    observation on its own (asserts of the final object every time, no history); the program must
    answer the list of the model's answers, or fail with the model's error (variant + user message)
    (K), and its outcome must not depend on the order of the observations (oracle)."""
    mlines, meta = [], {}
    for c in cases:
        rr = random.Random('%s/reuse' % c['rseed'])
        binds, stages = reuse_stages(c, rr)
        meta[c['id']] = (binds, stages, rr)
        nmt = ' '.join(nm_tok(n) for n in c['names'])
        for sn, e, _ in stages:
            mlines.append('%s~%s\t%s\t%s' % (c['id'], sn, expr_tok(e), nmt))
    model = vlib.run_sharded(model_exe, mlines, timeout=600)
    B = Batch(impl_exe)
    plan = {}
    nobs = 14 if tier == 'quick' else 24
    for c in cases:
        cid, names = c['id'], c['names']
        binds, stages, rr = meta[cid]
        good = {}         # stage -> [(text, expected, forces_asserts)]
        failing = []      # (stage, text, error kind, operands)
        ok = True
        for sn, e, ops in stages:
            mr = model.get('%s~%s' % (cid, sn), 'NOOUTPUT')
            if mr.startswith('MODELEXC') or mr == 'NOOUTPUT' or 'MODELPANIC' in mr or 'MODELFUEL' in mr:
                run.violation('model-machinery', 'model driver failed on a reuse stage: %s' % mr[:200],
                              {'kind': 'chain', 'names': names, 'atoms': c['atoms'], 'tree': c['tree'], 'rseed': c['rseed']}, concrete=False)
                ok = False
                break
            M = model_answer(mr)
            if M.get('B') != 'ok':
                continue          # this local is never forced (building it fails; covered by the chain check)
            g = good.setdefault(sn, [])
            mvals = M['val'].split(',')
            hasb = [x == '1' for x in M['has'].split(',')]
            fields = [un_nm(t) for t in M['fields'].split(',')] if M['fields'] else []
            for i, n in enumerate(names):
                mv = model_val(mvals[i])
                if mv[0] == 'OK':
                    g.append(('%s[%s]' % (sn, jstr(n)), mv[1], True))
                elif mv[0] == 'ERR' and mv[1] != 'UnknownObjectField':
                    failing.append((sn, '%s[%s]' % (sn, jstr(n)), mv[1], ops))
                g.append(('std.objectHas(%s, %s)' % (sn, jstr(n)), hasb[i], False))
            g.append(('std.length(%s)' % sn, int(M['len'], 16), False))
            g.append(('std.objectFields(%s)' % sn, fields, False))
            if not M['man'].startswith('E'):
                pairs = [(un_nm(x.split(':')[0]), model_val(x.split(':')[1])[1]) for x in M['man'].split(',')] if M['man'] else []
                g.append((sn, [('__obj__', None)] + pairs, True))
                g.append(('(%s + { }) == %s' % (sn, sn), True, True))      # manifestation of a copy, and ==
            else:
                failing.append((sn, sn, M['man'][1:], ops))
        if not ok or not any(good.values()):
            continue
        # the failing observation (if any): prefer a sum whose operands can be forced first, and assert failures
        last = None
        if failing and rr.random() < 0.7:
            def weight(f):
                w = 1
                if f[2].startswith('AssertFailed'):
                    w *= 6
                if f[3] and all(any(o[2] for o in good.get(op, [])) for op in f[3]):
                    w *= 6
                return w
            last = rr.choices(failing, weights=[weight(f) for f in failing])[0]
        obs = []
        if last:
            for op in last[3]:
                forcing = [o for o in good.get(op, []) if o[2]]
                rr.shuffle(forcing)
                obs += forcing[:rr.choice([1, 1, 2])]
        pool = [o for g in good.values() for o in g if o not in obs]
        rr.shuffle(pool)
        obs += pool[:max(0, nobs - len(obs))]
        rr.shuffle(obs)
        perm = list(range(len(obs)))
        rr.shuffle(perm)
        tail = [last[1]] if last else []
        head = prelude(names) + 'local ' + ', '.join('%s = %s' % (n, t) for n, t in binds) + '; '
        B.prelude = ''
        B.add('%s/reuse/a' % cid, head + '[' + ', '.join([o[0] for o in obs] + tail) + ']')
        B.add('%s/reuse/b' % cid, head + '[' + ', '.join([obs[j][0] for j in perm] + tail) + ']')
        plan[cid] = (obs, perm, last)
    B.run()
    for c in cases:
        cid = c['id']
        if cid not in plan:
            continue
        obs, perm, last = plan[cid]
        run.evaluations += 2
        run.count('reuse_programs', 2)
        run.count('reuse_observations', len(obs) + (1 if last else 0))
        if last:
            run.count('reuse_ends_in_failure')
            if last[2].startswith('AssertFailed'):
                run.count('reuse_ends_in_assert_failure')
        a, b = B.get('%s/reuse/a' % cid), B.get('%s/reuse/b' % cid)
        replay = {'kind': 'chain', 'names': c['names'], 'atoms': c['atoms'], 'tree': c['tree'], 'rseed': c['rseed'],
                  'program': B.text['%s/reuse/a' % cid], 'other_program': B.text['%s/reuse/b' % cid]}
        want = [o[1] for o in obs]
        reported = False
        for tag, ans, order in (('a', a, list(range(len(obs)))), ('b', b, perm)):
            exp = ('ERR', last[2]) if last else ('OK', [want[j] for j in order])
            if ans != exp:
                bad = None
                if not last and ans[0] == 'OK' and isinstance(ans[1], list) and len(ans[1]) == len(exp[1]):
                    for pos, j in enumerate(order):
                        if ans[1][pos] != exp[1][pos]:
                            bad = 'observation %s: implementation %r, model (evaluated on its own) %r' % (obs[j][0], ans[1][pos], exp[1][pos])
                            break
                elif last:
                    bad = 'the last observation %s fails with %s in the model (evaluated on its own); the program answers %s' % (last[1], last[2], str(ans[:2])[:300])
                run.violation('reuse-stale-value', 'one object value observed and then extended: %s | program: %s'
                              % (bad or ('implementation %s' % (ans[:2],)), B.text['%s/reuse/%s' % (cid, tag)][:700]), replay)
                reported = True
                break
        # order independence on the implementation alone
        if a[0] == 'OK' and b[0] == 'OK' and isinstance(a[1], list) and isinstance(b[1], list) and len(a[1]) == len(b[1]) and len(a[1]) >= len(obs):
            pa = [a[1][j] for j in perm] + a[1][len(obs):]
            if pa != b[1]:
                j = next(pos for pos in range(len(b[1])) if pa[pos] != b[1][pos])
                what = obs[perm[j]][0] if j < len(obs) else last[1]
                run.violation('observation-order-dependence',
                              'the same observation %s yields %r or %r depending on what was observed before | programs: %s  ///  %s'
                              % (what, pa[j], b[1][j], B.text['%s/reuse/a' % cid][:500], B.text['%s/reuse/b' % cid][:500]), replay)
        elif a[:2] != b[:2] and (a[0] != 'OK' or b[0] != 'OK'):
            run.violation('observation-order-dependence', 'the program succeeds or fails (or fails differently) depending on the order of its observations: %s vs %s | programs: %s  ///  %s'
                          % (str(a[:2])[:200], str(b[:2])[:200], B.text['%s/reuse/a' % cid][:500], B.text['%s/reuse/b' % cid][:500]), replay)


def literal_name_counts(e, acc):
    """(set of names, number of fields) per literal: C07_build_wf needs distinct names in every literal"""
    if e[0] == 'L':
        acc.append((set(f[0] for f in e[1]), len(e[1])))
    elif e[0] in 'PG':
        literal_name_counts(e[1], acc); literal_name_counts(e[2], acc)
    elif e[0] in 'RN':
        literal_name_counts(e[1], acc)
    elif e[0] == 'M':
        literal_name_counts(e[2], acc)
    return acc


def kinds_of_all(atoms):
    acc = set()

    def go(e):
        acc.add(e[0])
        if e[0] in 'PG':
            go(e[1]); go(e[2])
        elif e[0] == 'R':
            go(e[1])
        elif e[0] == 'M':
            go(e[2])
        elif e[0] == 'N':
            go(e[1])
        elif e[0] == 'L':
            for f in e[1]:
                if f[2]:
                    acc.add('plus')
                acc.add('vis_' + f[1])
                bk = set()
                body_kinds(f[3], bk)
                acc.update('body_' + x for x in bk)
            if len(e) > 2 and e[2] == 'comp':
                acc.add('comprehension')
            if len(e) > 2 and e[2] == 'fieldless':
                acc.add('fieldless_layer')
            if len(e) > 3 and e[3]:
                acc.add('asserts')
    for a in atoms:
        go(a)
    return acc


def body_kinds(b, acc):
    acc.add(b[0])
    if b[0] == 'a':
        body_kinds(b[1], acc); body_kinds(b[2], acc)


def observers_agree(S, names, A):
    """pairwise agreement of the observers on one object (implementation answers only)"""
    ins = [n for n, b in zip(names, S['in']) if b]
    has = [n for n, b in zip(names, S['has']) if b]
    if S['hasall'] != S['in']:
        return ('in-vs-objectHasAll', '`in` %s, objectHasAll %s' % (S['in'], S['hasall']))
    if sorted(S['fieldsall']) != sorted(ins):
        return ('objectFieldsAll-vs-in', 'objectFieldsAll %s, names with `in` %s' % (S['fieldsall'], ins))
    if sorted(S['fields']) != sorted(has):
        return ('objectFields-vs-objectHas', 'objectFields %s, names with objectHas %s' % (S['fields'], has))
    if S['len'] != len(S['fields']):
        return ('length-vs-objectFields', 'std.length %s, objectFields %s' % (S['len'], S['fields']))
    if any(a >= b for a, b in zip(S['fieldsall'], S['fieldsall'][1:])) or any(a >= b for a, b in zip(S['fields'], S['fields'][1:])):
        return ('order', 'field lists not strictly sorted: %s / %s' % (S['fields'], S['fieldsall']))
    if not set(S['fields']) <= set(S['fieldsall']):
        return ('objectFields-vs-objectFieldsAll', '%s not within %s' % (S['fields'], S['fieldsall']))
    man = A['man']
    if man[0] == 'OK':
        keys = [k for k, _ in obj_pairs(man[1])]
        if keys != S['fields']:
            return ('manifest-vs-objectFields', 'manifested keys %s, objectFields %s' % (keys, S['fields']))
        for k, v in obj_pairs(man[1]):
            a = A['val%d' % names.index(k)]
            if a != ('OK', v):
                return ('manifest-vs-index', 'manifested %r = %r but o[%r] = %s' % (k, v, k, a))
    for i, n in enumerate(names):
        a = A['val%d' % i]
        if not S['in'][i] and a != ('ERR', 'UnknownObjectField'):
            return ('index-vs-in', '%r not in o but o[%r] = %s' % (n, n, a))
    return None


# ---------------------------------------------------------------- main check

def corpus_cases():
    out = []
    path = os.path.join(vlib.VERIF, 'corpus', 'c07_chains.txt')
    if os.path.exists(path):
        for i, l in enumerate(open(path, encoding='utf-8')):
            l = l.strip()
            if not l or l.startswith('#'):
                continue
            j = json.loads(l)
            k = len(j['atoms'])
            for ti, t in enumerate([left_tree(0, k)] + ([random_tree(random.Random(i), 0, k)] if k > 2 else [])):
                out.append({'id': 'c%d_%d' % (i, ti), 'names': j['names'], 'atoms': j['atoms'], 'tree': t, 'rseed': 'corpus/%d' % i})
    return out


def check(run):
    rng = vlib.rng_for(run.seed, ID)
    run.rule = ('chains of 2-6 object expressions over a 4-name alphabet (3 alphabets, one with non-identifier / non-ASCII names): literals with '
                'the three visibilities, +:, bodies from {number, null, self.g, super.g, g in super, +}, comprehension-built layers, object '
                'locals, computed / dropped field names, e {..} sugar, std.objectRemoveKey at any point, results of std.mapWithKey / std.prune / '
                'std.mergePatch as sources; a random bracketing is compared observer by observer with the extracted model, up to 4 (quick) / all '
                '(thorough) other bracketings, both {} extensions, one removal and a late-binding/super probe are judged by the oracle on the '
                'implementation alone; one more program per chain binds the atoms and their growing sums to locals and observes all of them (forced, '
                'then extended on either side, then observed again) in a shuffled order, compared with independent model evaluations and with the '
                'same program permuted.  non-trivial = chain in which some name occurs in >= 2 layers; distinct = distinct abstract chain.')
    run.assume = ['a hash map with unique keys is an association list (Proofs: wf_layer); iteration order is immaterial under unique keys (proved: the merged state of a name depends only on that name\'s entries)',
                  'str::cmp on UTF-8 equals lexicographic order on code points',
                  'usize arithmetic on layer indices does not overflow (depths are bounded by the number of layers)',
                  'keys given to std.objectRemoveKey are interned (they occur as a name in the program); otherwise the builtin returns its argument unchanged',
                  'field values in generated programs are small integers or null (exact in binary64)']
    pres = vlib.prove(ID, THEOREMS, ALLOWED_AXIOMS)
    run.add_proof(pres, THEOREMS)
    impl_exe = vlib.build_harness()
    model_exe = vlib.build_model('objects')
    cases = corpus_cases()
    n = 1200 if run.tier == 'quick' else 10000
    for i in range(n):
        crng = random.Random('%s/%s/%d' % (run.seed, ID, i))
        c = gen_chain(crng)
        c['id'] = 'g%d' % i
        c['rseed'] = '%s/%d' % (run.seed, i)
        cases.append(c)
    # batches keep memory bounded in thorough
    for s in range(0, len(cases), 3000):
        run_chains(run, cases[s:s + 3000], impl_exe, model_exe, run.tier, 'chains')
        run_reuse(run, cases[s:s + 3000], impl_exe, model_exe, run.tier)


def replay(run, path):
    j = json.load(open(path))
    r = j.get('replay', {})
    if isinstance(r, dict) and r.get('kind') == 'chain':
        tree = r['tree']

        def tup(t):
            return t if isinstance(t, int) else (tup(t[0]), tup(t[1]))
        c = {'id': 'r0', 'names': r['names'], 'atoms': r['atoms'], 'tree': tup(tree), 'rseed': r['rseed']}
        run_chains(run, [c], vlib.build_harness(), vlib.build_model('objects'), 'thorough', 'replay')
        run_reuse(run, [c], vlib.build_harness(), vlib.build_model('objects'), 'thorough')
    else:
        print('replay file names a broken obligation, not an input:', json.dumps(j.get('no_longer_checks', j), indent=1)[:2000])
        pres = vlib.prove(ID, THEOREMS, ALLOWED_AXIOMS)
        run.add_proof(pres, THEOREMS)
    for v in run.violations:
        print('REPRODUCED:', v['what'])
    if not run.violations and not run.failed_obligations:
        print('not reproduced')
    return 1 if (run.violations or run.failed_obligations) else 0
